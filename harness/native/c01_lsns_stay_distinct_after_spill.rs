// host: io/wal.rs
// Native scenario for C17.push_step[...] law last_lsn_is_the_lsn_just_appended (also C01): the pager numbers the next
// record last_lsn()+1, so last_lsn() must follow every append - also once records land beyond block zero.
use super::*;
use crate::storage::wal::{OwnedRecord, RecordType};

fn rec(lsn: u64, payload: usize) -> OwnedRecord {
    let redo = vec![7u8; payload];
    OwnedRecord::new(lsn, 1, None, Some(1), Some(lsn), RecordType::Insert, &[], &redo)
}

#[test]
fn last_lsn_follows_appends_beyond_block_zero() {
    let dir = tempfile::tempdir().unwrap();
    let path = dir.path().join("w.log");
    let mut wal = WriteAheadLog::create(&path).unwrap();
    let big = wal.max_record_size() * 2 / 3;
    let mut next = 0u64;
    for _ in 0..6 {
        // what Pager::push_to_log does
        let lsn = wal.last_lsn().map(|l| l + 1).unwrap_or(0);
        assert_eq!(lsn, next, "the log hands out an LSN twice once records spill out of block zero");
        wal.push(rec(lsn, big)).unwrap();
        next += 1;
    }
    std::mem::forget(wal);
}

#[test]
fn log_that_left_block_zero_recovers_after_a_crash() {
    use crate::{DBConfig, Database};
    let dir = tempfile::TempDir::new().unwrap();
    let path = dir.path().join("t.db");
    let db = Database::create(&path, DBConfig::default()).unwrap();
    db.execute("CREATE TABLE a (id BIGINT, v INT)").unwrap();
    db.execute("CREATE TABLE b (id BIGINT, v INT)").unwrap();
    db.flush().unwrap();
    // enough small commits since the checkpoint for the log to spill out of block zero (two tables: one row may not be
    // updated / re-versioned more than 255 times on this tree)
    for i in 0..150 {
        db.execute(&format!("INSERT INTO {} VALUES ({i}, {i})", if i % 2 == 0 { "a" } else { "b" })).unwrap();
    }
    let img = tempfile::TempDir::new().unwrap();
    std::fs::copy(&path, img.path().join("t.db")).unwrap();
    std::fs::copy(dir.path().join("axmos.log"), img.path().join("axmos.log")).unwrap();
    let re = Database::open(img.path().join("t.db"), DBConfig::default());
    assert!(re.is_ok(), "open fails after a crash with a log that extends beyond block zero: {:?}", re.err().map(|e| e.to_string()));
    let re = re.unwrap();
    let na = re.execute("SELECT id FROM a").unwrap().into_rows().unwrap().len();
    let nb = re.execute("SELECT id FROM b").unwrap().into_rows().unwrap().len();
    assert_eq!((na, nb), (75, 75), "acknowledged rows are missing after the crash");
    std::mem::forget(db);
}
