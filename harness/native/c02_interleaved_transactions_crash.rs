// host: lib.rs
// Native scenario for C02.redo_and_undo_follow_the_transactions_own_records: two sessions interleave their statements,
// one commits, the other rolls back (or stays open); the process dies before the next checkpoint; after reopening only
// the committed session's work is there.
use crate::{DBConfig, Database};

fn ids(d: &Database) -> Vec<i64> {
    let mut v: Vec<i64> = d.execute("SELECT id FROM t").unwrap().into_rows().unwrap().iterrows().map(|r| r[0].as_big_int().unwrap().value()).collect();
    v.sort();
    v
}

#[test]
fn interleaved_sessions_only_the_committed_one_survives_the_crash() {
    let dir = tempfile::TempDir::new().unwrap();
    let path = dir.path().join("t.db");
    let db = Database::create(&path, DBConfig::default()).unwrap();
    db.execute("CREATE TABLE t (id BIGINT, v INT)").unwrap();
    db.execute("INSERT INTO t VALUES (1, 10)").unwrap();
    db.flush().unwrap();
    let mut a = db.session().unwrap();
    let mut b = db.session().unwrap();
    a.execute("INSERT INTO t VALUES (2, 20)").unwrap();
    b.execute("INSERT INTO t VALUES (3, 30)").unwrap();
    a.execute("INSERT INTO t VALUES (4, 40)").unwrap();
    b.execute("INSERT INTO t VALUES (5, 50)").unwrap();
    b.commit_transaction().unwrap();
    a.abort_transaction().unwrap();
    assert_eq!(ids(&db), vec![1, 3, 5], "live database");
    let img = tempfile::TempDir::new().unwrap();
    std::fs::copy(&path, img.path().join("t.db")).unwrap();
    std::fs::copy(dir.path().join("axmos.log"), img.path().join("axmos.log")).unwrap();
    let rec = Database::open(img.path().join("t.db"), DBConfig::default()).expect("open after the crash");
    assert_eq!(ids(&rec), vec![1, 3, 5], "after the crash the rolled-back session's rows are there / the committed one's are not");
    drop(rec);
    std::mem::forget(a);
    std::mem::forget(b);
}
