// host: lib.rs
// Native scenario: after VACUUM (which ends with a checkpoint) and after an explicit flush() the same Database handle
// must keep working ("the database remains fully usable afterwards").
use crate::{DBConfig, Database};

fn count(db: &Database) -> i64 {
    db.execute("SELECT COUNT(*) FROM t").unwrap().into_rows().unwrap().first().unwrap()[0].as_big_int().unwrap().value()
}

#[test]
fn database_usable_after_vacuum_and_flush() {
    let dir = tempfile::TempDir::new().unwrap();
    let db = Database::create(dir.path().join("t.db"), DBConfig::default()).unwrap();
    db.execute("CREATE TABLE t (id BIGINT, v INT)").unwrap();
    for i in 0..20 {
        db.execute(&format!("INSERT INTO t VALUES ({}, {})", i, i)).unwrap();
    }
    db.execute("DELETE FROM t WHERE id < 5").unwrap();
    db.vacuum().expect("vacuum failed");
    assert_eq!(count(&db), 15, "contents changed by VACUUM");
    for i in 100..120 {
        db.execute(&format!("INSERT INTO t VALUES ({}, {})", i, i)).unwrap_or_else(|e| panic!("INSERT after VACUUM failed: {}", e));
    }
    assert_eq!(count(&db), 35);
    db.flush().expect("flush failed");
    for i in 200..220 {
        db.execute(&format!("INSERT INTO t VALUES ({}, {})", i, i)).unwrap_or_else(|e| panic!("INSERT after flush() failed: {}", e));
    }
    assert_eq!(count(&db), 55);
}
