// host: lib.rs
// Native scenario for C05.order_by_is_lexicographic: rows that tie on the first sort key - also when the tie is NULL/NULL -
// are ordered by the second key.
use crate::{DBConfig, Database};

#[test]
fn second_sort_key_breaks_ties_including_null_ties() {
    let dir = tempfile::TempDir::new().unwrap();
    let db = Database::create(dir.path().join("t.db"), DBConfig::default()).unwrap();
    db.execute("CREATE TABLE t (id BIGINT, prio INT, title TEXT)").unwrap();
    for (id, prio, title) in [(1, "NULL", "pear"), (2, "1", "kiwi"), (3, "NULL", "apple"), (4, "1", "date"), (5, "NULL", "fig"), (6, "2", "plum")] {
        db.execute(&format!("INSERT INTO t VALUES ({id}, {prio}, '{title}')")).unwrap();
    }
    let got: Vec<i64> = db.execute("SELECT id FROM t ORDER BY prio, title").unwrap().into_rows().unwrap().iterrows().map(|r| r[0].as_big_int().unwrap().value()).collect();
    let pos = |id: i64| got.iter().position(|x| *x == id).unwrap();
    assert!(pos(4) < pos(2), "ties on prio = 1 are not ordered by title: {got:?}");
    assert!(pos(3) < pos(5) && pos(5) < pos(1), "NULL/NULL ties on prio are not ordered by title: {got:?}");
    assert!(pos(2) < pos(6), "prio 1 must sort before prio 2: {got:?}");
}
