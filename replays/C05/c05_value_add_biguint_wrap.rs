// replay for obligation C05.value_arith[add][BigInt_x_BigUInt>=2^63] (harness c05_value_add_biguint_wrap)
// harness-file: c05_eval.rs
// failed: value_arith_is_exact_or_error
// native outcome when recorded: panicked: thread 'runtime::eval::__verif_c05_eval::kani_concrete_playback_c05_value_add_biguint_wrap_18275042958641329621' (29116) panicked at /var/tmp/axv-c05-c4oe8d76/src/crates/axmos-db/src/__verif/c05_eval.rs:749:5: | value_arith_is_exact_or_error
// re-run: /verif/bin/check --replay /verif/replays/C05/c05_value_add_biguint_wrap.rs
#[test]
fn kani_concrete_playback_c05_value_add_biguint_wrap_18275042958641329621() {
    let concrete_vals: Vec<Vec<u8>> = vec![
        // 0
        vec![0, 0, 0, 0, 0, 0, 0, 0],
        // 9223372036854775808ul
        vec![0, 0, 0, 0, 0, 0, 0, 128],
    ];
    kani::concrete_playback_run(concrete_vals, c05_value_add_biguint_wrap);
}

