// host: io/wal.rs
// Native scenario for C17.push_order: a small record appended after a force must come back AFTER the records that were
// already in later blocks (strictly increasing sequence numbers on read-back).
use super::*;
use crate::storage::wal::{OwnedRecord, RecordType};

fn rec(lsn: u64, payload: usize) -> OwnedRecord {
    let redo = vec![7u8; payload];
    OwnedRecord::new(lsn, 1, None, Some(1), Some(lsn), RecordType::Insert, &[], &redo)
}

#[test]
fn read_back_is_in_append_order() {
    let dir = tempfile::tempdir().unwrap();
    let path = dir.path().join("w.log");
    {
        let mut wal = WriteAheadLog::create(&path).unwrap();
        let big = wal.max_record_size() * 2 / 3;
        wal.push(rec(1, big)).unwrap(); // block zero, leaves ~1/3 free
        wal.push(rec(2, big)).unwrap(); // does not fit: goes to the next block
        wal.perform_flush().unwrap();
        wal.push(rec(3, 16)).unwrap(); // small: fits into the room left in block zero
        wal.perform_flush().unwrap();
        std::mem::forget(wal);
    }
    let mut wal = WriteAheadLog::open(&path).unwrap();
    let mut got = Vec::new();
    let mut rd = wal.reader(4).unwrap();
    while let Some(r) = rd.next_ref().unwrap() {
        got.push(r.lsn());
    }
    assert_eq!(got, vec![1, 2, 3], "records are not read back in append order");
}

#[test]
fn read_back_is_in_append_order_without_a_force_in_between() {
    let dir = tempfile::tempdir().unwrap();
    let path = dir.path().join("w2.log");
    {
        let mut wal = WriteAheadLog::create(&path).unwrap();
        let big = wal.max_record_size() * 2 / 3;
        wal.push(rec(1, big)).unwrap(); // block zero, leaves ~1/3 free
        wal.push(rec(2, big)).unwrap(); // does not fit: opens the first block after block zero
        wal.push(rec(3, 16)).unwrap(); // small: would still fit into block zero - must follow record 2
        wal.push(rec(4, 16)).unwrap();
        wal.perform_flush().unwrap();
        std::mem::forget(wal);
    }
    let mut wal = WriteAheadLog::open(&path).unwrap();
    let mut got = Vec::new();
    let mut rd = wal.reader(4).unwrap();
    while let Some(r) = rd.next_ref().unwrap() {
        got.push(r.lsn());
    }
    assert_eq!(got, vec![1, 2, 3, 4], "records are not read back in append order");
}
