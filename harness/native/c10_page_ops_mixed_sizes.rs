// host: storage/page.rs
// Native scenario for the C10 slotted-page obligations (replace with a smaller cell, defragment with mixed cell sizes):
// drives the real `BtreePage` API only (alloc / push / insert / remove / replace / defragment) and compares the page
// with the list of cells it must contain.  Fails iff a cell's bytes change although the cell was not touched.
use super::*;
use crate::storage::cell::OwnedCell;
use crate::storage::BtreeOps;

fn payload(len: usize, seed: u8) -> Vec<u8> {
    (0..len).map(|i| seed.wrapping_add((i as u8).wrapping_mul(7))).collect()
}

fn check(page: &BtreePage, model: &[Vec<u8>], what: &str) {
    assert_eq!(page.num_slots() as usize, model.len(), "{what}: slot count");
    for (i, m) in model.iter().enumerate() {
        let c = page.owned_cell(i);
        assert_eq!(&c.full_data()[..m.len()], &m[..], "{what}: payload of cell {i} changed");
    }
}

#[test]
fn defragment_keeps_cells_when_a_cell_moves_by_less_than_its_size() {
    let mut page = BtreePage::alloc(7, 4096);
    let a = payload(120, 1);
    let b = payload(8, 50);
    let c = payload(120, 100);
    page.push(OwnedCell::new(&a)).unwrap();
    page.push(OwnedCell::new(&b)).unwrap();
    page.push(OwnedCell::new(&c)).unwrap();
    check(&page, &[a.clone(), b.clone(), c.clone()], "after push");
    page.remove(1).unwrap();
    check(&page, &[a.clone(), c.clone()], "after remove");
    page.defragment();
    check(&page, &[a, c], "after defragment");
}

#[test]
fn insert_after_shrinking_replace_keeps_other_cells() {
    let mut page = BtreePage::alloc(7, 4096);
    let a = payload(1000, 1);
    let small = payload(8, 77);
    let b = payload(1000, 100);
    page.push(OwnedCell::new(&a)).unwrap();
    page.replace(0, OwnedCell::new(&small)).unwrap();
    check(&page, &[small.clone()], "after replace");
    page.push(OwnedCell::new(&b)).unwrap();
    check(&page, &[small, b], "after push following the shrinking replace");
}

#[test]
fn shrinking_replace_of_an_upper_cell_keeps_lower_cells() {
    let mut page = BtreePage::alloc(7, 4096);
    let a = payload(120, 1);
    let b = payload(24, 50);
    let small = payload(8, 77);
    let c = payload(64, 100);
    page.push(OwnedCell::new(&a)).unwrap();
    page.push(OwnedCell::new(&b)).unwrap();
    page.replace(0, OwnedCell::new(&small)).unwrap();
    check(&page, &[small.clone(), b.clone()], "after replace");
    page.push(OwnedCell::new(&c)).unwrap();
    check(&page, &[small, b, c], "after push following the shrinking replace");
}
