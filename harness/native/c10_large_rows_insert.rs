// host: lib.rs
// Native scenario for C10.thresholds[room_for_largest_cell/*]: rows large enough to be stored as maximum-size cells
// (their tail in an overflow chain) can be inserted one after the other; every INSERT succeeds and every row is counted
// back.  On a tree whose largest cell does not fit above the overflow threshold the third separator pushed into an
// interior page fails with "Buffer overflow ... on a btreepage" (StorageFull).
use crate::{DBConfig, Database};

#[test]
fn rows_stored_as_maximum_size_cells_can_be_inserted() {
    let dir = tempfile::TempDir::new().unwrap();
    let db = Database::create(dir.path().join("t.db"), DBConfig::default()).unwrap();
    for len in [1200usize, 1500, 3000] {
        db.execute(&format!("CREATE TABLE t{len} (id BIGINT, s TEXT)")).unwrap();
        for i in 0..40 {
            let s: String = std::iter::repeat('x').take(len + (i % 7) * 40).collect();
            let r = db.execute(&format!("INSERT INTO t{len} VALUES ({i}, '{s}')"));
            assert!(r.is_ok(), "INSERT #{i} of a {len}-character row failed: {}", r.err().map(|e| e.to_string()).unwrap_or_default());
        }
        let n = db.execute(&format!("SELECT id FROM t{len}")).unwrap().into_rows().unwrap().len();
        assert_eq!(n, 40, "table t{len} does not hold the 40 rows inserted");
    }
}
