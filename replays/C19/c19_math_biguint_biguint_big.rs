// replay for obligation C19.cmp_matches_math[BigUInt,BigUInt/big] (harness c19_math_biguint_biguint_big)
// harness-file: c19_types.rs
// failed: cmp_matches_math
// native outcome when recorded: playback build failed
// re-run: /verif/bin/check --replay /verif/replays/C19/c19_math_biguint_biguint_big.rs
#[test]
fn kani_concrete_playback_c19_math_biguint_biguint_big_11297782746166929070() {
    let concrete_vals: Vec<Vec<u8>> = vec![
        // 9223372036854775808ul
        vec![0, 0, 0, 0, 0, 0, 0, 128],
        // 0ul
        vec![0, 0, 0, 0, 0, 0, 0, 0],
    ];
    kani::concrete_playback_run(concrete_vals, c19_math_biguint_biguint_big);
}

#[test]
fn kani_concrete_playback_c19_math_biguint_biguint_big_15340694635487915855() {
    let concrete_vals: Vec<Vec<u8>> = vec![
        // 72057594037927937ul
        vec![1, 0, 0, 0, 0, 0, 0, 1],
        // 72057594037927936ul
        vec![0, 0, 0, 0, 0, 0, 0, 1],
    ];
    kani::concrete_playback_run(concrete_vals, c19_math_biguint_biguint_big);
}

