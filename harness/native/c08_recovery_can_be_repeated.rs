// host: lib.rs
// Native scenario for the C08 obligations: the log is replayed over a data file that already contains what it describes
// (crash inside a checkpoint: pages and header written, log not yet emptied) - open succeeds, the contents are the
// acknowledged ones, and a second open changes nothing; and crash - recover - work - crash again before any checkpoint
// keeps what the first recovery replayed.
use crate::{DBConfig, Database};
use std::path::{Path, PathBuf};

fn ids(db: &Database) -> Vec<i64> {
    let rows = db.execute("SELECT id FROM t").unwrap().into_rows().unwrap();
    let mut v: Vec<i64> = rows.iterrows().map(|r| r[0].as_big_int().unwrap().value()).collect();
    v.sort();
    v
}

fn wal_of(p: &Path) -> PathBuf {
    p.parent().unwrap().join("axmos.log")
}

#[test]
fn log_replayed_over_an_up_to_date_data_file() {
    let dir = tempfile::TempDir::new().unwrap();
    let path = dir.path().join("t.db");
    let db = Database::create(&path, DBConfig::default()).unwrap();
    db.execute("CREATE TABLE t (id BIGINT, v INT)").unwrap();
    db.execute("INSERT INTO t VALUES (1, 10)").unwrap();
    db.flush().unwrap();
    for i in 2..7 {
        db.execute(&format!("INSERT INTO t VALUES ({}, {})", i, i * 10)).unwrap();
    }
    let expected: Vec<i64> = (1..7).collect();
    assert_eq!(ids(&db), expected);
    // the log as a crash inside the coming checkpoint leaves it ...
    let image_dir = tempfile::TempDir::new().unwrap();
    let image = image_dir.path().join("t.db");
    db.pager().write().flush_wal().unwrap();
    std::fs::copy(wal_of(&path), wal_of(&image)).unwrap();
    // ... and the data file as the checkpoint wrote it
    db.flush().unwrap();
    std::fs::copy(&path, &image).unwrap();
    let r = Database::open(&image, DBConfig::default());
    assert!(r.is_ok(), "open fails when the log is replayed over a data file that already has the rows: {:?}", r.err().map(|e| e.to_string()));
    let rec = r.unwrap();
    assert_eq!(ids(&rec), expected, "contents after recovery");
    rec.execute("INSERT INTO t VALUES (7, 70)").unwrap();
    drop(rec);
    let again = Database::open(&image, DBConfig::default()).expect("second open");
    assert_eq!(ids(&again), (1..8).collect::<Vec<i64>>(), "a second open changes the contents");
    drop(again);
    drop(db);
}

fn crash_image(db_path: &Path) -> (tempfile::TempDir, PathBuf) {
    let dir = tempfile::TempDir::new().unwrap();
    let image = dir.path().join(db_path.file_name().unwrap());
    std::fs::copy(db_path, &image).unwrap();
    std::fs::copy(wal_of(db_path), wal_of(&image)).unwrap();
    (dir, image)
}

/// crash, recover, keep working, crash again before any checkpoint: the log the first recovery consumed must be gone,
/// otherwise the second recovery meets the loser's records again - under transaction ids that now belong to new, committed
/// transactions.
fn crash_twice(roll_back: bool) {
    let dir = tempfile::TempDir::new().unwrap();
    let path = dir.path().join("t.db");
    let db = Database::create(&path, DBConfig::default()).unwrap();
    db.execute("CREATE TABLE t (id BIGINT, v INT)").unwrap();
    db.execute("INSERT INTO t VALUES (1, 10)").unwrap();
    db.flush().unwrap();
    db.execute("INSERT INTO t VALUES (2, 20)").unwrap();
    let mut s = db.session().unwrap();
    s.execute("INSERT INTO t VALUES (3, 30)").unwrap();
    s.execute("DELETE FROM t WHERE id = 1").unwrap();
    if roll_back {
        s.abort_transaction().unwrap();
    }
    db.execute("INSERT INTO t VALUES (4, 40)").unwrap();
    let (_d1, first) = crash_image(&path);
    let second_life = Database::open(&first, DBConfig::default()).expect("first recovery");
    assert_eq!(ids(&second_life), vec![1, 2, 4], "after the first recovery");
    second_life.execute("INSERT INTO t VALUES (5, 50)").unwrap();
    second_life.execute("INSERT INTO t VALUES (6, 60)").unwrap();
    let (_d2, second) = crash_image(&first);
    let third_life = Database::open(&second, DBConfig::default()).expect("second recovery");
    let got = ids(&third_life);
    assert_eq!(got, vec![1, 2, 4, 5, 6], "after the second recovery (roll_back = {roll_back})");
    std::mem::forget(s);
}

#[test]
fn crash_twice_with_an_open_transaction() {
    crash_twice(false);
}

#[test]
fn crash_twice_with_a_rolled_back_transaction() {
    crash_twice(true);
}
