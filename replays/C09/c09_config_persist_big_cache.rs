// replay for obligation C09.config_persist[big_cache] (harness c09_config_persist_big_cache)
// harness-file: c09_page.rs
// failed: persist_cache_size
// native outcome when recorded: panicked: thread 'storage::page::__verif_c09_page::kani_concrete_playback_c09_config_persist_big_cache_10524016875531779435' (1814) panicked at /var/tmp/axv-c09-jtz3qqvh/src/crates/axmos-db/src/__verif/c09_page.rs:269:5: | persist_cache_size
// re-run: /verif/bin/check --replay /verif/replays/C09/c09_config_persist_big_cache.rs
#[test]
fn kani_concrete_playback_c09_config_persist_big_cache_10524016875531779435() {
    let concrete_vals: Vec<Vec<u8>> = vec![
        // 16
        vec![16, 0, 0, 0],
        // 18446744073709551615ul
        vec![255, 255, 255, 255, 255, 255, 255, 255],
        // 18446744073709551615ul
        vec![255, 255, 255, 255, 255, 255, 255, 255],
        // 255ul
        vec![255, 0, 0, 0, 0, 0, 0, 0],
        // 255ul
        vec![255, 0, 0, 0, 0, 0, 0, 0],
    ];
    kani::concrete_playback_run(concrete_vals, c09_config_persist_big_cache);
}

