// replay for obligation C16.arith[sub][int_pairs/overflow] (harness c16_arith_sub_overflow)
// harness-file: c16_arith.rs
// failed: attempt to subtract with overflow
// native outcome when recorded: panicked: thread 'types::__verif_c16_arith::kani_concrete_playback_c16_arith_sub_overflow_16171337149869115064' (6955) panicked at crates/axmos-db/src/types/core.rs:165:9: | attempt to subtract with overflow
// re-run: /verif/bin/check --replay /verif/replays/C16/c16_arith_sub_overflow.rs
#[test]
fn kani_concrete_playback_c16_arith_sub_overflow_16171337149869115064() {
    let concrete_vals: Vec<Vec<u8>> = vec![
        // 2147483646
        vec![254, 255, 255, 127],
        // -1879048195
        vec![253, 255, 255, 143],
        // 536870913
        vec![1, 0, 0, 32],
        // 536870914
        vec![2, 0, 0, 32],
        // 4294967294
        vec![254, 255, 255, 255],
        // -3
        vec![253, 255, 255, 255],
        // 4294967294
        vec![254, 255, 255, 255],
        // 4294967293
        vec![253, 255, 255, 255],
        // -1073741826
        vec![254, 255, 255, 191],
        // -4611686018427387907
        vec![253, 255, 255, 255, 255, 255, 255, 191],
        // -9223372034299126782
        vec![2, 28, 84, 152, 0, 0, 0, 128],
        // 1247026176
        vec![0, 28, 84, 74],
        // 0
        vec![0, 0, 0, 0, 0, 0, 0, 0],
        // 1
        vec![1, 0, 0, 0, 0, 0, 0, 0],
        // -1073741825
        vec![255, 255, 255, 191],
        // 9223372035781033984ul
        vec![0, 0, 0, 192, 255, 255, 255, 127],
    ];
    kani::concrete_playback_run(concrete_vals, c16_arith_sub_overflow);
}

#[test]
fn kani_concrete_playback_c16_arith_sub_overflow_7034792904304036027() {
    let concrete_vals: Vec<Vec<u8>> = vec![
        // 2147483646
        vec![254, 255, 255, 127],
        // -1879048195
        vec![253, 255, 255, 143],
        // 536870913
        vec![1, 0, 0, 32],
        // 536870914
        vec![2, 0, 0, 32],
        // 4294967294
        vec![254, 255, 255, 255],
        // -3
        vec![253, 255, 255, 255],
        // 1789569725
        vec![189, 170, 170, 106],
        // 2863311613
        vec![253, 170, 170, 170],
    ];
    kani::concrete_playback_run(concrete_vals, c16_arith_sub_overflow);
}

