// replay for obligation C19.cmp_matches_math[BigInt,BigInt/big] (harness c19_find_math_bigint_bigint)
// harness-file: c19_types.rs
// failed: cmp_matches_math
// native outcome when recorded: panicked: thread 'types::__verif_c19_types::kani_concrete_playback_c19_find_math_bigint_bigint_14807484729580066886' (14027) panicked at /var/tmp/axv-c19-6fdwgloi/src/crates/axmos-db/src/__verif/c19_types.rs:419:1: | cmp_matches_math
// re-run: /verif/bin/check --replay /verif/replays/C19/c19_find_math_bigint_bigint.rs
#[test]
fn kani_concrete_playback_c19_find_math_bigint_bigint_14807484729580066886() {
    let concrete_vals: Vec<Vec<u8>> = vec![
        // 18014398509481986
        vec![2, 0, 0, 0, 0, 0, 64, 0],
        // 18014398509481983
        vec![255, 255, 255, 255, 255, 255, 63, 0],
    ];
    kani::concrete_playback_run(concrete_vals, c19_find_math_bigint_bigint);
}

#[test]
fn kani_concrete_playback_c19_find_math_bigint_bigint_3242703330871532688() {
    let concrete_vals: Vec<Vec<u8>> = vec![
        // 36028797018963988
        vec![20, 0, 0, 0, 0, 0, 128, 0],
        // 36028797018963991
        vec![23, 0, 0, 0, 0, 0, 128, 0],
    ];
    kani::concrete_playback_run(concrete_vals, c19_find_math_bigint_bigint);
}

