// Kani harnesses (child module of crates/axmos-db/src/storage/page.rs).  See /verif/HARNESS_GUIDE.md
// C09 (close/reopen): aborted-transaction bitmap laws, header <-> bytes round trips, config -> header persistence
// (shared with C12); C13: bitmap clearing never goes above the horizon.
// @limits timeout_s=900
#![allow(unused_imports, dead_code, clippy::all)]
use super::*;

/// arbitrary page-zero header: every field symbolic, 1024 symbolic bitmap bytes
fn any_pzh() -> PageZeroHeader {
    PageZeroHeader {
        magic: kani::any(),
        page_number: kani::any(),
        first_free_page: kani::any(),
        last_free_page: kani::any(),
        total_pages: kani::any(),
        last_created_transaction: kani::any(),
        last_committed_transaction: kani::any(),
        last_stored_object: kani::any(),
        page_size: kani::any(),
        free_pages: kani::any(),
        padding: kani::any(),
        cache_size: kani::any(),
        min_keys: kani::any(),
        num_siblings_per_side: kani::any(),
        aborted_txs_bitmap: kani::any(),
    }
}
const CAP: u64 = (ABORTED_BITMAP_SIZE * 8) as u64;
/// reference model of the persisted set: id t is a member iff bit t%8 of byte t/8 is set (ids >= CAP have no bit)
fn model_bit(bm: &[u8; ABORTED_BITMAP_SIZE], t: u64) -> bool {
    t < CAP && (bm[(t / 8) as usize] >> (t % 8)) & 1 == 1
}
fn scalars_eq(a: &PageZeroHeader, b: &PageZeroHeader) -> bool {
    a.magic == b.magic
        && a.page_number == b.page_number
        && a.first_free_page == b.first_free_page
        && a.last_free_page == b.last_free_page
        && a.total_pages == b.total_pages
        && a.last_created_transaction == b.last_created_transaction
        && a.last_committed_transaction == b.last_committed_transaction
        && a.last_stored_object == b.last_stored_object
        && a.page_size == b.page_size
        && a.free_pages == b.free_pages
        && a.padding == b.padding
        && a.cache_size == b.cache_size
        && a.min_keys == b.min_keys
        && a.num_siblings_per_side == b.num_siblings_per_side
}

// ---- C09.aborted_bitmap: mark ---------------------------------------------------------------------------------
fn mark_laws(t: u64, exact: bool) {
    let mut h = any_pzh();
    let old = h;
    let u: u64 = kani::any(); // probe id
    let j: usize = kani::any(); // probe byte
    kani::assume(j < ABORTED_BITMAP_SIZE);
    kani::cover!(true, "reach");
    assert!(old.is_transaction_aborted(u) == model_bit(&old.aborted_txs_bitmap, u), "is_aborted_reads_bit");
    h.mark_transaction_aborted(t);
    assert!(h.is_transaction_aborted(t), "marked_is_aborted");
    if u != t {
        assert!(h.is_transaction_aborted(u) == old.is_transaction_aborted(u), "mark_other_unchanged");
    }
    if exact {
        let expect = if j as u64 == t / 8 { old.aborted_txs_bitmap[j] | (1u8 << (t % 8)) } else { old.aborted_txs_bitmap[j] };
        assert!(h.aborted_txs_bitmap[j] == expect, "mark_bitmap_exact");
    }
    assert!(scalars_eq(&h, &old), "mark_header_fields_unchanged");
}
// @obl harness=c09_bitmap_mark_tracked id=C09.aborted_bitmap[mark/tracked] tier=quick funcs="PageZeroHeader::mark_transaction_aborted,PageZeroHeader::is_transaction_aborted" bounds="arbitrary header (1024 symbolic bitmap bytes), all t < 8192, all probe ids u: u64, all probe bytes" assume="t < MAX_TRACKED_ABORTED_TXS" solver=z3
#[kani::proof]
#[kani::unwind(2)]
#[kani::solver(z3)]
fn c09_bitmap_mark_tracked() {
    let t: u64 = kani::any();
    kani::assume(t < CAP);
    mark_laws(t, true);
}
// @obl harness=c09_bitmap_mark_untracked id=C09.aborted_bitmap[mark/untracked] tier=quick funcs="PageZeroHeader::mark_transaction_aborted,PageZeroHeader::is_transaction_aborted" bounds="arbitrary header, all t >= 8192, all probe ids" assume="t >= MAX_TRACKED_ABORTED_TXS (region where the pinned tree drops the id)" solver=z3
#[kani::proof]
#[kani::unwind(2)]
#[kani::solver(z3)]
fn c09_bitmap_mark_untracked() {
    let t: u64 = kani::any();
    kani::assume(t >= CAP);
    mark_laws(t, false);
}

// ---- C09.aborted_bitmap / C13.bitmap_clear: clear_aborted_up_to ------------------------------------------------
/// expected byte j after clearing every id <= m
fn cleared_byte(old: u8, j: usize, m: u64) -> u8 {
    let lo = (j as u64) * 8;
    if m >= lo + 7 {
        0
    } else if m < lo {
        old
    } else {
        // ids lo..=m cleared: low (m-lo+1) bits, 1..=7 of them
        old & !(((1u16 << (m - lo + 1)) - 1) as u8)
    }
}
fn clear_laws(m: u64) {
    let mut h = any_pzh();
    let old = h;
    let u: u64 = kani::any();
    let j: usize = kani::any();
    kani::assume(j < ABORTED_BITMAP_SIZE);
    kani::cover!(true, "reach");
    h.clear_aborted_up_to(m);
    if u <= m {
        assert!(!h.is_transaction_aborted(u), "clear_removes_ids_le_max");
    } else {
        assert!(h.is_transaction_aborted(u) == old.is_transaction_aborted(u), "clear_keeps_ids_gt_max");
    }
    assert!(h.aborted_txs_bitmap[j] == cleared_byte(old.aborted_txs_bitmap[j], j, m), "clear_bitmap_exact");
    assert!(scalars_eq(&h, &old), "clear_header_fields_unchanged");
}
fn clear_horizon_law(m: u64) {
    let mut h = any_pzh();
    let old = h;
    let u: u64 = kani::any();
    kani::assume(u > m);
    kani::cover!(true, "reach");
    h.clear_aborted_up_to(m);
    assert!(h.is_transaction_aborted(u) == old.is_transaction_aborted(u), "clear_never_above_horizon");
}
// @obl harness=c09_bitmap_clear_small id=C09.aborted_bitmap[clear/m_lt_16] tier=quick funcs="PageZeroHeader::clear_aborted_up_to,PageZeroHeader::is_transaction_aborted" bounds="arbitrary header, all m < 16 (loop runs m+1 times; two bitmap bytes incl. the byte boundary), all probe ids u: u64, all probe bytes" unwind=18 solver=z3
#[kani::proof]
#[kani::unwind(18)]
#[kani::solver(z3)]
fn c09_bitmap_clear_small() {
    let m: u64 = kani::any();
    kani::assume(m < 16);
    clear_laws(m);
}
// The loop runs min(m, 8191)+1 times and its counter (a RangeInclusive) becomes symbolic after the first merge, so a
// symbolic m costs one symbolic-index array write per iteration: all m cannot be unwound (m < 64 already takes
// 15 min).  The capacity boundary is covered with a concrete m instead (8192 iterations, concrete indices).
// @obl harness=c09_bitmap_clear_max id=C09.aborted_bitmap[clear/max] tier=thorough funcs="PageZeroHeader::clear_aborted_up_to,PageZeroHeader::is_transaction_aborted" bounds="arbitrary header, m = u64::MAX (loop fully unwound: 8192 iterations), all probe ids, all probe bytes" unwind=8195
#[kani::proof]
#[kani::unwind(8195)]
fn c09_bitmap_clear_max() {
    clear_laws(u64::MAX);
}
// @obl harness=c13_bitmap_clear_small id=C13.bitmap_clear[h_lt_64] tier=quick funcs="PageZeroHeader::clear_aborted_up_to" bounds="arbitrary header, all horizons h < 64, all probe ids u > h" unwind=66 solver=z3
#[kani::proof]
#[kani::unwind(66)]
#[kani::solver(z3)]
fn c13_bitmap_clear_small() {
    let m: u64 = kani::any();
    kani::assume(m < 64);
    clear_horizon_law(m);
}

// ---- C09.header_roundtrip ---------------------------------------------------------------------------------------
// @obl harness=c09_rt_page_zero id=C09.header_roundtrip[PageZeroHeader] tier=quick funcs="<PageZeroHeader as AsRef<[u8]>>::as_ref,<PageZeroHeader as From<&[u8]>>::from" bounds="every field symbolic (Option fields: None or Some(any)), 1024 symbolic bitmap bytes compared at a symbolic index"
#[kani::proof]
#[kani::unwind(2)]
fn c09_rt_page_zero() {
    let h = any_pzh();
    let mut disk = [0u8; PAGE_ZERO_HEADER_SIZE];
    disk.copy_from_slice(AsRef::<[u8]>::as_ref(&h));
    let g = PageZeroHeader::from(&disk[..]);
    let j: usize = kani::any();
    kani::assume(j < ABORTED_BITMAP_SIZE);
    kani::cover!(true, "reach");
    assert!(AsRef::<[u8]>::as_ref(&h).len() == PAGE_ZERO_HEADER_SIZE, "rt_len");
    assert!(g.magic == h.magic, "rt_magic");
    assert!(g.page_number == h.page_number, "rt_page_number");
    assert!(g.first_free_page == h.first_free_page, "rt_first_free_page");
    assert!(g.last_free_page == h.last_free_page, "rt_last_free_page");
    assert!(g.total_pages == h.total_pages, "rt_total_pages");
    assert!(g.last_created_transaction == h.last_created_transaction, "rt_last_created_transaction");
    assert!(g.last_committed_transaction == h.last_committed_transaction, "rt_last_committed_transaction");
    assert!(g.last_stored_object == h.last_stored_object, "rt_last_stored_object");
    assert!(g.page_size == h.page_size, "rt_page_size");
    assert!(g.free_pages == h.free_pages, "rt_free_pages");
    assert!(g.padding == h.padding, "rt_padding");
    assert!(g.cache_size == h.cache_size, "rt_cache_size");
    assert!(g.min_keys == h.min_keys, "rt_min_keys");
    assert!(g.num_siblings_per_side == h.num_siblings_per_side, "rt_num_siblings");
    assert!(g.aborted_txs_bitmap[j] == h.aborted_txs_bitmap[j], "rt_bitmap");
}
// The path the pager really uses (alloc_page_zero / sync_header / load_page_zero): header stored in place at the
// start of a MemBlock, whole block written as bytes, bytes read into a fresh MemBlock, header copied out.
// @obl harness=c09_rt_page_zero_block id=C09.header_roundtrip[PageZeroBlock] tier=quick funcs="MemBlock::new,MemBlock::metadata_mut,MemBlock::as_ref,MemBlock::as_mut,MemBlock::metadata" bounds="every header field symbolic; block of header size + 16 data bytes"
#[kani::proof]
#[kani::unwind(2)]
fn c09_rt_page_zero_block() {
    let h = any_pzh();
    const SZ: usize = PAGE_ZERO_HEADER_SIZE + 16;
    let mut a: MemBlock<PageZeroHeader> = MemBlock::new(SZ);
    *a.metadata_mut() = h;
    let mut disk = [0u8; SZ];
    disk.copy_from_slice(AsRef::<[u8]>::as_ref(&a));
    let mut b: MemBlock<PageZeroHeader> = MemBlock::new(SZ);
    AsMut::<[u8]>::as_mut(&mut b).copy_from_slice(&disk);
    let g: PageZeroHeader = *b.metadata();
    let j: usize = kani::any();
    kani::assume(j < ABORTED_BITMAP_SIZE);
    kani::cover!(true, "reach");
    assert!(scalars_eq(&g, &h), "block_rt_scalar_fields");
    assert!(g.aborted_txs_bitmap[j] == h.aborted_txs_bitmap[j], "block_rt_bitmap");
    std::mem::forget(a);
    std::mem::forget(b);
}
// @obl harness=c09_rt_btree_header id=C09.header_roundtrip[BtreePageHeader] tier=quick funcs="<BtreePageHeader as AsRef<[u8]>>::as_ref,<BtreePageHeader as From<&[u8]>>::from" bounds="every field symbolic"
#[kani::proof]
#[kani::unwind(2)]
fn c09_rt_btree_header() {
    let h = BtreePageHeader {
        page_number: kani::any(),
        right_child: kani::any(),
        next_sibling: kani::any(),
        previous_sibling: kani::any(),
        free_space_ptr: kani::any(),
        page_size: kani::any(),
        free_space: kani::any(),
        padding: kani::any(),
        num_slots: kani::any(),
    };
    let mut disk = [0u8; BTREE_PAGE_HEADER_SIZE];
    disk.copy_from_slice(AsRef::<[u8]>::as_ref(&h));
    let g = BtreePageHeader::from(&disk[..]);
    kani::cover!(true, "reach");
    assert!(g.page_number == h.page_number, "rt_page_number");
    assert!(g.right_child == h.right_child, "rt_right_child");
    assert!(g.next_sibling == h.next_sibling, "rt_next_sibling");
    assert!(g.previous_sibling == h.previous_sibling, "rt_previous_sibling");
    assert!(g.free_space_ptr == h.free_space_ptr, "rt_free_space_ptr");
    assert!(g.page_size == h.page_size, "rt_page_size");
    assert!(g.free_space == h.free_space, "rt_free_space");
    assert!(g.padding == h.padding, "rt_padding");
    assert!(g.num_slots == h.num_slots, "rt_num_slots");
}
// @obl harness=c09_rt_overflow_header id=C09.header_roundtrip[OverflowPageHeader] tier=quick funcs="<OverflowPageHeader as AsRef<[u8]>>::as_ref,<OverflowPageHeader as From<&[u8]>>::from" bounds="every field symbolic"
#[kani::proof]
#[kani::unwind(2)]
fn c09_rt_overflow_header() {
    let h = OverflowPageHeader { page_number: kani::any(), next: kani::any(), num_bytes: kani::any(), padding: kani::any() };
    let mut disk = [0u8; OVERFLOW_HEADER_SIZE];
    disk.copy_from_slice(AsRef::<[u8]>::as_ref(&h));
    let g = OverflowPageHeader::from(&disk[..]);
    kani::cover!(true, "reach");
    assert!(g.page_number == h.page_number, "rt_page_number");
    assert!(g.next == h.next, "rt_next");
    assert!(g.num_bytes == h.num_bytes, "rt_num_bytes");
    assert!(g.padding == h.padding, "rt_padding");
}

// ---- C09.config_persist (also C12) ------------------------------------------------------------------------------
/// documented ranges: page size a power of two in 4..64 KiB, any cache size, min keys >= 3, siblings >= 1
fn any_documented_config() -> DBConfig {
    let sh: u32 = kani::any();
    kani::assume(sh >= 12 && sh <= 16);
    let c = DBConfig {
        page_size: 1usize << sh,
        cache_size: kani::any(),
        pool_size: kani::any(),
        num_siblings_per_side: kani::any(),
        min_keys_per_page: kani::any(),
    };
    kani::assume(c.min_keys_per_page >= 3);
    kani::assume(c.num_siblings_per_side >= 1);
    c
}
fn persist_laws(c: DBConfig, via_from: bool) {
    let h = if via_from { PageZeroHeader::from(c) } else { PageZeroHeader::from_config(c) };
    assert!(h.page_size as usize == c.page_size, "persist_page_size");
    assert!(h.cache_size as usize == c.cache_size, "persist_cache_size");
    assert!(h.min_keys as usize == c.min_keys_per_page, "persist_min_keys");
    assert!(h.num_siblings_per_side as usize == c.num_siblings_per_side, "persist_num_siblings");
    assert!(h.padding == 0 && h.magic == MAGIC && h.page_number == PAGE_ZERO, "persist_fresh_header_shape");
}
// @obl harness=c09_config_persist_fits id=C09.config_persist[fits] also=C12 tier=quick funcs="PageZeroHeader::from_config,PageZeroHeader::new,<PageZeroHeader as From<DBConfig>>::from" bounds="page size 2^12..2^16, cache_size <= 65535, 3 <= min_keys <= 255, 1 <= siblings <= 255, any pool size" assume="documented ranges AND values fit the header field widths (complement of the three truncation regions)"
#[kani::proof]
#[kani::unwind(2)]
fn c09_config_persist_fits() {
    let c = any_documented_config();
    kani::assume(c.cache_size <= u16::MAX as usize);
    kani::assume(c.min_keys_per_page <= u8::MAX as usize);
    kani::assume(c.num_siblings_per_side <= u8::MAX as usize);
    let via_from: bool = kani::any();
    kani::cover!(true, "reach");
    persist_laws(c, via_from);
}
// @obl harness=c09_config_persist_big_cache id=C09.config_persist[big_cache] also=C12 tier=quick funcs="PageZeroHeader::from_config,PageZeroHeader::new" bounds="documented ranges, cache_size > 65535, min_keys and siblings <= 255" assume="cache_size > u16::MAX (region where the pinned tree truncates)"
#[kani::proof]
#[kani::unwind(2)]
fn c09_config_persist_big_cache() {
    let c = any_documented_config();
    kani::assume(c.cache_size > u16::MAX as usize);
    kani::assume(c.min_keys_per_page <= u8::MAX as usize);
    kani::assume(c.num_siblings_per_side <= u8::MAX as usize);
    kani::cover!(true, "reach");
    persist_laws(c, false);
}
// @obl harness=c09_config_persist_big_min_keys id=C09.config_persist[big_min_keys] also=C12 tier=quick funcs="PageZeroHeader::from_config,PageZeroHeader::new" bounds="documented ranges, min_keys > 255, cache_size <= 65535, siblings <= 255" assume="min_keys_per_page > u8::MAX (region where the pinned tree truncates)"
#[kani::proof]
#[kani::unwind(2)]
fn c09_config_persist_big_min_keys() {
    let c = any_documented_config();
    kani::assume(c.cache_size <= u16::MAX as usize);
    kani::assume(c.min_keys_per_page > u8::MAX as usize);
    kani::assume(c.num_siblings_per_side <= u8::MAX as usize);
    kani::cover!(true, "reach");
    persist_laws(c, false);
}
// @obl harness=c09_config_persist_big_siblings id=C09.config_persist[big_siblings] also=C12 tier=quick funcs="PageZeroHeader::from_config,PageZeroHeader::new" bounds="documented ranges, siblings > 255, cache_size <= 65535, min_keys <= 255" assume="num_siblings_per_side > u8::MAX (region where the pinned tree truncates)"
#[kani::proof]
#[kani::unwind(2)]
fn c09_config_persist_big_siblings() {
    let c = any_documented_config();
    kani::assume(c.cache_size <= u16::MAX as usize);
    kani::assume(c.min_keys_per_page <= u8::MAX as usize);
    kani::assume(c.num_siblings_per_side > u8::MAX as usize);
    kani::cover!(true, "reach");
    persist_laws(c, false);
}


// ---- reload of the aborted set at open: concrete bitmap, the real 8192-iteration scan ---------------------------
// (symbolic data would make every iteration a conditional Vec push; with a concrete bitmap CBMC simply executes the loop)
// @obl harness=c09_reload_concrete id=C09.aborted_reload[concrete_ids_0,7,8,1023,4095,8191] also=C02,C04 tier=quick funcs="PageZeroHeader::get_aborted_transactions,PageZeroHeader::mark_transaction_aborted" bounds="zeroed header, ids {0,7,8,1023,4095,8191} marked (first/last bit of a byte, first/last byte): the scan returns exactly these, ascending" unwind=8195 native=c09_aborted_reload
#[kani::proof]
#[kani::unwind(8195)]
fn c09_reload_concrete() {
    let mut h: PageZeroHeader = unsafe { std::mem::zeroed() };
    h.mark_transaction_aborted(0);
    h.mark_transaction_aborted(7);
    h.mark_transaction_aborted(8);
    h.mark_transaction_aborted(1023);
    h.mark_transaction_aborted(4095);
    h.mark_transaction_aborted(8191);
    let got = h.get_aborted_transactions();
    kani::cover!(true, "reach");
    let ok = got.len() == 6 && got[0] == 0 && got[1] == 7 && got[2] == 8 && got[3] == 1023 && got[4] == 4095 && got[5] == 8191;
    assert!(ok, "reload_scan_returns_exactly_the_marked_ids");
    std::mem::forget(got);
}
