// host: lib.rs
// Native scenario for C06.join_associativity_uses_both_conditions: a three-table inner join whose last ON clause also
// relates the third table to the first one gives the hand-computed answer, whatever join order the optimizer picks.
// (Table shapes, sizes and creation order follow the repository's own join tests: other shapes run into an unrelated
// catalog defect - rkyv schema blobs that fail to deserialize - see DESIGN.md 9.3.)
use crate::{DBConfig, Database};

#[test]
fn three_way_join_keeps_every_conjunct() {
    let dir = tempfile::TempDir::new().unwrap();
    let db = Database::create(dir.path().join("t.db"), DBConfig::default()).unwrap();
    let t: Vec<(i64, i64)> = (0..20).map(|i| (i, 2 * i)).collect();
    let u: Vec<(i64, i64, i64)> = (0..10).map(|i| (i, i % 4, 3 * i)).collect();
    let w: Vec<(i64, i64, i64)> = (0..6).map(|i| (i, i % 3, 7 * i)).collect();
    db.execute("CREATE TABLE t (id BIGINT, a INT, b INT, c TEXT)").unwrap();
    for (id, a) in &t {
        db.execute(&format!("INSERT INTO t VALUES ({}, {}, {}, 'r{}')", id, a, id * 10, id)).unwrap();
    }
    db.execute("CREATE TABLE u (id BIGINT, tid BIGINT, v INT)").unwrap();
    db.execute("CREATE TABLE w (id BIGINT, uid BIGINT, z INT)").unwrap();
    for (id, tid, v) in &u {
        db.execute(&format!("INSERT INTO u VALUES ({}, {}, {})", id, tid, v)).unwrap();
    }
    for (id, uid, z) in &w {
        db.execute(&format!("INSERT INTO w VALUES ({}, {}, {})", id, uid, z)).unwrap();
    }
    let mut want = Vec::new();
    for (a_id, a_a) in &t {
        for (b_id, b_tid, _) in &u {
            for (c_id, c_uid, c_z) in &w {
                if a_id == b_tid && b_id == c_uid && c_z > a_a {
                    want.push((*a_id, *b_id, *c_id));
                }
            }
        }
    }
    want.sort();
    let rows = db
        .execute("SELECT t.id, u.id, w.id FROM t JOIN u ON t.id = u.tid JOIN w ON u.id = w.uid AND w.z > t.a")
        .expect("three-way join failed")
        .into_rows()
        .unwrap();
    let mut got: Vec<(i64, i64, i64)> = rows
        .iterrows()
        .map(|r| (r[0].as_big_int().unwrap().value(), r[1].as_big_int().unwrap().value(), r[2].as_big_int().unwrap().value()))
        .collect();
    got.sort();
    assert_eq!(got, want, "three-way join result differs from the query as written");
}
