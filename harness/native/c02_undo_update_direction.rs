// host: lib.rs
// Native scenario for C02.undo_restores_before_image: crash inside a checkpoint (dirty pages + page zero on disk, WAL not
// yet truncated) with an open transaction that executed an UPDATE; after recovery the row must show the before image.
use crate::{DBConfig, Database};

fn rows(db: &Database) -> Vec<(i64, i32)> {
    let r = db.execute("SELECT id, v FROM t").unwrap();
    let rr = r.into_rows().unwrap();
    let mut out: Vec<(i64, i32)> = rr
        .iterrows()
        .map(|row| (row[0].as_big_int().unwrap().value(), row[1].as_int().unwrap().value()))
        .collect();
    out.sort();
    out
}

#[test]
fn update_of_open_transaction_is_undone_by_recovery() {
    let d1 = tempfile::TempDir::new().unwrap();
    let d2 = tempfile::TempDir::new().unwrap();
    let p1 = d1.path().join("test.db");
    {
        let db = Database::create(&p1, DBConfig::default()).unwrap();
        db.execute("CREATE TABLE t (id BIGINT, v INT)").unwrap();
        db.execute("INSERT INTO t VALUES (1, 10)").unwrap();
        db.execute("INSERT INTO t VALUES (2, 20)").unwrap();
    } // clean shutdown
    let wal_name = std::fs::read_dir(d1.path())
        .unwrap()
        .filter_map(|e| e.ok())
        .map(|e| e.file_name())
        .find(|n| n.to_string_lossy().ends_with(".log"))
        .expect("wal file next to the database file");
    {
        let db = Database::open(&p1, DBConfig::default()).unwrap();
        let mut s = db.session().unwrap();
        s.execute("UPDATE t SET v = 21 WHERE id = 2").unwrap(); // never committed
        db.execute("INSERT INTO t VALUES (5, 50)").unwrap(); // a later transaction commits
        // crash image as Pager::flush leaves it between "pages + page zero written" and "WAL truncated"
        db.pager().write().flush_wal().unwrap();
        std::fs::copy(d1.path().join(&wal_name), d2.path().join(&wal_name)).unwrap();
        db.flush().unwrap();
        std::fs::copy(&p1, d2.path().join("test.db")).unwrap();
        std::mem::forget(s);
        std::mem::forget(db);
    }
    let db = Database::open(d2.path().join("test.db"), DBConfig::default()).unwrap();
    assert_eq!(rows(&db), vec![(1, 10), (2, 20), (5, 50)], "the UPDATE of a transaction that never committed survived recovery");
}
