// host: lib.rs
// Native scenario for C19.composite_key_cursors: a two-column unique index with ties on the first column must find
// every stored (a, b) again (duplicates rejected) whatever the arrival order.
use crate::{DBConfig, Database};

#[test]
fn composite_unique_index_recognises_stored_keys() {
    let dir = tempfile::TempDir::new().unwrap();
    let db = Database::create(dir.path().join("t.db"), DBConfig::default()).unwrap();
    db.execute("CREATE TABLE t (id BIGINT, a BIGINT, b BIGINT)").unwrap();
    db.execute("CREATE UNIQUE INDEX idx_ab ON t(a, b)").unwrap();
    let rows = [(7, 30), (7, 10), (7, 50), (7, 20), (7, 40), (3, 5), (7, 5), (9, 1), (7, 60), (7, 0)];
    for (i, (a, b)) in rows.iter().enumerate() {
        db.execute(&format!("INSERT INTO t VALUES ({}, {}, {})", i, a, b)).unwrap();
    }
    let mut accepted = Vec::new();
    for (i, (a, b)) in rows.iter().enumerate() {
        if db.execute(&format!("INSERT INTO t VALUES ({}, {}, {})", 100 + i, a, b)).is_ok() {
            accepted.push((*a, *b));
        }
    }
    assert!(accepted.is_empty(), "duplicates {:?} accepted under UNIQUE INDEX (a, b)", accepted);
}
