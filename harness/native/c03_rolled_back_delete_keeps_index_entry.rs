// host: lib.rs
// Native scenario for C03.dml_never_removes_physically: after a rolled-back DELETE the row is back AND its unique key
// is still protected / still found through the index.
use crate::{DBConfig, Database};

#[test]
fn unique_key_still_protected_after_rolled_back_delete() {
    let dir = tempfile::TempDir::new().unwrap();
    let db = Database::create(dir.path().join("t.db"), DBConfig::default()).unwrap();
    db.execute("CREATE TABLE t (id BIGINT, code BIGINT)").unwrap();
    db.execute("CREATE UNIQUE INDEX idx_code ON t(code)").unwrap();
    db.execute("INSERT INTO t VALUES (1, 100)").unwrap();
    db.execute("INSERT INTO t VALUES (2, 200)").unwrap();
    {
        let mut s = db.session().unwrap();
        s.execute("DELETE FROM t WHERE id = 2").unwrap();
        s.abort_transaction().unwrap();
        std::mem::forget(s);
    }
    let n = db.execute("SELECT COUNT(*) FROM t").unwrap().into_rows().unwrap().first().unwrap()[0].as_big_int().unwrap().value();
    assert_eq!(n, 2, "rolled-back DELETE is not back");
    let dup = db.execute("INSERT INTO t VALUES (3, 200)");
    assert!(dup.is_err(), "unique key 200 accepted twice after a rolled-back DELETE (index entry physically removed)");
}
