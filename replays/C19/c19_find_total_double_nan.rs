// replay for obligation C19.ord_total[Double/NaN] (harness c19_find_total_double_nan)
// harness-file: c19_types.rs
// failed: ord_total
// native outcome when recorded: panicked: thread 'types::__verif_c19_types::kani_concrete_playback_c19_find_total_double_nan_8358748376937000900' (14037) panicked at /var/tmp/axv-c19-6fdwgloi/src/crates/axmos-db/src/__verif/c19_types.rs:411:1: | ord_total
// re-run: /verif/bin/check --replay /verif/replays/C19/c19_find_total_double_nan.rs
#[test]
fn kani_concrete_playback_c19_find_total_double_nan_8358748376937000900() {
    let concrete_vals: Vec<Vec<u8>> = vec![
        // 0
        vec![0, 0, 0, 0, 0, 0, 0, 0],
        // +NaN
        vec![0, 0, 0, 0, 0, 0, 248, 127],
    ];
    kani::concrete_playback_run(concrete_vals, c19_find_total_double_nan);
}

