// host: lib.rs
// Native scenario for C16.eval_arms_do_not_panic: a HAVING clause with an aggregate yields rows or an error; the worker
// thread must not die (a dead worker surfaces as "Task channel closed unexpectedly").
use crate::{DBConfig, Database};

#[test]
fn having_with_aggregate_does_not_kill_the_worker() {
    let dir = tempfile::TempDir::new().unwrap();
    let db = Database::create(dir.path().join("t.db"), DBConfig::default()).unwrap();
    db.execute("CREATE TABLE t (id BIGINT, v INT)").unwrap();
    for (i, v) in [(1, 10), (2, 10), (3, 20)] {
        db.execute(&format!("INSERT INTO t VALUES ({}, {})", i, v)).unwrap();
    }
    let r = std::panic::catch_unwind(std::panic::AssertUnwindSafe(|| db.execute("SELECT v, COUNT(*) FROM t GROUP BY v HAVING COUNT(*) > 1").map(|_| ())));
    match r {
        Err(_) => panic!("the statement panicked in the caller"),
        Ok(Err(e)) => {
            let m = format!("{}", e);
            assert!(!m.contains("channel closed") && !m.contains("panicked"), "worker died: {}", m);
        }
        Ok(Ok(())) => {}
    }
}

#[test]
fn subquery_expressions_do_not_kill_the_worker() {
    let dir = tempfile::TempDir::new().unwrap();
    let db = Database::create(dir.path().join("t.db"), DBConfig::default()).unwrap();
    db.execute("CREATE TABLE t (id BIGINT, v INT)").unwrap();
    db.execute("CREATE TABLE e (id BIGINT, v INT)").unwrap();
    db.execute("INSERT INTO t VALUES (1, 10)").unwrap();
    db.execute("INSERT INTO e VALUES (1, 10)").unwrap();
    for q in ["SELECT * FROM t WHERE EXISTS (SELECT 1 FROM e)", "SELECT * FROM t WHERE v IN (SELECT v FROM e)", "SELECT (SELECT 1) FROM t",
              "SELECT * FROM t WHERE NOT EXISTS (SELECT 1 FROM e)", "SELECT * FROM t WHERE v NOT IN (SELECT v FROM e)"] {
        let r = std::panic::catch_unwind(std::panic::AssertUnwindSafe(|| db.execute(q).map(|_| ())));
        match r {
            Err(_) => panic!("`{q}` panicked in the caller"),
            Ok(Err(e)) => {
                let m = format!("{}", e);
                assert!(!m.contains("channel closed") && !m.contains("panicked"), "`{q}` killed the worker: {m}");
            }
            Ok(Ok(())) => {}
        }
    }
    assert!(db.execute("SELECT * FROM t").is_ok(), "the database is unusable after the subquery statements");
}
