"""mirsmt: a small symbolic executor for rustc MIR (text form, -Zunpretty=mir) producing SMT-LIB2 terms.

Deliberately NOT a general Rust verifier.  Supported subset: integer/bool locals, tuples, structs and enums through
typed field projections (types come from the MIR projection annotations), references as aliases of places, switchInt,
assert, checked/wrapping arithmetic on bit-vectors of the declared width, integer casts, calls.  Calls are inlined when
the obligation asks for it, modelled when they are in the model table (Try::branch, from_residual, HashSet::contains,
Option/Result helpers ...) and otherwise left *uninterpreted*: fresh result, trace event, and every place reachable
through a `&mut` argument havocked.  Anything else raises Unsupported -> the obligation is inconclusive (never skipped).
"""
import re, itertools, copy


class Unsupported(Exception):
    pass


INT_W = {"u8": 8, "u16": 16, "u32": 32, "u64": 64, "u128": 128, "usize": 64,
         "i8": 8, "i16": 16, "i32": 32, "i64": 64, "i128": 128, "isize": 64, "char": 32}
SIGNED = {"i8", "i16", "i32", "i64", "i128", "isize"}


def norm_ty(t):
    return t.strip()


def is_scalar(t):
    t = norm_ty(t)
    return t in INT_W or t == "bool" or t == "()" or t == "char"


def sort_of(t):
    t = norm_ty(t)
    if t == "bool":
        return "Bool"
    if t in INT_W:
        return f"(_ BitVec {INT_W[t]})"
    if t == "char":
        return "(_ BitVec 32)"
    return None


def bvconst(v, w):
    return f"(_ bv{v % (1 << w)} {w})"


CONST_RE = re.compile(r"^\(_ bv(\d+) (\d+)\)$")


def const_of(term):
    """python value of a constant term, else None"""
    if term == "true":
        return True
    if term == "false":
        return False
    m = CONST_RE.match(term)
    if m:
        return int(m.group(1))
    return None


# ------------------------------------------------------------------------------------------------------------------
# values
# ------------------------------------------------------------------------------------------------------------------
class Cell:
    __slots__ = ("val", "len_sym")

    def __init__(self, val=None):
        self.val = val
        self.len_sym = None


class Leaf:
    __slots__ = ("term", "ty")

    def __init__(self, term, ty):
        self.term, self.ty = term, ty

    def __repr__(self):
        return f"Leaf({self.term}:{self.ty})"


class Unit:
    def __repr__(self):
        return "()"


class Panic:
    """returned by a call model: the modelled call panics on this path (index out of bounds, unwrap of None ...)"""

    def __init__(self, msg):
        self.msg = msg


class Ref:
    __slots__ = ("cell", "mut")

    def __init__(self, cell, mut=False):
        self.cell, self.mut = cell, mut

    def __repr__(self):
        return f"Ref({self.cell.val!r})"


class Agg:
    """struct / tuple / enum value, lazily materialised.  name = symbolic root name (None if fully constructed)."""

    def __init__(self, ctx, name, ty):
        self.ctx, self.name, self.ty = ctx, name, ty
        self.fields = {}   # key -> Cell          (struct/tuple fields)
        self.variants = {}  # variant name -> Cell(Agg)
        self.disc = None   # Leaf (bv64) for enums

    def field_cell(self, key, ty):
        if key not in self.fields:
            if self.name is None:
                raise Unsupported(f"read of unset field {key} of constructed {self.ty}")
            self.fields[key] = Cell(self.ctx.sym(f"{self.name}.{key}", ty))
        return self.fields[key]

    def variant_cell(self, vname):
        if vname not in self.variants:
            nm = f"{self.name}@{vname}" if self.name is not None else None
            a = Agg(self.ctx, nm if nm is not None else f"?{self.ctx.fresh('v')}@{vname}", f"{self.ty}@{vname}")
            self.variants[vname] = Cell(a)
        return self.variants[vname]

    def get_disc(self):
        if self.disc is None:
            if self.name is None:
                raise Unsupported(f"discriminant of constructed non-enum {self.ty}")
            self.disc = self.ctx.declare(f"{self.name}#d", "isize")
        return self.disc

    def __repr__(self):
        return f"Agg({self.name or self.ty})"


def clone(v):
    """copy semantics: fresh cells, shared leaves, refs keep their target"""
    if isinstance(v, Agg):
        a = Agg(v.ctx, v.name, v.ty)
        a.disc = v.disc
        if hasattr(v, "const_text"):
            a.const_text = v.const_text
        if hasattr(v, "veclen"):
            a.veclen = v.veclen
        if hasattr(v, "items"):     # modelled container (list of Cells): copying the value copies the elements
            a.items = [Cell(clone(c.val)) for c in v.items]
        for extra in ("pos", "hi", "lo", "seq"):
            if hasattr(v, extra):
                setattr(a, extra, getattr(v, extra))
        a.fields = {k: Cell(clone(c.val)) for k, c in v.fields.items()}
        a.variants = {k: Cell(clone(c.val)) for k, c in v.variants.items()}
        # lazily named children keep resolving to the same symbols as the original (same name) - that IS the copy
        return a
    return v


# ------------------------------------------------------------------------------------------------------------------
# MIR text parsing
# ------------------------------------------------------------------------------------------------------------------
class Func:
    def __deepcopy__(self, memo):
        return self

    def __init__(self, header, lines):
        self.header = header
        m = re.match(r"^fn (.*?)\((.*)\) -> (.*) \{$", header)
        if not m:
            m2 = re.match(r"^fn (.*?)\((.*)\) \{$", header)
            if not m2:
                raise Unsupported("cannot parse fn header: " + header)
            self.name, params, self.ret = m2.group(1), m2.group(2), "()"
        else:
            self.name, params, self.ret = m.group(1), m.group(2), m.group(3)
        self.params = []
        for p in split_top(params):
            p = p.strip()
            if p:
                n, t = p.split(":", 1)
                self.params.append((n.strip().replace("mut ", ""), t.strip()))
        self.types = dict(self.params)
        self.types["_0"] = self.ret
        self.blocks = {}
        self.debug = {}
        cur = None
        for ln in lines:
            s = ln.strip()
            m = re.match(r"^let (?:mut )?(_\d+): (.*);$", s)
            if m:
                self.types[m.group(1)] = m.group(2)
                continue
            m = re.match(r"^debug (\S+) => (.*);$", s)
            if m:
                self.debug[m.group(1)] = m.group(2)
                continue
            m = re.match(r"^(bb\d+)(?: \(cleanup\))?: \{$", s)
            if m:
                cur = m.group(1)
                self.blocks[cur] = []
                continue
            if s == "}" or s.startswith("scope ") or not s:
                if s == "}":
                    pass
                continue
            if cur is not None:
                self.blocks[cur].append(s)


def split_top(s, sep=","):
    """split on sep at bracket depth 0 (handles (), [], {}, <> - with the -> and => arrows kept intact)"""
    out, depth, cur, i = [], 0, "", 0
    while i < len(s):
        ch = s[i]
        two = s[i:i + 2]
        if two in ("->", "=>"):
            cur += two
            i += 2
            continue
        if ch in "([{<":
            depth += 1
        elif ch in ")]}>":
            depth -= 1
        if ch == sep and depth == 0:
            out.append(cur)
            cur = ""
        else:
            cur += ch
        i += 1
    if cur.strip():
        out.append(cur)
    return out


class MirFile:
    def __init__(self, path):
        self.funcs = []  # (header, start, end)
        self.lines = open(path, errors="replace").read().split("\n")
        start = None
        for i, ln in enumerate(self.lines):
            if ln.startswith("fn "):
                start = i
            elif ln == "}" and start is not None:
                self.funcs.append((self.lines[start], start, i))
                start = None
        self._cache = {}

    def find(self, file_hint, name, sig=None):
        """function whose header mentions file_hint and whose last path segment is `name` (optionally header ~ sig)"""
        key = (file_hint, name, sig)
        if key in self._cache:
            return self._cache[key]
        cands = []
        for h, s, e in self.funcs:
            if file_hint and file_hint not in h:
                continue
            if not file_hint and "<impl at " in h:
                continue
            if not re.search(r"::" + re.escape(name) + r"\(", h) and not re.match(r"^fn " + re.escape(name) + r"\(", h):
                continue
            if sig and not re.search(sig, h):
                continue
            cands.append((h, s, e))
        if len(cands) != 1:
            raise Unsupported(f"function lookup {file_hint}::{name} sig={sig}: {len(cands)} candidates "
                              + "; ".join(c[0][:120] for c in cands[:4]))
        h, s, e = cands[0]
        f = Func(h, self.lines[s + 1:e])
        self._cache[key] = f
        return f


# ------------------------------------------------------------------------------------------------------------------
# executor
# ------------------------------------------------------------------------------------------------------------------
class Ctx:
    def __deepcopy__(self, memo):
        return self

    def __init__(self):
        self.decls = {}   # smt name -> sort
        self.ufs = {}     # name -> (argsorts, ressort)
        self.n = 0
        self.names = {}

    def fresh(self, base):
        self.n += 1
        return f"{base}!{self.n}"

    def smtname(self, name):
        return "|" + name.replace("|", "/") + "|"

    def declare(self, name, ty):
        s = sort_of(ty)
        if s is None:
            raise Unsupported("declare non-scalar " + ty)
        sn = self.smtname(name)
        self.decls[sn] = s
        return Leaf(sn, ty)

    def sym(self, name, ty):
        ty = norm_ty(ty)
        if ty == "()":
            return Unit()
        if is_scalar(ty):
            return self.declare(name, ty)
        m = re.match(r"^&(?:'\w+ )?(mut )?(.*)$", ty)
        if m:
            return Ref(Cell(self.sym(name + "*", m.group(2))), bool(m.group(1)))
        return Agg(self, name, ty)

    def uf(self, name, argsorts, ressort):
        sn = self.smtname(name)
        self.ufs[sn] = (argsorts, ressort)
        return sn

    def preamble(self):
        out = ["(set-logic ALL)"]
        for n, s in self.decls.items():
            out.append(f"(declare-const {n} {s})")
        for n, (a, r) in self.ufs.items():
            out.append(f"(declare-fun {n} ({' '.join(a)}) {r})")
        return "\n".join(out)


class Path:
    def __init__(self):
        self.pc = []
        self.events = []
        self.ret = None
        self.cut = None
        self.visits = {}
        self.panics = None
        self.asserts = []  # (cond_term, msg) of MIR assert terminators passed (overflow / bounds checks)
        self.heap = {}     # name of an opaque pointer-like aggregate -> Cell of its abstract pointee (shared by copies)
        self.side = []     # (pc prefix, cond, msg): a modelled call panics here unless cond; cond was added to pc
        self.stopped = None  # region exploration: the stop block this path ended in


_FRAME_UID = [0]


class Frame:
    def __init__(self, func):
        self.func = func
        self.cells = {}
        _FRAME_UID[0] += 1
        self.uid = _FRAME_UID[0]   # survives deepcopy: identifies the activation, not the Python object
        self.ret_dest = None  # place AST in the caller frame
        self.ret_bb = None


class State:
    """one execution state: path data + call stack; forked as a whole (deepcopy keeps aliasing consistent)"""

    def __init__(self, path, frames, bb):
        self.path, self.frames, self.bb = path, frames, bb


BINOPS = {"Add", "Sub", "Mul", "Div", "Rem", "BitAnd", "BitOr", "BitXor", "Shl", "Shr", "Eq", "Ne", "Lt", "Le", "Gt",
          "Ge", "AddWithOverflow", "SubWithOverflow", "MulWithOverflow", "AddUnchecked", "SubUnchecked", "MulUnchecked",
          "Offset", "Cmp"}

ENUM_DISC = {
    "Option": {"None": 0, "Some": 1},
    "Result": {"Ok": 0, "Err": 1},
    "ControlFlow": {"Continue": 0, "Break": 1},
    "std::option::Option": {"None": 0, "Some": 1},
    "std::result::Result": {"Ok": 0, "Err": 1},
    "std::ops::ControlFlow": {"Continue": 0, "Break": 1},
}


class Executor:
    def __init__(self, mir, ctx, inline=None, models=None, enums=None, pure=None, max_paths=4000, loop_bound=2,
                 ret_models=None):
        self.mir, self.ctx = mir, ctx
        self.inline = inline or {}     # regex on callee text -> (file_hint, fn name, sig)
        self.models = models or {}     # regex on callee text -> python fn(ex, path, frame, callee, args, dest_ty)
        self.enums = dict(ENUM_DISC)
        self.enums.update(enums or {})
        self.pure = pure or []         # regexes: uninterpreted but functional (same args -> same result)
        self.max_paths = max_paths
        self.loop_bound = loop_bound
        self.done = []
        self._pure_memo = {}
        self.cur_path = None
        self.prune = None              # optional callable(list of pc terms) -> bool: online feasibility test of a branch
        self.pruned = []               # path conditions of the branches dropped by it (cross-checked later)

    # ---- places ---------------------------------------------------------------------------------------------------
    def local_cell(self, frame, name):
        if name not in frame.cells:
            ty = frame.func.types.get(name)
            if ty is None:
                raise Unsupported(f"unknown local {name}")
            frame.cells[name] = Cell(None)
            frame.cells[name].ty = ty if False else None
        return frame.cells[name]

    def parse_place(self, s):
        """-> nested tuple AST"""
        s = s.strip()
        if re.match(r"^_\d+$", s):
            return ("local", s)
        if s.startswith("(") and s.endswith(")") and matching_paren(s, 0) == len(s) - 1:
            inner = s[1:-1].strip()
            if inner.startswith("*"):
                return ("deref", self.parse_place(inner[1:]))
            # downcast: P as Variant
            parts = split_top_str(inner, " as ")
            if len(parts) == 2 and re.match(r"^[\w:]+$", parts[1].strip()):
                return ("downcast", self.parse_place(parts[0]), parts[1].strip())
            # field with type: P.N: T
            k = find_top(inner, ": ")
            if k >= 0:
                left, ty = inner[:k], inner[k + 2:]
                m = re.match(r"^(.*)\.(\w+)$", left.strip())
                if m:
                    return ("field", self.parse_place(m.group(1)), m.group(2), ty.strip())
            return self.parse_place(inner)
        m = re.match(r"^(.*)\[(_\d+|\d+ of \d+|-?\d+ of \d+)\]$", s)
        if m:
            return ("index", self.parse_place(m.group(1)), m.group(2))
        if s.startswith("*"):
            return ("deref", self.parse_place(s[1:]))
        raise Unsupported("place syntax: " + s)

    def place_cell(self, frame, ast, for_write=False):
        k = ast[0]
        if k == "local":
            name = ast[1]
            if name not in frame.cells:
                frame.cells[name] = Cell(None)
            c = frame.cells[name]
            if c.val is None and not for_write:
                # read of a never-written local: treat as symbolic (e.g. parameters are pre-populated, this is for temps)
                c.val = self.ctx.sym(self.ctx.fresh(f"{frame.func.name.split('::')[-1]}.{name}"), frame.func.types[name])
            return c
        if k == "deref":
            c = self.place_cell(frame, ast[1])
            v = c.val
            if isinstance(v, Ref):
                return v.cell
            if isinstance(v, Agg):
                # Box / raw pointer / smart pointer internals seen as an opaque aggregate: abstract pointee object,
                # keyed by the aggregate's symbolic name so that every copy of the pointer reaches the same pointee
                if v.name is not None and self.cur_path is not None:
                    h = self.cur_path.heap
                    if v.name not in h:
                        h[v.name] = Cell(Agg(self.ctx, v.name + "*", "?pointee"))
                    return h[v.name]
                if "*" not in v.fields:
                    v.fields["*"] = Cell(Agg(self.ctx, (v.name or self.ctx.fresh("box")) + "*", "?pointee"))
                return v.fields["*"]
            raise Unsupported(f"deref of non-reference {v!r}")
        if k == "field":
            c = self.place_cell(frame, ast[1])
            if c.val is None and for_write:
                c.val = Agg(self.ctx, None, "?")
            v = c.val
            if isinstance(v, Agg):
                if for_write and ast[2] not in v.fields:
                    v.fields[ast[2]] = Cell(None)
                return v.field_cell(ast[2], ast[3])
            raise Unsupported(f"field {ast[2]} of non-aggregate {v!r}")
        if k == "index":
            c = self.place_cell(frame, ast[1])
            v = c.val
            if not isinstance(v, Agg):
                raise Unsupported(f"index into non-aggregate {v!r}")
            # element type from the annotated type of the indexed place:  ((*_1).14: [u8; 1024])[_14]
            if ast[1][0] == "field" and isinstance(ast[1][3], str):
                mt = re.match(r"^\[(.*?)(?:; [^;\]]+)?\]$", ast[1][3].strip())
                if mt:
                    self._elem_hint = mt.group(1).strip()
            if for_write:
                # a store to one element: everything known about the other (possibly aliasing) elements is forgotten
                for kk in [kk for kk in v.fields if kk.startswith("[")]:
                    del v.fields[kk]
            if re.match(r"^_\d+$", ast[2]):
                iv = self.place_cell(frame, ("local", ast[2])).val
                key = "[" + (iv.term if isinstance(iv, Leaf) else repr(iv)) + "]"
            else:
                key = "[" + ast[2] + "]"
            # element read: one abstract element per syntactic index term (reads through different but equal index
            # terms are NOT correlated: an over-approximation, sound for UNSAT verdicts)
            if key not in v.fields:
                hint = getattr(self, "_elem_hint", None)
                if hint is None:
                    raise Unsupported("element type of index projection unknown")
                v.fields[key] = Cell(self.ctx.sym(self.ctx.fresh((v.name or "arr") + key), hint))
            return v.fields[key]
        if k == "downcast":
            c = self.place_cell(frame, ast[1])
            v = c.val
            if isinstance(v, Agg):
                return v.variant_cell(ast[2])
            raise Unsupported(f"downcast of non-aggregate {v!r}")
        raise Unsupported("place kind " + k)

    # ---- operands / rvalues -------------------------------------------------------------------------------------------
    def const(self, text, hint_ty=None):
        t = text.strip()
        if t in ("true", "false"):
            return Leaf(t, "bool")
        if t == "()":
            return Unit()
        m = re.match(r"^(-?\d[\d_]*)_?([iu](?:8|16|32|64|128|size))$", t)
        if m:
            v = int(m.group(1).replace("_", ""))
            ty = m.group(2)
            return Leaf(bvconst(v, INT_W[ty]), ty)
        m = re.match(r"^'(\\.|\\u\{[0-9a-fA-F]+\}|[^'\\])'$", t)
        if m:
            body = m.group(1)
            esc = {"\\n": "\n", "\\t": "\t", "\\r": "\r", "\\0": "\0", "\\\\": "\\", "\\'": "'", '\\"': '"'}
            if body.startswith("\\u{"):
                cp = int(body[3:-1], 16)
            elif body in esc:
                cp = ord(esc[body])
            elif len(body) == 1:
                cp = ord(body)
            else:
                raise Unsupported("char literal " + t)
            return Leaf(bvconst(cp, 32), "char")
        m = re.match(r"^(-?\d[\d_]*)$", t)
        if m and hint_ty in INT_W:
            return Leaf(bvconst(int(t.replace("_", "")), INT_W[hint_ty]), hint_ty)
        # unit struct / unit enum variant / other opaque constant
        mv = re.match(r"^(?:<.*>::|[\w:<>, ]*::)?(\w+)$", t)
        a = Agg(self.ctx, None, t)
        a.const_text = t
        # unit variant of a known enum?
        for en, vs in self.enums.items():
            short = en.split("::")[-1]
            for vn, idx in vs.items():
                if re.search(r"(^|::)" + re.escape(short) + r"(::<.*>)?::" + re.escape(vn) + r"$", t):
                    a.disc = Leaf(bvconst(idx, 64), "isize")
                    a.ty = en
        return a

    def operand(self, frame, text, hint_ty=None):
        t = text.strip()
        if t.startswith("no_retag "):
            t = t[9:].strip()
        self._elem_hint = hint_ty
        if t.startswith("copy "):
            return clone(self.read_place(frame, t[5:]))
        if t.startswith("move "):
            return self.read_place(frame, t[5:])
        if t.startswith("const "):
            return self.const(t[6:], hint_ty)
        if re.match(r"^[\w:<>, &'\[\]{}#@()]+$", t) and not t.startswith("_"):
            a = Agg(self.ctx, None, "fn-item")   # function item / zero-sized constant passed by value
            a.const_text = t
            return a
        raise Unsupported("operand: " + t)

    def read_place(self, frame, text):
        c = self.place_cell(frame, self.parse_place(text))
        if c.val is None:
            raise Unsupported("read of uninitialised place " + text)
        return c.val

    def named_const(self, agg, ty):
        """a named constant (`const tcp::PROTOCOL_VERSION`) whose value the dump does not show: an uninterpreted symbol
        (same name -> same symbol): over-approximation"""
        for suffix, val in getattr(self, "const_values", {}).items():
            if agg.const_text.endswith(suffix) and norm_ty(ty) in INT_W:
                return Leaf(bvconst(val, INT_W[norm_ty(ty)]), norm_ty(ty))
        return self.ctx.declare("const:" + agg.const_text + ":" + ty.replace("usize", "u64"), ty)

    def binop(self, path, op, a, b):
        if isinstance(a, Leaf) and isinstance(b, Agg) and getattr(b, "const_text", None):
            b = self.named_const(b, a.ty)
        if isinstance(b, Leaf) and isinstance(a, Agg) and getattr(a, "const_text", None):
            a = self.named_const(a, b.ty)
        if not (isinstance(a, Leaf) and isinstance(b, Leaf)):
            if isinstance(a, Agg) and isinstance(b, Agg):
                # float / opaque operands: abstract result (comparison -> fresh Bool, arithmetic -> fresh opaque value)
                if op in ("Eq", "Ne", "Lt", "Le", "Gt", "Ge"):
                    return self.ctx.sym(self.ctx.fresh("opaque:" + op), "bool")
                return Agg(self.ctx, self.ctx.fresh("opaque:" + op), a.ty)
            raise Unsupported(f"binop {op} on non-scalars {a!r} {b!r}")
        ta = a.ty
        if ta == "bool":
            x, y = a.term, b.term
            if op == "Eq":
                return Leaf(fold(f"(= {x} {y})"), "bool")
            if op == "Ne":
                return Leaf(fold(f"(not (= {x} {y}))"), "bool")
            if op == "BitAnd":
                return Leaf(fold(f"(and {x} {y})"), "bool")
            if op == "BitOr":
                return Leaf(fold(f"(or {x} {y})"), "bool")
            if op == "BitXor":
                return Leaf(fold(f"(xor {x} {y})"), "bool")
            raise Unsupported("bool binop " + op)
        w = INT_W.get(ta)
        if w is None:
            raise Unsupported("binop on type " + ta)
        sg = ta in SIGNED
        x, y = a.term, b.term
        if op in ("Shl", "Shr") and b.ty != ta:
            wb = INT_W[b.ty]
            if wb < w:
                y = f"((_ zero_extend {w - wb}) {y})"
            elif wb > w:
                y = f"((_ extract {w - 1} 0) {y})"
        cmpops = {"Eq": "=", "Lt": "bvslt" if sg else "bvult", "Le": "bvsle" if sg else "bvule",
                  "Gt": "bvsgt" if sg else "bvugt", "Ge": "bvsge" if sg else "bvuge"}
        # both operands are literals of the same width: evaluate with machine semantics (keeps container lengths,
        # counters and loop indices concrete along a path instead of growing (bvadd (bvadd 0 1) 1) terms)
        cx, cy = const_of(x), const_of(y)
        if (isinstance(cx, int) and isinstance(cy, int) and not isinstance(cx, bool) and not isinstance(cy, bool)
                and op not in ("Shl", "Shr", "Offset", "Cmp") and not (op in ("Div", "Rem") and (cy == 0 or sg))):
            M = 1 << w

            def sv(v):
                return v - M if (sg and v >= M >> 1) else v
            ax, ay = sv(cx), sv(cy)
            if op in cmpops or op == "Ne":
                r = {"Eq": ax == ay, "Ne": ax != ay, "Lt": ax < ay, "Le": ax <= ay, "Gt": ax > ay, "Ge": ax >= ay}[op]
                return Leaf("true" if r else "false", "bool")
            base = op.replace("WithOverflow", "").replace("Unchecked", "")
            if base in ("Div", "Rem"):
                return Leaf(bvconst(cx // cy if base == "Div" else cx % cy, w), ta)
            if base in ("Add", "Sub", "Mul", "BitAnd", "BitOr", "BitXor"):
                exact = {"Add": ax + ay, "Sub": ax - ay, "Mul": ax * ay, "BitAnd": cx & cy, "BitOr": cx | cy,
                         "BitXor": cx ^ cy}[base]
                if op.endswith("WithOverflow"):
                    lo, hi = (-(M >> 1), (M >> 1) - 1) if sg else (0, M - 1)
                    t = Agg(self.ctx, None, f"({ta}, bool)")
                    t.fields["0"] = Cell(Leaf(bvconst(exact, w), ta))
                    t.fields["1"] = Cell(Leaf("false" if lo <= exact <= hi else "true", "bool"))
                    return t
                return Leaf(bvconst(exact, w), ta)
        if op in cmpops:
            return Leaf(fold(f"({cmpops[op]} {x} {y})"), "bool")
        if op == "Ne":
            return Leaf(fold(f"(not (= {x} {y}))"), "bool")
        arith = {"Add": "bvadd", "Sub": "bvsub", "Mul": "bvmul", "BitAnd": "bvand", "BitOr": "bvor", "BitXor": "bvxor",
                 "Shl": "bvshl", "Shr": "bvashr" if sg else "bvlshr", "Div": "bvsdiv" if sg else "bvudiv",
                 "Rem": "bvsrem" if sg else "bvurem", "AddUnchecked": "bvadd", "SubUnchecked": "bvsub",
                 "MulUnchecked": "bvmul"}
        if op in arith:
            return Leaf(fold(f"({arith[op]} {x} {y})"), ta)
        if op in ("AddWithOverflow", "SubWithOverflow", "MulWithOverflow"):
            base = {"AddWithOverflow": "bvadd", "SubWithOverflow": "bvsub", "MulWithOverflow": "bvmul"}[op]
            res = f"({base} {x} {y})"
            ext = "sign_extend" if sg else "zero_extend"
            k = w if op == "MulWithOverflow" else 1
            wide = f"({base} ((_ {ext} {k}) {x}) ((_ {ext} {k}) {y}))"
            ovf = f"(not (= {wide} ((_ {ext} {k}) {res})))"
            t = Agg(self.ctx, None, f"({ta}, bool)")
            t.fields["0"] = Cell(Leaf(fold(res), ta))
            t.fields["1"] = Cell(Leaf(fold(ovf), "bool"))
            return t
        raise Unsupported("binop " + op)

    def cast(self, v, src_kind, dst_ty):
        dst_ty = norm_ty(dst_ty)
        if isinstance(v, Agg) and getattr(v, "const_text", None) and dst_ty in INT_W:
            # cast of a named constant: `usize` and `u64` readings of one constant are the same symbol
            return self.named_const(v, dst_ty)
        if not isinstance(v, Leaf):
            raise Unsupported(f"cast of {v!r}")
        if v.ty == "bool" and dst_ty in INT_W:
            w = INT_W[dst_ty]
            return Leaf(fold(f"(ite {v.term} {bvconst(1, w)} {bvconst(0, w)})"), dst_ty)
        if v.ty in INT_W and dst_ty in INT_W:
            ws, wd = INT_W[v.ty], INT_W[dst_ty]
            if wd == ws:
                return Leaf(v.term, dst_ty)
            if wd < ws:
                return Leaf(fold(f"((_ extract {wd - 1} 0) {v.term})"), dst_ty)
            ext = "sign_extend" if v.ty in SIGNED else "zero_extend"
            return Leaf(fold(f"((_ {ext} {wd - ws}) {v.term})"), dst_ty)
        raise Unsupported(f"cast {v.ty} -> {dst_ty} ({src_kind})")

    def rvalue(self, path, frame, text, dest_ty):
        t = text.strip()
        if t.startswith("no_retag "):
            t = t[9:].strip()
        m = re.match(r"^(PtrMetadata|Len|UnaryOp|SizeOf|AlignOf)\(.*\)$", t)
        if m:
            if dest_ty and is_scalar(dest_ty):
                nm = "len" if m.group(1) in ("PtrMetadata", "Len") else m.group(1)
                if nm == "len":
                    # the length of one slice object is one symbol: repeated reads through the same reference agree
                    mm = re.match(r"^\w+\((?:copy|move) (.*)\)$", t)
                    try:
                        tgt = self.read_place(frame, mm.group(1)) if mm else None
                    except Unsupported:
                        tgt = None
                    cell = tgt.cell if isinstance(tgt, Ref) else None
                    if cell is not None:
                        if getattr(cell, "len_sym", None) is None:
                            cell.len_sym = self.ctx.sym(self.ctx.fresh(nm), dest_ty)
                        return clone(cell.len_sym)
                return self.ctx.sym(self.ctx.fresh(nm), dest_ty)
            raise Unsupported("rvalue: " + t)
        # references
        m = re.match(r"^&(?:raw (?:const|mut) )?(mut )?(.*)$", t)
        if m and not t.startswith("&&"):
            if dest_ty and "[" in m.group(2):
                self._elem_hint = re.sub(r"^&(?:'\w+ )?(?:mut )?", "", dest_ty.strip())
            cell = self.place_cell(frame, self.parse_place(m.group(2)))
            if cell.val is None:
                raise Unsupported("reference to uninitialised place " + t)
            return Ref(cell, bool(m.group(1)))
        if t.startswith(("copy ", "move ", "const ")):
            # cast?
            m = re.match(r"^((?:copy|move|const) .*?) as (.*?) \((\w+)(?:\(.*\))?\)$", t)
            if m:
                v = self.operand(frame, m.group(1))
                kind = m.group(3)
                if kind in ("IntToInt",):
                    return self.cast(v, kind, m.group(2))
                if kind in ("PtrToPtr", "Transmute", "PointerCoercion") or kind.startswith("Pointer"):
                    return v
                raise Unsupported("cast kind " + kind)
            return self.operand(frame, t, dest_ty)
        m = re.match(r"^discriminant\((.*)\)$", t)
        if m:
            v = self.read_place(frame, m.group(1))
            if isinstance(v, Agg):
                return v.get_disc()
            raise Unsupported(f"discriminant of {v!r}")
        m = re.match(r"^(\w+)\((.*)\)$", t)
        if m and m.group(1) in BINOPS:
            a, b = split_top(m.group(2))
            return self.binop(path, m.group(1), self.operand(frame, a), self.operand(frame, b))
        if m and m.group(1) in ("Not", "Neg"):
            v = self.operand(frame, m.group(2))
            if not isinstance(v, Leaf):
                if isinstance(v, Agg):  # float / opaque operand: the result is an abstract value (over-approximation)
                    return Agg(self.ctx, self.ctx.fresh("opaque:" + m.group(1)), v.ty)
                raise Unsupported("unop on " + repr(v))
            if m.group(1) == "Not":
                if v.ty == "bool":
                    return Leaf(fold(f"(not {v.term})"), "bool")
                cv = const_of(v.term)
                if isinstance(cv, int) and not isinstance(cv, bool) and v.ty in INT_W:
                    return Leaf(bvconst(~cv, INT_W[v.ty]), v.ty)
                return Leaf(fold(f"(bvnot {v.term})"), v.ty)
            return Leaf(fold(f"(bvneg {v.term})"), v.ty)
        # closure / coroutine aggregate:  {closure@file:l:c: l:c} { cap: op, ... }   (or without captures)
        m = re.match(r"^(\{(?:closure|coroutine)@[^}]*\})(?: \{(.*)\})?$", t)
        if m:
            a = Agg(self.ctx, None, m.group(1))
            body = (m.group(2) or "").strip()
            if body:
                for i, fv in enumerate(split_top(body)):
                    fn, ov = fv.split(":", 1)
                    val = self.operand(frame, ov)
                    a.fields[str(i)] = Cell(val)
                    a.fields[fn.strip()] = a.fields[str(i)]
            return a
        # repeat expression [x; N]: an abstract array (elements are materialised on read, not tied to x)
        if t.startswith("[") and t.endswith("]") and "; " in t:
            return Agg(self.ctx, self.ctx.fresh("array"), dest_ty or "array")
        # array aggregate  [a, b, c]
        if t.startswith("[") and t.endswith("]") and "; " not in t:
            a = Agg(self.ctx, None, dest_ty or "array")
            elems = split_top(t[1:-1]) if t[1:-1].strip() else []
            for i, o in enumerate(elems):
                c = Cell(self.operand(frame, o))
                a.fields[f"[{i} of {len(elems)}]"] = c
                a.fields[f"[{bvconst(i, 64)}]"] = c
            return a
        # tuple aggregate
        if t.startswith("(") and matching_paren(t, 0) == len(t) - 1:
            a = Agg(self.ctx, None, dest_ty or "tuple")
            for i, o in enumerate(split_top(t[1:-1])):
                a.fields[str(i)] = Cell(self.operand(frame, o))
            return a
        # enum / struct aggregate:  Path::<..>::Variant(args)   |  Path::Variant  | Struct { f: v }
        m = re.match(r"^([\w:<>, &'()\[\];]+?)(?:::<.*?>)?::(\w+)\((.*)\)$", t)
        if m:
            en, vn, args = m.group(1), m.group(2), m.group(3)
            a = Agg(self.ctx, None, dest_ty or en)
            idx = self.variant_index(en, vn, dest_ty)
            if idx is not None:
                a.disc = Leaf(bvconst(idx, 64), "isize")
                pa = Agg(self.ctx, None, f"{en}@{vn}")
                for i, o in enumerate(split_top(args)):
                    pa.fields[str(i)] = Cell(self.operand(frame, o))
                a.variants[vn] = Cell(pa)
                return a
            # tuple struct constructor OR variant of an enum whose numbering is unknown here: keep both readings
            pa = Agg(self.ctx, None, f"{en}@{vn}")
            for i, o in enumerate(split_top(args)):
                c = Cell(self.operand(frame, o))
                a.fields[str(i)] = c
                pa.fields[str(i)] = c
            a.variants[vn] = Cell(pa)
            return a
        m = re.match(r"^([\w:<>, &'()\[\];]+?) \{(.*)\}$", t)
        if m:
            a = Agg(self.ctx, None, dest_ty or m.group(1))
            body = m.group(2).strip()
            vn = m.group(1).split("::")[-1]
            idx = self.variant_index("::".join(m.group(1).split("::")[:-1]), vn, dest_ty) if "::" in m.group(1) else None
            target = a
            if idx is not None:
                a.disc = Leaf(bvconst(idx, 64), "isize")
                target = Agg(self.ctx, None, f"{m.group(1)}")
                a.variants[vn] = Cell(target)
            if body:
                for i, fv in enumerate(split_top(body)):
                    fn, ov = fv.split(":", 1)
                    # MIR names fields by source name in aggregates; projections use indices: keep both keys
                    val = self.operand(frame, ov)
                    target.fields[fn.strip()] = Cell(val)
                    target.fields[str(i)] = target.fields[fn.strip()]
            return a
        # unit variant / unit struct without args
        if re.match(r"^[\w:<>, &']+$", t) or re.match(r"^[\w:]+::<[\w:<>, &'()\[\];]*>::\w+$", t):
            return self.const(t)
        raise Unsupported("rvalue: " + t)

    def variant_index(self, en, vn, dest_ty):
        for cand in (en, (dest_ty or "").split("<")[0]):
            cand = cand.strip()
            for k, vs in self.enums.items():
                if cand == k or cand.endswith("::" + k) or k.endswith("::" + cand):
                    if vn in vs:
                        return vs[vn]
        return None

    # ---- calls ---------------------------------------------------------------------------------------------------------
    def havoc(self, v, depth=0):
        if isinstance(v, Ref) and v.mut:
            old = v.cell.val
            if isinstance(old, (Leaf,)):
                v.cell.val = self.ctx.sym(self.ctx.fresh("havoc"), old.ty)
            elif isinstance(old, Agg):
                v.cell.val = Agg(self.ctx, self.ctx.fresh("havoc:" + str(old.ty)[:30]), old.ty)
            elif isinstance(old, Ref):
                self.havoc(old, depth + 1)

    # ---- main loop -------------------------------------------------------------------------------------------------------
    def run(self, func, args, start_bb="bb0", stop_bbs=(), init=None):
        """explore every path through func from the given argument values; returns list of (Path, return value|None).
        start_bb / stop_bbs: explore only a region of the body (one loop iteration from an arbitrary state): execution
        starts at start_bb with every local it reads before writing symbolic, and a path that enters one of stop_bbs
        ends there with `path.stopped = bb` (return value None)."""
        f0 = Frame(func)
        if len(args) != len(func.params):
            raise Unsupported(f"arity mismatch calling {func.name}: {len(args)} vs {len(func.params)}")
        for (pn, pt), a in zip(func.params, args):
            f0.cells[pn] = Cell(a)
        for ln_, lv_ in (init or {}).items():      # region exploration: named pre-state of locals
            f0.cells[ln_] = Cell(lv_)
        work = [State(Path(), [f0], start_bb)]
        self._stop_bbs = set(stop_bbs)
        self._start_bb = start_bb
        results = []
        steps = 0
        while work:
            st = work.pop()
            if len(results) + len(work) > self.max_paths:
                raise Unsupported("path explosion (> %d paths)" % self.max_paths)
            while True:
                steps += 1
                if steps > 400000:
                    raise Unsupported("step budget exceeded")
                frame = st.frames[-1]
                k = (frame.uid, st.bb)
                if len(st.frames) == 1 and st.bb in self._stop_bbs and st.path.visits:
                    st.path.stopped = st.bb
                    st.path.final_frame = frame
                    results.append((st.path, None))
                    break
                st.path.visits[k] = st.path.visits.get(k, 0) + 1
                if st.path.visits[k] > self.loop_bound + 1:
                    st.path.cut = f"loop bound {self.loop_bound} exceeded at {frame.func.name.split('::')[-1]}:{st.bb}"
                    results.append((st.path, None))
                    break
                nxt = None
                for stmt in frame.func.blocks[st.bb]:
                    nxt = self.step(st, stmt, results)
                    if nxt is not None:
                        break
                if nxt is None:
                    raise Unsupported("block without terminator " + st.bb)
                if not nxt:
                    break
                # first successor continues in place, the others go to the worklist
                for other in nxt[1:]:
                    work.append(other)
                st = nxt[0]
        return results

    def fork(self, st):
        return copy.deepcopy(st)

    def finish_call(self, st, rv):
        """return from the top frame with value rv; continue in the caller"""
        callee = st.frames.pop()
        if not st.frames:
            return None
        caller = st.frames[-1]
        self.place_cell(caller, callee.ret_dest, for_write=True).val = rv
        st.bb = callee.ret_bb
        return st

    def step(self, st, s, results):
        path, frame = st.path, st.frames[-1]
        self.cur_path = path
        s = s.rstrip(";").strip()
        if s.startswith(("StorageLive", "StorageDead", "FakeRead", "PlaceMention", "nop", "Retag", "AscribeUserType",
                         "Coverage", "ConstEvalCounter", "BackwardIncompatibleDropHint")) or s.startswith("//"):
            return None
        if s.startswith("goto -> "):
            st.bb = s[8:].strip()
            return [st]
        if s == "return":
            c = frame.cells.get("_0")
            rv = c.val if c is not None and c.val is not None else Unit()
            if len(st.frames) == 1:
                path.final_frame = frame
                results.append((path, rv))
                return []
            return [self.finish_call(st, rv)]
        if s == "unreachable":
            return []  # rustc-proven unreachable: path is infeasible
        if s.startswith("resume") or s.startswith("unwind") or s == "abort":
            return []
        m = re.match(r"^switchInt\((.*)\) -> \[(.*)\]$", s)
        if m:
            v = self.operand(frame, m.group(1))
            if not isinstance(v, Leaf):
                raise Unsupported("switchInt on " + repr(v))
            targets = []
            other = None
            for t in split_top(m.group(2)):
                a, b = t.split(":")
                if a.strip() == "otherwise":
                    other = b.strip()
                else:
                    targets.append((int(a.strip()), b.strip()))
            cv = const_of(v.term)
            if cv is not None:
                cvi = int(cv)
                for val, bb in targets:
                    if val == cvi:
                        st.bb = bb
                        return [st]
                if other:
                    st.bb = other
                    return [st]
                return []
            succ = []
            conds = []
            for val, bb in targets:
                if v.ty == "bool":
                    c = v.term if val != 0 else f"(not {v.term})"
                else:
                    c = f"(= {v.term} {bvconst(val, INT_W[v.ty])})"
                conds.append(c)
                succ.append((c, bb))
            if other:
                if len(conds) > 1:
                    c = "(and " + " ".join(f"(not {c})" for c in conds) + ")"
                else:
                    c = f"(not {conds[0]})"
                succ.append((c, other))
            out = []
            succ = [(c, bb) for (c, bb) in succ if not contradicts(path.pc, fold(c))]
            if self.prune is not None and len(succ) > 0:
                keep = []
                for (c, bb) in succ:
                    if self.prune(path.pc + [fold(c)]):
                        keep.append((c, bb))
                    else:
                        self.pruned.append(path.pc + [fold(c)])
                succ = keep
            for i, (c, bb) in enumerate(succ):
                s2 = st if i == len(succ) - 1 else self.fork(st)
                s2.path.pc.append(fold(c))
                s2.bb = bb
                out.append(s2)
            return out
        m = re.match(r"^assert\((!?)(.*?), (\".*\")(?:, .*)?\) -> \[success: (bb\d+), unwind.*\]$", s)
        if m:
            v = self.operand(frame, m.group(2))
            if not isinstance(v, Leaf):
                raise Unsupported("assert on " + repr(v))
            ok = fold(f"(not {v.term})" if m.group(1) else v.term)
            msg = m.group(3)
            cv = const_of(ok)
            if cv is not True:
                bad_pc = path.pc + [fold(f"(not {ok})")]
                if self.prune is not None and not self.prune(bad_pc):
                    self.pruned.append(bad_pc)
                else:
                    s2 = self.fork(st)
                    s2.path.pc.append(fold(f"(not {ok})"))
                    s2.path.panics = f"{msg} in {frame.func.name.split('::')[-1]}"
                    results.append((s2.path, None))
                path.pc.append(ok)
            st.bb = m.group(4)
            return [st]
        m = re.match(r"^drop\((.*)\) -> \[return: (bb\d+), unwind.*\]$", s)
        if m:
            st.bb = m.group(2)
            return [st]
        # call terminator:  dest = callee(args) -> [return: bbN, unwind ...]
        k = find_top(s, " = ")
        if k >= 0 and ") -> [return:" in s:
            dest, rest = s[:k], s[k + 3:]
            kk = rest.rfind(") -> [return:")
            callexpr = rest[:kk + 1]
            nb = re.search(r"return: (bb\d+)", rest[kk:]).group(1)
            j = call_open_paren(callexpr)
            callee, argtxt = callexpr[:j].strip(), callexpr[j + 1:-1]
            args = [self.operand(frame, a) for a in split_top(argtxt)] if argtxt.strip() else []
            dast = self.parse_place(dest)
            dest_ty = frame.func.types.get(dest.strip()) if dast[0] == "local" else (dast[3] if dast[0] == "field" else "?")
            for rx, mdl in self.models.items():
                if re.search(rx, callee):
                    r = mdl(self, path, frame, callee, args, dest_ty)
                    if isinstance(r, Panic):
                        path.panics = f"{r.msg} in {frame.func.name.split('::')[-1]} (call to {short(callee)})"
                        results.append((path, None))
                        return []
                    if r is not NotImplemented:
                        self.place_cell(frame, dast, for_write=True).val = r
                        st.bb = nb
                        return [st]
            for rx, target in self.inline.items():
                if re.search(rx, callee):
                    f = self.mir.find(*target)
                    if len(args) != len(f.params):
                        raise Unsupported(f"arity mismatch inlining {callee}")
                    nf = Frame(f)
                    for (pn, pt), a in zip(f.params, args):
                        nf.cells[pn] = Cell(a)
                    nf.ret_dest, nf.ret_bb = dast, nb
                    st.frames.append(nf)
                    st.bb = "bb0"
                    return [st]
            # uninterpreted
            key = None
            for rx in self.pure:
                if re.search(rx, callee):
                    key = (callee, tuple(term_key(a) for a in args))
            if key is not None and key in self._pure_memo:
                ret = clone(self._pure_memo[key])
            else:
                ret = self.ctx.sym(self.ctx.fresh("ret:" + short(callee)), dest_ty)
                if key is not None:
                    self._pure_memo[key] = ret
            path.events.append({"callee": callee, "args": args, "ret": ret, "fn": frame.func.name.split("::")[-1],
                                "argdesc": [describe(a) for a in args], "pc_prefix": list(path.pc)})
            for a in args:
                self.havoc(a)
            self.place_cell(frame, dast, for_write=True).val = ret
            st.bb = nb
            return [st]
        m = re.match(r"^(.*)\((.*)\) -> unwind.*$", s)
        if m and k >= 0 and "[return:" not in s:
            # diverging call with a (never written) destination:  _5 = panic_fmt(..) -> unwind continue
            m = re.match(r"^(.*)\((.*)\) -> unwind.*$", s[k + 3:])
            k = -1
        if m and k < 0:
            # diverging call (panic!, todo!, unreachable!, handle_alloc_error ...)
            path.panics = "diverging call: " + short(m.group(1))
            path.events.append({"callee": m.group(1).strip(), "args": [], "ret": None, "fn": frame.func.name.split("::")[-1],
                                "diverges": True})
            results.append((path, None))
            return []
        # plain assignment
        if k >= 0:
            lhs, rhs = s[:k], s[k + 3:]
            dast = self.parse_place(lhs)
            dest_ty = frame.func.types.get(lhs.strip()) if dast[0] == "local" else (dast[3] if dast[0] == "field" else None)
            v = self.rvalue(path, frame, rhs, dest_ty)
            self.place_cell(frame, dast, for_write=True).val = v
            return None
        raise Unsupported("statement: " + s)


# ---- helpers ---------------------------------------------------------------------------------------------------------
def matching_paren(s, i):
    depth = 0
    for j in range(i, len(s)):
        if s[j] == "(":
            depth += 1
        elif s[j] == ")":
            depth -= 1
            if depth == 0:
                return j
    return -1


def find_top(s, needle):
    depth = 0
    i = 0
    while i < len(s):
        two = s[i:i + 2]
        if s.startswith(needle, i) and depth == 0:
            return i
        if two in ("->", "=>"):
            i += 2
            continue
        ch = s[i]
        if ch in "([{<":
            depth += 1
        elif ch in ")]}>":
            depth -= 1
        i += 1
    return -1


def split_top_str(s, needle):
    k = find_top(s, needle)
    if k < 0:
        return [s]
    return [s[:k], s[k + len(needle):]]


def call_open_paren(callexpr):
    """index of the '(' that opens the argument list of `callee(args)` (callexpr ends with ')')"""
    depth = 0
    for j in range(len(callexpr) - 1, -1, -1):
        ch = callexpr[j]
        if ch == ")":
            depth += 1
        elif ch == "(":
            depth -= 1
            if depth == 0:
                return j
    raise Unsupported("call syntax: " + callexpr)


def short(callee):
    c = re.sub(r"<impl at [^>]*>", "", callee)
    return c.strip()[:80]


def describe(v):
    """stable description of an argument at call time (before &mut pointees are havocked)"""
    if isinstance(v, Leaf):
        return v.term
    if isinstance(v, Ref):
        return "&" + describe(v.cell.val)
    if isinstance(v, Agg):
        return v.name or getattr(v, "const_text", None) or ("<" + str(v.ty) + ">")
    return repr(v)


def term_key(v):
    if isinstance(v, Leaf):
        return v.term
    if isinstance(v, Ref):
        return ("ref", id(v.cell))
    if isinstance(v, Agg):
        return ("agg", v.name or id(v))
    return repr(v)


def contradicts(pc, c):
    """cheap syntactic infeasibility test (the solver does the real one later)"""
    if c == "false":
        return True
    neg = fold(f"(not {c})")
    if neg in pc:
        return True
    m = re.match(r"^\(= (\S+) (\(_ bv\d+ \d+\))\)$", c)
    if m:
        for q in pc:
            m2 = re.match(r"^\(= (\S+) (\(_ bv\d+ \d+\))\)$", q)
            if m2 and m2.group(1) == m.group(1) and m2.group(2) != m.group(2):
                return True
    return False


def fold(t):
    """tiny constant folder for the patterns that matter for branching"""
    t = t.strip()
    m = re.match(r"^\(not (true|false)\)$", t)
    if m:
        return "false" if m.group(1) == "true" else "true"
    m = re.match(r"^\(not \(not (.*)\)\)$", t)
    if m and balanced(m.group(1)):
        return fold(m.group(1))
    m = re.match(r"^\(= (\(_ bv\d+ \d+\)) (\(_ bv\d+ \d+\))\)$", t)
    if m:
        return "true" if m.group(1) == m.group(2) else "false"
    m = re.match(r"^\(= (true|false) (true|false)\)$", t)
    if m:
        return "true" if m.group(1) == m.group(2) else "false"
    m = re.match(r"^\(ite (true|false) (.*)\)$", t)
    if m:
        parts = split_sexp(m.group(2))
        if len(parts) == 2:
            return parts[0] if m.group(1) == "true" else parts[1]
    return t


def balanced(s):
    d = 0
    for ch in s:
        if ch == "(":
            d += 1
        elif ch == ")":
            d -= 1
            if d < 0:
                return False
    return d == 0


def split_sexp(s):
    out, d, cur = [], 0, ""
    for ch in s:
        if ch == "(":
            d += 1
        elif ch == ")":
            d -= 1
        if ch == " " and d == 0:
            if cur:
                out.append(cur)
            cur = ""
        else:
            cur += ch
    if cur:
        out.append(cur)
    return out
