// Kani harnesses for C18 (row versions decode to the right values), plus C03.delete_stamp and C13.trim_horizon.
// Child module of crates/axmos-db/src/storage/tuple.rs (sees its private items).  See /verif/HARNESS_GUIDE.md
#![allow(unused_imports, dead_code, clippy::all)]
use super::*;
use crate::schema::base::Column;
use crate::types::{Float64, Int32, Int64, bool::Bool};
use std::collections::hash_map::RandomState;

// ---------------------------------------------------------------------------------------------
// helpers
// ---------------------------------------------------------------------------------------------
/// Result -> Option without running the error's drop glue (io::Error / dyn Error drop glue explodes in CBMC).
fn okf<T, E>(r: Result<T, E>) -> Option<T> {
    match r {
        Ok(v) => Some(v),
        Err(e) => {
            std::mem::forget(e);
            None
        }
    }
}
/// a `RandomState` with fixed keys: `RandomState::new()` reaches getrandom (unsupported by Kani)
fn fixed_state() -> RandomState {
    unsafe { std::mem::transmute::<[u64; 2], RandomState>([0, 0]) }
}
fn col(k: DataTypeKind) -> Column {
    Column { dtype: k as u8, name: String::new(), default: None, is_non_null: false }
}
/// Schema with one key column (the first) over the given columns, built from its crate-visible fields (the name
/// index is not used by any function under check).  The `columns` Vec is backed by the caller's typed
/// `[Column; N]` local instead of a heap byte block: CBMC then keeps every `dtype` a constant during symbolic
/// execution (a Vec buffer of 3 columns is a 144-byte malloc object, above CBMC's field-sensitivity limit: every
/// `match kind` would be explored with a non-constant kind, Blob/VarInt loops included).  The Schema is never
/// dropped or grown (ManuallyDrop).
fn schema_over<const N: usize>(cols: &mut [Column; N]) -> std::mem::ManuallyDrop<Schema> {
    let columns = unsafe { Vec::from_raw_parts(cols.as_mut_ptr(), N, N) };
    std::mem::ManuallyDrop::new(Schema {
        columns,
        num_keys: 1,
        table_constraints: None,
        column_index: HashMap::with_hasher(fixed_state()),
        table_indexes: None,
    })
}
// `Column::datatype` stub for harnesses whose schema has columns of ONE kind only (Int).
// Why: `schema.value(i).ok_or(..)?` (the lookup used by key_with/value_with/parse_version/parse_for_snapshot/
// vaccum_with/add_version_with) moves the `&Column` through two niche-encoded enums (Result, ControlFlow); CBMC's
// symbolic execution then no longer knows which column the reference designates, `self.dtype` stops being a
// constant, every arm of the following `match kind` is explored (Blob/VarInt loops included; +10 s symex per lookup)
// and, worse, the cursor returned by `deserialize` becomes symbolic, so loops bounded by the cursor are unwound
// to the limit.  With all columns of kind Int the stub `|_| Int` is exact; `c18_column_datatype` checks that
// the real accessor returns the declared kind.
fn stub_dt_int(_c: &Column) -> DataTypeKind {
    DataTypeKind::Int
}
/// a Row over the caller's typed array (same reason as `schema_over`: value discriminants stay constants)
fn row_over<const N: usize>(vals: &mut [DataType; N]) -> std::mem::ManuallyDrop<Row> {
    let b: Box<[DataType]> = unsafe { Box::from_raw(&mut vals[..] as *mut [DataType]) };
    std::mem::ManuallyDrop::new(Row(b))
}
#[repr(align(8))]
struct A8<const N: usize>([u8; N]);

fn rd_u64(d: &[u8], o: usize) -> u64 {
    u64::from_le_bytes([d[o], d[o + 1], d[o + 2], d[o + 3], d[o + 4], d[o + 5], d[o + 6], d[o + 7]])
}
fn rd_u32(d: &[u8], o: usize) -> u32 {
    u32::from_le_bytes([d[o], d[o + 1], d[o + 2], d[o + 3]])
}
const P63: u64 = 1u64 << 63;

// ---------------------------------------------------------------------------------------------
// 1. header codec
// ---------------------------------------------------------------------------------------------
fn header_rt(version: u8, xmin: u64, xmax: Option<u64>, off: usize) -> (TupleHeader, usize, usize) {
    let mut buf = A8([0u8; 48]);
    let end = TupleHeader::new(version, xmin, xmax).write_to(&mut buf.0, off);
    let (r, e2) = TupleHeader::read_from(&buf.0, off);
    (r, end, e2)
}
// @obl harness=c18_header_rw id=C18.header_codec[TupleHeader/xmax<2^63] tier=quick funcs="TupleHeader::new,TupleHeader::write_to,TupleHeader::read_from,TupleHeader::xmin,TupleHeader::xmax,TupleHeader::version" bounds="all u64 xmin, all u8 version, xmax None or any value < 2^63, start offset 0..=16 in an 8-aligned 48-byte buffer"
#[kani::proof]
#[kani::unwind(4)]
fn c18_header_rw() {
    let version: u8 = kani::any();
    let xmin: u64 = kani::any();
    let xm: u64 = kani::any();
    let has: bool = kani::any();
    let off: usize = kani::any();
    kani::assume(off <= 16);
    kani::assume(xm < P63);
    let xmax = if has { Some(xm) } else { None };
    kani::cover!(true, "reach");
    let (r, end, e2) = header_rt(version, xmin, xmax, off);
    assert!(TupleHeader::SIZE == 24, "tuple_header_size_is_24");
    assert!(end == ((off + 7) & !7) + 24 && e2 == end, "header_cursor");
    assert!(r.xmin() == xmin, "xmin_roundtrip");
    assert!(r.version() == version, "version_roundtrip");
    assert!(r.xmax() == xmax, "xmax_roundtrip");
}
// @obl harness=c18_header_rw_big_xmax id=C18.header_codec[TupleHeader/xmax>=2^63] tier=off funcs="TupleHeader::new,TupleHeader::write_to,TupleHeader::read_from,TupleHeader::xmax" bounds="xmax = Some(v), v >= 2^63 (stored as i64: negative = not deleted)"
#[kani::proof]
#[kani::unwind(4)]
fn c18_header_rw_big_xmax() {
    let version: u8 = kani::any();
    let xmin: u64 = kani::any();
    let xm: u64 = kani::any();
    kani::assume(xm >= P63);
    kani::cover!(true, "reach");
    let (r, _, _) = header_rt(version, xmin, Some(xm), 0);
    assert!(r.xmax() == Some(xm), "xmax_roundtrip");
}
// @obl harness=c18_delta_header_rw id=C18.header_codec[DeltaHeader] tier=quick funcs="DeltaHeader::new,DeltaHeader::write_to,DeltaHeader::read_from,DeltaHeader::xmin,DeltaHeader::version" bounds="all u64 xmin, all u8 version, start offset 0..=16 in an 8-aligned 48-byte buffer"
#[kani::proof]
#[kani::unwind(4)]
fn c18_delta_header_rw() {
    let version: u8 = kani::any();
    let xmin: u64 = kani::any();
    let off: usize = kani::any();
    kani::assume(off <= 16);
    let mut buf = A8([0u8; 48]);
    kani::cover!(true, "reach");
    let end = DeltaHeader::new(version, xmin).write_to(&mut buf.0, off);
    let (r, e2) = DeltaHeader::read_from(&buf.0, off);
    assert!(DeltaHeader::SIZE == 16, "delta_header_size_is_16");
    assert!(end == ((off + 7) & !7) + 16 && e2 == end, "header_cursor");
    assert!(r.xmin() == xmin, "xmin_roundtrip");
    assert!(r.version() == version, "version_roundtrip");
}

// ---------------------------------------------------------------------------------------------
// 2. null bitmap
// ---------------------------------------------------------------------------------------------
// @obl harness=c18_null_bitmap id=C18.null_bitmap tier=quick funcs="TupleBuilder::set_null_bit,TupleReader::check_null" bounds="2-byte bitmap with arbitrary prior contents, every index i < 16, every other index j < 16, both flag values"
#[kani::proof]
#[kani::unwind(4)]
fn c18_null_bitmap() {
    let before: [u8; 2] = kani::any();
    let mut bm = before;
    let i: usize = kani::any();
    let j: usize = kani::any();
    let v: bool = kani::any();
    kani::assume(i < 16 && j < 16 && j != i);
    kani::cover!(true, "reach");
    TupleBuilder::set_null_bit(&mut bm, i, v);
    assert!(TupleReader::check_null(&bm, i) == v, "set_then_check_agree");
    assert!(TupleReader::check_null(&bm, j) == TupleReader::check_null(&before, j), "other_bits_untouched");
    let (a, b) = (u16::from_le_bytes(before), u16::from_le_bytes(bm));
    assert!((a ^ b) & !(1u16 << i) == 0, "only_bit_i_changes");
    assert!(((b >> i) & 1 == 1) == v, "bit_i_is_flag");
}

// ---------------------------------------------------------------------------------------------
// 5. C03.delete_stamp
// ---------------------------------------------------------------------------------------------
/// a tuple whose 40 bytes (header + bitmap + one 8-byte key) are arbitrary; `delete` only looks at the header
fn any_tuple40() -> (Tuple, [u8; 40]) {
    let b: [u8; 40] = kani::any();
    match okf(Tuple::from_slice_unchecked(&b)) {
        Some(t) => (t, b),
        None => {
            kani::assume(false);
            unreachable!()
        }
    }
}
fn tail_same(t: &Tuple, b: &[u8; 40]) -> bool {
    let d = t.effective_data();
    d.len() == 40 && rd_u64(d, 24) == rd_u64(b, 24) && rd_u64(d, 32) == rd_u64(b, 32)
}
// @obl harness=c03_delete_stamp id=C03.delete_stamp[xid<2^63] tier=quick funcs="Tuple::delete,Tuple::is_deleted,Tuple::xmax,TupleHeader::read_from,TupleHeader::write_to" bounds="40-byte tuple with arbitrary bytes (arbitrary header: live or already deleted), any xid < 2^63"
#[kani::proof]
#[kani::unwind(4)]
fn c03_delete_stamp() {
    let (mut t, b) = any_tuple40();
    let xid: u64 = kani::any();
    kani::assume(xid < P63);
    let was = t.xmax();
    let (xmin0, ver0) = (t.xmin(), t.version());
    kani::cover!(true, "reach");
    kani::cover!(was.is_some(), "reach_already_deleted");
    let r = okf(t.delete(xid));
    match was {
        None => {
            assert!(r.is_some(), "delete_live_tuple_ok");
            assert!(t.xmax() == Some(xid), "delete_sets_xmax");
        }
        Some(_) => assert!(t.xmax() == was, "second_delete_keeps_first_xmax"),
    }
    assert!(t.xmin() == xmin0 && t.version() == ver0, "delete_keeps_xmin_and_version");
    assert!(tail_same(&t, &b), "delete_touches_only_header");
    std::mem::forget(t);
}
// @obl harness=c03_delete_stamp_big_xid id=C03.delete_stamp[xid>=2^63] tier=off funcs="Tuple::delete,Tuple::xmax" bounds="live 40-byte tuple, xid >= 2^63 (xmax stored as i64)"
#[kani::proof]
#[kani::unwind(4)]
fn c03_delete_stamp_big_xid() {
    let (mut t, _b) = any_tuple40();
    let xid: u64 = kani::any();
    kani::assume(xid >= P63);
    kani::assume(t.xmax().is_none());
    kani::cover!(true, "reach");
    let _ = okf(t.delete(xid));
    assert!(t.xmax() == Some(xid), "delete_sets_xmax");
    std::mem::forget(t);
}
// @obl harness=c03_delete_twice_err id=C03.delete_stamp[already_deleted/err] tier=off funcs="Tuple::delete" bounds="40-byte tuple whose header already carries an xmax, any xid"
#[kani::proof]
#[kani::unwind(4)]
fn c03_delete_twice_err() {
    let (mut t, _b) = any_tuple40();
    let xid: u64 = kani::any();
    kani::assume(t.xmax().is_some());
    kani::cover!(true, "reach");
    let r = okf(t.delete(xid));
    assert!(r.is_none(), "delete_of_deleted_tuple_is_err");
    std::mem::forget(t);
}

// ---------------------------------------------------------------------------------------------
// 3. build_layout: schema family  key BigInt | value0 K0 | value1 K1,  K in {BigInt, Int, Double, Bool},
//    one shape per (K0, K1, NULL pattern); values symbolic.
//    Split in three stages (build -> parse -> read in ONE harness ran out of memory in the probes, and
//    parse + three reads in one harness takes 165-220 s):
//      stage A  c18_build_<shape> : TupleBuilder::build writes exactly the reference layout below (bytes asserted)
//      stage B  c18_parse_<shape> : on ANY buffer of that layout (symbolic header and value bytes, bitmap byte fixed
//                                   to the shape's NULL pattern) parse_last_version records the reference cursors
//      stage C  c18_read_<kind>, c18_read_key : for ANY buffer, ANY bitmap byte and ANY recorded cursor,
//                                   value_with / key_with return NULL iff flagged, else exactly the stored bits at
//                                   the cursor aligned to the kind (per kind, covers every layout of the family)
//    A o B o C = what is read is what was put in.
// ---------------------------------------------------------------------------------------------
use DataTypeKind as K;
/// reference model: (align, size) of the fixed-size kinds of the family
fn kinfo(k: K) -> (usize, usize) {
    match k {
        K::BigInt | K::Double => (8, 8),
        K::Int => (4, 4),
        K::Bool => (1, 1),
        _ => unreachable!(),
    }
}
fn al(c: usize, a: usize) -> usize {
    (c + a - 1) / a * a
}
/// reference layout: header 0..24 | bitmap byte 24 | key BigInt 32..40 | non-NULL values, each aligned to its kind.
/// A NULL value occupies nothing.  `p*` = running cursor before the value (this is what TupleLayout records as
/// "offset": readers align it again), `o*` = aligned offset where the value's bytes are.
struct RefLayout {
    p0: usize,
    o0: usize,
    p1: usize,
    o1: usize,
    end: usize,
}
fn ref_layout(k0: K, n0: bool, k1: K, n1: bool) -> RefLayout {
    let mut c = 40;
    let p0 = c;
    let o0 = if n0 { c } else { al(c, kinfo(k0).0) };
    if !n0 {
        c = o0 + kinfo(k0).1;
    }
    let p1 = c;
    let o1 = if n1 { c } else { al(c, kinfo(k1).0) };
    if !n1 {
        c = o1 + kinfo(k1).1;
    }
    RefLayout { p0, o0, p1, o1, end: c }
}
/// the value of kind `k` whose stored bits are the low bytes of `raw`
fn mk(k: K, raw: u64) -> DataType {
    match k {
        K::BigInt => DataType::BigInt(Int64(raw as i64)),
        K::Int => DataType::Int(Int32(raw as u32 as i32)),
        K::Double => DataType::Double(Float64(f64::from_bits(raw))),
        K::Bool => DataType::Bool(Bool(raw & 1 == 1)),
        _ => unreachable!(),
    }
}
/// the bits a value of kind `k` built from `raw` must occupy in the tuple
fn want(k: K, raw: u64) -> u64 {
    match k {
        K::BigInt | K::Double => raw,
        K::Int => raw & 0xffff_ffff,
        K::Bool => raw & 1,
        _ => unreachable!(),
    }
}
/// the stored bits of a value of kind `k` at offset `o`
fn stored(d: &[u8], o: usize, k: K) -> u64 {
    match k {
        K::BigInt | K::Double => rd_u64(d, o),
        K::Int => rd_u32(d, o) as u64,
        K::Bool => d[o] as u64,
        _ => unreachable!(),
    }
}
/// what a reader must return for the stored bits (Bool: any non-zero byte is TRUE)
fn decoded(k: K, bits: u64) -> u64 {
    match k {
        K::Bool => (bits != 0) as u64,
        _ => bits,
    }
}
/// bits of a decoded reference (None = wrong variant)
fn ref_bits(r: &DataTypeRef<'_>, k: K) -> Option<u64> {
    match (r, k) {
        (DataTypeRef::BigInt(x), K::BigInt) => Some(x.0 as u64),
        (DataTypeRef::Int(x), K::Int) => Some(x.0 as u32 as u64),
        (DataTypeRef::Double(x), K::Double) => Some(x.0.to_bits()),
        (DataTypeRef::Bool(x), K::Bool) => Some(x.value() as u64),
        _ => None,
    }
}

fn build_stage(k0: K, n0: bool, k1: K, n1: bool) {
    let mut cols = std::mem::ManuallyDrop::new([col(K::BigInt), col(k0), col(k1)]);
    let schema = schema_over(&mut cols);
    let (rk, r0, r1, xmin): (u64, u64, u64, u64) = (kani::any(), kani::any(), kani::any(), kani::any());
    let v0 = if n0 { DataType::Null } else { mk(k0, r0) };
    let v1 = if n1 { DataType::Null } else { mk(k1, r1) };
    let mut vals = [mk(K::BigInt, rk), v0, v1];
    let row = row_over(&mut vals);
    let RefLayout { o0, o1, end, .. } = ref_layout(k0, n0, k1, n1);
    let b = TupleBuilder::from_schema(&schema);
    kani::cover!(true, "reach");
    assert!(b.compute_initial_size(&row) == end, "compute_initial_size_is_reference_size");
    match okf(b.build(&row, xmin)) {
        Some(t) => {
            let d = t.effective_data();
            assert!(d.len() == end, "tuple_len_is_compute_initial_size");
            assert!(t.xmin() == xmin, "header_xmin_is_creator");
            assert!(t.xmax().is_none(), "header_xmax_none");
            assert!(t.version() == 0, "header_version_0");
            assert!(d[24] == (n0 as u8) | ((n1 as u8) << 1), "null_bitmap_is_pattern");
            assert!(rd_u64(d, 32) == rk, "key_bytes_at_32");
            if !n0 {
                assert!(stored(d, o0, k0) == want(k0, r0), "value0_bytes_at_reference_offset");
            }
            if !n1 {
                assert!(stored(d, o1, k1) == want(k1, r1), "value1_bytes_at_reference_offset");
            }
            std::mem::forget(t);
        }
        None => assert!(false, "build_fails"),
    }
}
fn parse_stage<const END: usize>(k0: K, n0: bool, k1: K, n1: bool) {
    let mut cols = std::mem::ManuallyDrop::new([col(K::BigInt), col(k0), col(k1)]);
    let schema = schema_over(&mut cols);
    let RefLayout { p0, p1, end, .. } = ref_layout(k0, n0, k1, n1);
    assert!(end == END, "harness_shape_constant");
    let mut buf = A8::<END>(kani::any());
    buf.0[24] = (n0 as u8) | ((n1 as u8) << 1);
    let d: &[u8] = &buf.0;
    kani::cover!(true, "reach");
    let reader = TupleReader::from_schema(&schema);
    match okf(reader.parse_last_version(d)) {
        Some(l) => {
            assert!(l.version_xmin == rd_u64(d, 0), "layout_xmin_is_header_xmin");
            let xm = rd_u64(d, 8);
            assert!(l.version_xmax == if xm >= P63 { None } else { Some(xm) }, "layout_xmax_is_header_xmax");
            assert!(l.version == d[16], "layout_version_is_header_version");
            assert!(l.null_bitmap_start == 24, "bitmap_start_24");
            assert!(l.key_offsets.len() == 1 && l.key_offsets[0] == 25, "key_cursor_25");
            assert!(l.value_offsets.len() == 2, "two_value_offsets");
            if !n0 {
                assert!(l.value_offsets[0] == p0, "value0_cursor_is_reference");
            }
            if !n1 {
                assert!(l.value_offsets[1] == p1, "value1_cursor_is_reference");
            }
            assert!(l.data_end == end, "data_end_is_reference_end");
            std::mem::forget(l);
        }
        None => assert!(false, "parse_fails"),
    }
}
/// TupleLayout with the given (pre-alignment) cursors; header-derived fields arbitrary
fn layout_with(kc: usize, p0: usize, p1: usize, data_end: usize) -> TupleLayout {
    let mut ko = Vec::with_capacity(1);
    ko.push(kc);
    let mut vo = Vec::with_capacity(2);
    vo.push(p0);
    vo.push(p1);
    TupleLayout {
        version_xmin: kani::any(),
        version_xmax: if kani::any() { Some(kani::any()) } else { None },
        null_bitmap_start: 24,
        key_offsets: ko,
        value_offsets: vo,
        data_end,
        version: kani::any(),
    }
}
/// stage C: value_with(i) on ANY 72-byte buffer, ANY bitmap byte, ANY recorded cursors p0,p1 in 40..=56:
/// NULL iff bit i of the bitmap is set, else exactly the stored bits at align(p_i, kind)
fn read_stage(k: K) {
    let mut cols = std::mem::ManuallyDrop::new([col(K::BigInt), col(k), col(k)]);
    let schema = schema_over(&mut cols);
    let buf = A8::<72>(kani::any());
    let d: &[u8] = &buf.0;
    let (p0, p1, i): (usize, usize, usize) = (kani::any(), kani::any(), kani::any());
    kani::assume(p0 >= 40 && p0 <= 56 && p1 >= 40 && p1 <= 56 && i < 2);
    let tr = TupleRef::new(d, layout_with(25, p0, p1, 72));
    let null = (d[24] >> i) & 1 == 1;
    let o = al(if i == 0 { p0 } else { p1 }, kinfo(k).0);
    kani::cover!(true, "reach");
    kani::cover!(null, "reach_null");
    match okf(tr.value_with(i, &schema)) {
        Some(DataTypeRef::Null) => assert!(null, "null_only_if_flagged"),
        Some(r) => {
            assert!(!null, "flagged_null_reads_null");
            assert!(ref_bits(&r, k) == Some(decoded(k, stored(d, o, k))), "value_reads_stored_bits");
        }
        None => assert!(false, "value_with_fails"),
    }
    assert!(okf(tr.value_with(2, &schema)).is_none(), "value_index_out_of_range_is_err");
    std::mem::forget(tr);
}
macro_rules! hbuild {
    ($name:ident, $k0:ident, $n0:expr, $k1:ident, $n1:expr) => {
        #[kani::proof]
        #[kani::unwind(4)]
        fn $name() {
            build_stage(K::$k0, $n0, K::$k1, $n1);
        }
    };
}
macro_rules! hread {
    ($name:ident, $k:ident) => {
        #[kani::proof]
        #[kani::unwind(3)]
        fn $name() {
            read_stage(K::$k);
        }
    };
}
macro_rules! hparse {
    ($name:ident, $k0:ident, $n0:expr, $k1:ident, $n1:expr, $end:expr) => {
        #[kani::proof]
        #[kani::unwind(3)]
        fn $name() {
            parse_stage::<$end>(K::$k0, $n0, K::$k1, $n1);
        }
    };
}
// @obl harness=c18_build_bigint_int id=C18.build_layout[build:BigInt|BigInt,Int] tier=quick funcs="TupleBuilder::build,TupleBuilder::compute_initial_size,TupleBuilder::write_initial,Row::validate,Payload::alloc_aligned,DataType::write_to" bounds="stage A of 3 (A build -> bytes, B parse_last_version -> cursors = c18_parse_bigint_int, C value_with/key_with -> values = c18_read_*/c18_read_key); 1 key BigInt + values BigInt, Int, no NULL; all value bits and xmin symbolic" unwind=4
hbuild!(c18_build_bigint_int, BigInt, false, Int, false);
// @obl harness=c18_parse_bigint_int id=C18.build_layout[parse:BigInt|BigInt,Int] tier=quick funcs="TupleReader::parse_last_version,TupleReader::check_null,TupleHeader::read_from,DataTypeKind::deserialize" bounds="stage B of 3; any 52-byte 8-aligned buffer of the shape's layout (bitmap byte fixed to the NULL pattern, every other byte incl. header symbolic)" unwind=3
hparse!(c18_parse_bigint_int, BigInt, false, Int, false, 52);
// @obl harness=c18_build_int_bigint id=C18.build_layout[build:BigInt|Int,BigInt] tier=thorough funcs="TupleBuilder::build,TupleBuilder::compute_initial_size,TupleBuilder::write_initial,Row::validate,Payload::alloc_aligned,DataType::write_to" bounds="stage A of 3 (A build -> bytes, B parse_last_version -> cursors = c18_parse_int_bigint, C value_with/key_with -> values = c18_read_*/c18_read_key); 1 key BigInt + values Int, BigInt, no NULL; all value bits and xmin symbolic" unwind=4
hbuild!(c18_build_int_bigint, Int, false, BigInt, false);
// @obl harness=c18_parse_int_bigint id=C18.build_layout[parse:BigInt|Int,BigInt] tier=thorough funcs="TupleReader::parse_last_version,TupleReader::check_null,TupleHeader::read_from,DataTypeKind::deserialize" bounds="stage B of 3; any 56-byte 8-aligned buffer of the shape's layout (bitmap byte fixed to the NULL pattern, every other byte incl. header symbolic)" unwind=3
hparse!(c18_parse_int_bigint, Int, false, BigInt, false, 56);
// @obl harness=c18_build_int_int id=C18.build_layout[build:BigInt|Int,Int] tier=thorough funcs="TupleBuilder::build,TupleBuilder::compute_initial_size,TupleBuilder::write_initial,Row::validate,Payload::alloc_aligned,DataType::write_to" bounds="stage A of 3 (A build -> bytes, B parse_last_version -> cursors = c18_parse_int_int, C value_with/key_with -> values = c18_read_*/c18_read_key); 1 key BigInt + values Int, Int, no NULL; all value bits and xmin symbolic" unwind=4
hbuild!(c18_build_int_int, Int, false, Int, false);
// @obl harness=c18_parse_int_int id=C18.build_layout[parse:BigInt|Int,Int] tier=thorough funcs="TupleReader::parse_last_version,TupleReader::check_null,TupleHeader::read_from,DataTypeKind::deserialize" bounds="stage B of 3; any 48-byte 8-aligned buffer of the shape's layout (bitmap byte fixed to the NULL pattern, every other byte incl. header symbolic)" unwind=3
hparse!(c18_parse_int_int, Int, false, Int, false, 48);
// @obl harness=c18_build_int_double_n0 id=C18.build_layout[build:BigInt|Int/NULL,Double] tier=quick funcs="TupleBuilder::build,TupleBuilder::compute_initial_size,TupleBuilder::write_initial,Row::validate,Payload::alloc_aligned,DataType::write_to" bounds="stage A of 3 (A build -> bytes, B parse_last_version -> cursors = c18_parse_int_double_n0, C value_with/key_with -> values = c18_read_*/c18_read_key); 1 key BigInt + values Int, Double, value0 NULL; all value bits and xmin symbolic" unwind=4
hbuild!(c18_build_int_double_n0, Int, true, Double, false);
// @obl harness=c18_parse_int_double_n0 id=C18.build_layout[parse:BigInt|Int/NULL,Double] tier=quick funcs="TupleReader::parse_last_version,TupleReader::check_null,TupleHeader::read_from,DataTypeKind::deserialize" bounds="stage B of 3; any 48-byte 8-aligned buffer of the shape's layout (bitmap byte fixed to the NULL pattern, every other byte incl. header symbolic)" unwind=3
hparse!(c18_parse_int_double_n0, Int, true, Double, false, 48);
// @obl harness=c18_build_double_int_n1 id=C18.build_layout[build:BigInt|Double,Int/NULL] tier=thorough funcs="TupleBuilder::build,TupleBuilder::compute_initial_size,TupleBuilder::write_initial,Row::validate,Payload::alloc_aligned,DataType::write_to" bounds="stage A of 3 (A build -> bytes, B parse_last_version -> cursors = c18_parse_double_int_n1, C value_with/key_with -> values = c18_read_*/c18_read_key); 1 key BigInt + values Double, Int, value1 NULL; all value bits and xmin symbolic" unwind=4
hbuild!(c18_build_double_int_n1, Double, false, Int, true);
// @obl harness=c18_parse_double_int_n1 id=C18.build_layout[parse:BigInt|Double,Int/NULL] tier=thorough funcs="TupleReader::parse_last_version,TupleReader::check_null,TupleHeader::read_from,DataTypeKind::deserialize" bounds="stage B of 3; any 48-byte 8-aligned buffer of the shape's layout (bitmap byte fixed to the NULL pattern, every other byte incl. header symbolic)" unwind=3
hparse!(c18_parse_double_int_n1, Double, false, Int, true, 48);
// @obl harness=c18_build_bigint_double_n01 id=C18.build_layout[build:BigInt|BigInt/NULL,Double/NULL] tier=quick funcs="TupleBuilder::build,TupleBuilder::compute_initial_size,TupleBuilder::write_initial,Row::validate,Payload::alloc_aligned,DataType::write_to" bounds="stage A of 3 (A build -> bytes, B parse_last_version -> cursors = c18_parse_bigint_double_n01, C value_with/key_with -> values = c18_read_*/c18_read_key); 1 key BigInt + values BigInt, Double, both values NULL; all value bits and xmin symbolic" unwind=4
hbuild!(c18_build_bigint_double_n01, BigInt, true, Double, true);
// @obl harness=c18_parse_bigint_double_n01 id=C18.build_layout[parse:BigInt|BigInt/NULL,Double/NULL] tier=thorough funcs="TupleReader::parse_last_version,TupleReader::check_null,TupleHeader::read_from,DataTypeKind::deserialize" bounds="stage B of 3; any 40-byte 8-aligned buffer of the shape's layout (bitmap byte fixed to the NULL pattern, every other byte incl. header symbolic)" unwind=3
hparse!(c18_parse_bigint_double_n01, BigInt, true, Double, true, 40);
// @obl harness=c18_build_int_bool id=C18.build_layout[build:BigInt|Int,Bool] tier=thorough funcs="TupleBuilder::build,TupleBuilder::compute_initial_size,TupleBuilder::write_initial,Row::validate,Payload::alloc_aligned,DataType::write_to" bounds="stage A of 3 (A build -> bytes, B parse_last_version -> cursors = c18_parse_int_bool, C value_with/key_with -> values = c18_read_*/c18_read_key); 1 key BigInt + values Int, Bool, no NULL; all value bits and xmin symbolic" unwind=4
hbuild!(c18_build_int_bool, Int, false, Bool, false);
// @obl harness=c18_parse_int_bool id=C18.build_layout[parse:BigInt|Int,Bool] tier=thorough funcs="TupleReader::parse_last_version,TupleReader::check_null,TupleHeader::read_from,DataTypeKind::deserialize" bounds="stage B of 3; any 45-byte 8-aligned buffer of the shape's layout (bitmap byte fixed to the NULL pattern, every other byte incl. header symbolic)" unwind=3
hparse!(c18_parse_int_bool, Int, false, Bool, false, 45);
// @obl harness=c18_build_bool_int_n1 id=C18.build_layout[build:BigInt|Bool,Int/NULL] tier=thorough funcs="TupleBuilder::build,TupleBuilder::compute_initial_size,TupleBuilder::write_initial,Row::validate,Payload::alloc_aligned,DataType::write_to" bounds="stage A of 3 (A build -> bytes, B parse_last_version -> cursors = c18_parse_bool_int_n1, C value_with/key_with -> values = c18_read_*/c18_read_key); 1 key BigInt + values Bool, Int, value1 NULL; all value bits and xmin symbolic" unwind=4
hbuild!(c18_build_bool_int_n1, Bool, false, Int, true);
// @obl harness=c18_parse_bool_int_n1 id=C18.build_layout[parse:BigInt|Bool,Int/NULL] tier=quick funcs="TupleReader::parse_last_version,TupleReader::check_null,TupleHeader::read_from,DataTypeKind::deserialize" bounds="stage B of 3; any 41-byte 8-aligned buffer of the shape's layout (bitmap byte fixed to the NULL pattern, every other byte incl. header symbolic)" unwind=3
hparse!(c18_parse_bool_int_n1, Bool, false, Int, true, 41);
// @obl harness=c18_build_bool_int id=C18.build_layout[build:BigInt|Bool,Int] native=c18_bool_column_followed_by_value tier=quick funcs="TupleBuilder::build,TupleBuilder::compute_initial_size,TupleBuilder::write_initial,Row::validate,Payload::alloc_aligned,DataType::write_to" bounds="stage A of 3 (A build -> bytes, B parse_last_version -> cursors = c18_parse_bool_int, C value_with/key_with -> values = c18_read_*/c18_read_key); 1 key BigInt + values Bool, Int, no NULL; all value bits and xmin symbolic" unwind=4
hbuild!(c18_build_bool_int, Bool, false, Int, false);
// @obl harness=c18_parse_bool_int id=C18.build_layout[parse:BigInt|Bool,Int] tier=quick funcs="TupleReader::parse_last_version,TupleReader::check_null,TupleHeader::read_from,DataTypeKind::deserialize" bounds="stage B of 3; any 48-byte 8-aligned buffer of the shape's layout (bitmap byte fixed to the NULL pattern, every other byte incl. header symbolic)" unwind=3
hparse!(c18_parse_bool_int, Bool, false, Int, false, 48);
// @obl harness=c18_read_bigint id=C18.build_layout[read:BigInt] tier=quick funcs="TupleRef::value_with,TupleRef::is_null_with,TupleRef::null_bitmap_with,TupleReader::check_null,Schema::value,DataTypeKind::deserialize" bounds="stage C of 3; schema BigInt|BigInt,BigInt; any 72-byte 8-aligned buffer, any bitmap byte, value index 0 or 1, any recorded cursors in 40..=56 (covers every layout of the family)" unwind=3
hread!(c18_read_bigint, BigInt);
// @obl harness=c18_read_int id=C18.build_layout[read:Int] tier=thorough funcs="TupleRef::value_with,TupleRef::is_null_with,TupleRef::null_bitmap_with,TupleReader::check_null,Schema::value,DataTypeKind::deserialize" bounds="stage C of 3; schema BigInt|Int,Int; any 72-byte 8-aligned buffer, any bitmap byte, value index 0 or 1, any recorded cursors in 40..=56 (covers every layout of the family)" unwind=3
hread!(c18_read_int, Int);
// @obl harness=c18_read_double id=C18.build_layout[read:Double] tier=quick funcs="TupleRef::value_with,TupleRef::is_null_with,TupleRef::null_bitmap_with,TupleReader::check_null,Schema::value,DataTypeKind::deserialize" bounds="stage C of 3; schema BigInt|Double,Double; any 72-byte 8-aligned buffer, any bitmap byte, value index 0 or 1, any recorded cursors in 40..=56 (covers every layout of the family)" unwind=3
hread!(c18_read_double, Double);
// @obl harness=c18_read_bool id=C18.build_layout[read:Bool] tier=quick funcs="TupleRef::value_with,TupleRef::is_null_with,TupleRef::null_bitmap_with,TupleReader::check_null,Schema::value,DataTypeKind::deserialize" bounds="stage C of 3; schema BigInt|Bool,Bool; any 72-byte 8-aligned buffer, any bitmap byte, value index 0 or 1, any recorded cursors in 40..=56 (covers every layout of the family)" unwind=3
hread!(c18_read_bool, Bool);
// @obl harness=c18_read_key id=C18.build_layout[read:key_BigInt] tier=quick funcs="TupleRef::key_with,Schema::key,DataTypeKind::deserialize" bounds="stage C of 3; schema BigInt|Int,Int; any 72-byte 8-aligned buffer, any recorded key cursor in 25..=40" unwind=3
#[kani::proof]
#[kani::unwind(3)]
fn c18_read_key() {
    let mut cols = std::mem::ManuallyDrop::new([col(K::BigInt), col(K::Int), col(K::Int)]);
    let schema = schema_over(&mut cols);
    let buf = A8::<72>(kani::any());
    let d: &[u8] = &buf.0;
    let kc: usize = kani::any();
    kani::assume(kc >= 25 && kc <= 40);
    let tr = TupleRef::new(d, layout_with(kc, 40, 44, 72));
    kani::cover!(true, "reach");
    match okf(tr.key_with(0, &schema)) {
        Some(DataTypeRef::BigInt(x)) => assert!(x.0 as u64 == rd_u64(d, al(kc, 8)), "key_reads_stored_bits"),
        _ => assert!(false, "key_with_fails"),
    }
    assert!(okf(tr.key_with(1, &schema)).is_none(), "key_index_out_of_range_is_err");
    std::mem::forget(tr);
}
// @obl harness=c18_column_datatype id=C18.build_layout[column_kind_accessor] tier=quick funcs="Column::datatype,DataTypeKind::from_repr" bounds="the four kinds of the family + Blob + Null"
#[kani::proof]
#[kani::unwind(3)]
fn c18_column_datatype() {
    kani::cover!(true, "reach");
    assert!(col(K::BigInt).datatype() == K::BigInt, "datatype_is_declared_kind");
    assert!(col(K::Int).datatype() == K::Int, "datatype_is_declared_kind");
    assert!(col(K::Double).datatype() == K::Double, "datatype_is_declared_kind");
    assert!(col(K::Bool).datatype() == K::Bool, "datatype_is_declared_kind");
    assert!(col(K::Blob).datatype() == K::Blob, "datatype_is_declared_kind");
    assert!(col(K::Null).datatype() == K::Null, "datatype_is_declared_kind");
}

// ---------------------------------------------------------------------------------------------
// One-delta tuples.  Schema Int | Int (1 key, 1 value); no NULL; one delta records the old value.
// The whole tuple is 64 bytes: CBMC keeps the bytes of an array apart (and structural bytes such as num_changes
// constant) only up to 64 elements; with the 88-byte tuple of a BigInt|BigInt,BigInt schema the loop bounds read
// from the tuple become symbolic and vaccum_with / parse_version do not finish.
// Reference layout, = what add_version_with writes for an update of value 0 (checked by c18_update_bytes):
//    0..24  TupleHeader (xmin 0..8, xmax 8..16, version 16)   24 bitmap (0)   28..32 key   32..36 value0
//   40..56  DeltaHeader (xmin 40..48, version 48)             56 num_changes (1)   57 old bitmap (0)
//   58      field index (0)                                   60..64 old value0 (aligned to 4)
// ---------------------------------------------------------------------------------------------
const D1_LEN: usize = 64;
const D1_LIVE: usize = 40; // delta_start = align8(data_end = 36)
fn put_u64(d: &mut [u8], o: usize, w: u64) {
    d[o] = w as u8;
    d[o + 1] = (w >> 8) as u8;
    d[o + 2] = (w >> 16) as u8;
    d[o + 3] = (w >> 24) as u8;
    d[o + 4] = (w >> 32) as u8;
    d[o + 5] = (w >> 40) as u8;
    d[o + 6] = (w >> 48) as u8;
    d[o + 7] = (w >> 56) as u8;
}
fn fresh_tuple(len: usize) -> Tuple {
    match okf(Payload::alloc_aligned(len)) {
        Some(data) => Tuple { data },
        None => {
            kani::assume(false);
            unreachable!()
        }
    }
}
/// the 8 words of any tuple of the one-delta layout: structural bytes fixed, every stamp and value symbolic
fn any_one_delta() -> [u64; 8] {
    let mut w: [u64; 8] = kani::any();
    w[3] &= !0xff; // byte 24: bitmap = 0
    w[7] = (w[7] & !0xff_ffff) | 1; // byte 56: num_changes = 1, byte 57: old bitmap = 0, byte 58: field index = 0
    w
}
/// the tuple holding these words.  Written byte by byte into a fresh payload (no memcpy: after a memcpy of symbolic
/// bytes CBMC treats every byte of the destination, structural ones included, as non-constant and the loop
/// bounds read from the tuple are unwound to the limit); the structural bytes are stored as literal constants.
fn one_delta_tuple(w: &[u64; 8]) -> Tuple {
    let mut t = fresh_tuple(D1_LEN);
    let d = t.effective_data_mut();
    put_u64(d, 0, w[0]);
    put_u64(d, 8, w[1]);
    put_u64(d, 16, w[2]);
    put_u64(d, 24, w[3]);
    put_u64(d, 32, w[4]);
    put_u64(d, 40, w[5]);
    put_u64(d, 48, w[6]);
    put_u64(d, 56, w[7]);
    d[24] = 0;
    d[56] = 1;
    d[57] = 0;
    d[58] = 0;
    t
}
fn live_same(d: &[u8], w: &[u64; 8]) -> bool {
    rd_u64(d, 0) == w[0] && rd_u64(d, 8) == w[1] && rd_u64(d, 16) == w[2] && rd_u64(d, 24) == w[3] && rd_u64(d, 32) == w[4]
}
fn delta_same(d: &[u8], w: &[u64; 8]) -> bool {
    rd_u64(d, 40) == w[5] && rd_u64(d, 48) == w[6] && rd_u64(d, 56) == w[7]
}
/// C13.trim_horizon on a one-delta tuple; `in_gap` selects the region of (delta xmin X0, live xmin X1, horizon h).
fn trim_stage(in_gap: bool) {
    let mut cols = std::mem::ManuallyDrop::new([col(K::Int), col(K::Int)]);
    let schema = schema_over(&mut cols);
    let w = any_one_delta();
    let h: u64 = kani::any();
    let (x1, x0) = (w[0], w[5]);
    // versions are created in transaction-id order: the creator of the old version is not younger than the updater
    kani::assume(x0 <= x1);
    // gap = the old version's creator is below the horizon but the updater is not: some snapshot at or above the
    // horizon may still have the updater in flight, i.e. needs the old version
    let gap = x0 < h && h <= x1;
    kani::assume(gap == in_gap);
    let mut t = one_delta_tuple(&w);
    kani::cover!(true, "reach");
    let freed = okf(t.vaccum_with(h, &schema));
    let d = t.effective_data();
    let kept = d.len() == D1_LEN;
    assert!(freed.is_some(), "vacuum_ok");
    assert!(d.len() == D1_LEN || d.len() == D1_LIVE, "delta_kept_whole_or_removed_whole");
    assert!(freed == Some(D1_LEN - d.len()), "freed_is_size_difference");
    assert!(live_same(d, &w), "live_version_bytes_unchanged");
    if kept {
        assert!(delta_same(d, &w), "kept_delta_bytes_unchanged");
    }
    // the rule the code implements
    assert!(kept == (x0 >= h), "delta_kept_iff_its_xmin_at_or_above_horizon");
    // the rule the property needs: the old version is needed as long as some snapshot at or above the horizon may
    // not see the creator of the version that replaced it
    if x1 >= h {
        assert!(kept, "delta_kept_while_a_snapshot_at_or_above_horizon_may_need_it");
    } else {
        assert!(!kept, "delta_removed_when_no_snapshot_can_need_it");
    }
    std::mem::forget(t);
}
// @obl harness=c13_trim_horizon id=C13.trim_horizon[one_delta] also=C18 tier=quick funcs="Tuple::vaccum_with,TupleReader::parse_last_version,DeltaHeader::read_from,Payload::realloc,TupleReader::check_null,DataTypeKind::deserialize" bounds="schema Int|Int; any 64-byte tuple of the one-delta layout (all stamps and values symbolic), any horizon; delta xmin <= live xmin; EXCLUDES delta xmin < horizon <= live xmin (= c13_trim_horizon_gap)" assume="delta.xmin <= header.xmin (versions are created in transaction-id order)" stubs="Column::datatype -> Int (exact: all columns of the schema are Int, see c18_column_datatype)" unwind=2
#[kani::proof]
#[kani::unwind(2)]
#[kani::stub(crate::schema::base::Column::datatype, stub_dt_int)]
fn c13_trim_horizon() {
    trim_stage(false);
}
// @obl harness=c13_trim_horizon_gap id=C13.trim_horizon[one_delta/old_xmin_<_horizon_<=_new_xmin] tier=off funcs="Tuple::vaccum_with" bounds="as c13_trim_horizon, restricted to delta xmin < horizon <= live xmin" assume="delta.xmin <= header.xmin" stubs="Column::datatype -> Int (exact for this schema)" unwind=2
#[kani::proof]
#[kani::unwind(2)]
#[kani::stub(crate::schema::base::Column::datatype, stub_dt_int)]
fn c13_trim_horizon_gap() {
    trim_stage(true);
}
// The same tuple when the superseded version held NULL in the updated column: the delta records the field index and
// its bit in the old-version bitmap, and no value bytes (write_delta: `if !val.is_null() { write }`): 59 bytes.
const D1N_LEN: usize = 59;
fn trim_stage_null_old() {
    let mut cols = std::mem::ManuallyDrop::new([col(K::Int), col(K::Int)]);
    let schema = schema_over(&mut cols);
    let w = any_one_delta();
    let h: u64 = kani::any();
    let (x1, x0) = (w[0], w[5]);
    kani::assume(x0 <= x1);
    kani::assume(!(x0 < h && h <= x1));
    let mut t = fresh_tuple(D1N_LEN);
    {
        let d = t.effective_data_mut();
        put_u64(d, 0, w[0]);
        put_u64(d, 8, w[1]);
        put_u64(d, 16, w[2]);
        put_u64(d, 24, w[3]);
        put_u64(d, 32, w[4]);
        put_u64(d, 40, w[5]);
        put_u64(d, 48, w[6]);
        d[24] = 0;
        d[56] = 1; // one change
        d[57] = 1; // old-version bitmap: value 0 was NULL
        d[58] = 0; // field index 0, no value bytes follow
    }
    kani::cover!(true, "reach");
    let freed = okf(t.vaccum_with(h, &schema));
    let d = t.effective_data();
    let kept = d.len() == D1N_LEN;
    assert!(freed.is_some(), "vacuum_ok");
    assert!(d.len() == D1N_LEN || d.len() == D1_LIVE, "delta_kept_whole_or_removed_whole");
    assert!(freed == Some(D1N_LEN - d.len()), "freed_is_size_difference");
    assert!(live_same(d, &w), "live_version_bytes_unchanged");
    if kept {
        assert!(rd_u64(d, 40) == w[5] && rd_u64(d, 48) == w[6] && d[56] == 1 && d[57] == 1 && d[58] == 0, "kept_delta_bytes_unchanged");
    }
    assert!(kept == (x0 >= h), "delta_kept_iff_its_xmin_at_or_above_horizon");
    std::mem::forget(t);
}
// @obl harness=c13_trim_horizon_null_old id=C13.trim_horizon[one_delta/old_value_NULL] also=C18 tier=quick funcs="Tuple::vaccum_with,TupleReader::parse_last_version,DeltaHeader::read_from,TupleReader::check_null" bounds="schema Int|Int; any 59-byte tuple whose single delta records a NULL old value (field index + bitmap bit, no value bytes), all stamps and the live value symbolic, any horizon; EXCLUDES delta xmin < horizon <= live xmin" assume="delta.xmin <= header.xmin" stubs="Column::datatype -> Int (exact for this schema)" unwind=2
#[kani::proof]
#[kani::unwind(2)]
#[kani::stub(crate::schema::base::Column::datatype, stub_dt_int)]
fn c13_trim_horizon_null_old() {
    trim_stage_null_old();
}
// @obl harness=c13_trim_horizon_nostub id=C13.trim_horizon[one_delta/real_Column::datatype] tier=thorough funcs="Tuple::vaccum_with,TupleReader::parse_last_version,Column::datatype,DataTypeKind::deserialize" bounds="as c13_trim_horizon but without the Column::datatype stub (every kind arm explored)" assume="delta.xmin <= header.xmin" unwind=2
#[kani::proof]
#[kani::unwind(2)]
fn c13_trim_horizon_nostub() {
    trim_stage(false);
}

// ---------------------------------------------------------------------------------------------
// 4. update round trip.  `Tuple::add_version_with` itself cannot be driven by Kani here (see the note at the end of
// this file); its encoder half (the write helpers it calls, in its order) and its decoder half (parse_version
// + value_with) are checked against the SAME reference layout (the 64-byte one-delta layout above):
//   c18_update_write_*  : calculate_new_tuple_size = bytes written; bytes = reference layout
//   c18_update_read_*   : on ANY tuple of that layout parse_version(old) + value_with give the old value / NULL,
//                         parse_version(current) + value_with give the new value
// ---------------------------------------------------------------------------------------------
fn int_of(x: u32) -> DataType {
    DataType::Int(Int32(x as i32))
}
fn some_usize(r: TupleResult<usize>) -> usize {
    match okf(r) {
        Some(c) => c,
        None => {
            assert!(false, "write_helper_fails");
            0
        }
    }
}
/// the write helpers of add_version_with, called in its order, for: key k, new value `newv`, old value `old` or NULL
fn update_write_stage(old_null: bool) {
    let (k, old, newv): (u32, u32, u32) = (kani::any(), kani::any(), kani::any());
    let old_xmin: u64 = kani::any();
    let old_version: u8 = kani::any();
    let old_val = || if old_null { DataType::Null } else { int_of(old) };
    let keys = [int_of(k)];
    let new_values = [int_of(newv)];
    let changed = [(0u8, old_val())];
    let all_old = [old_val()];
    let end = if old_null { 59 } else { 64 };
    kani::cover!(true, "reach");
    assert!(Tuple::calculate_new_tuple_size(&keys, &new_values, &changed, 0, 1) == end, "calculated_size_is_reference_size");
    let mut buf = A8::<64>([0xAA; 64]);
    let c = Tuple::write_null_bitmap(&mut buf.0[..end], TupleHeader::SIZE, &new_values, 1);
    assert!(c == 25, "bitmap_cursor");
    let c = some_usize(Tuple::write_data_items(&mut buf.0[..end], c, &keys));
    assert!(c == 32, "keys_cursor");
    let c = some_usize(Tuple::write_non_null_items(&mut buf.0[..end], c, &new_values));
    assert!(c == 36, "values_cursor");
    let c = some_usize(Tuple::write_delta(&mut buf.0[..end], c, old_version, old_xmin, &changed, &all_old, 1));
    assert!(c == end, "bytes_written_is_calculated_size");
    let d = &buf.0;
    assert!(d[24] == 0, "live_bitmap_no_null");
    assert!(rd_u32(d, 28) == k, "key_bytes_at_28");
    assert!(rd_u32(d, 32) == newv, "new_value_bytes_at_32");
    assert!(rd_u64(d, 40) == old_xmin, "delta_xmin_is_old_version_creator");
    assert!(d[48] == old_version, "delta_version_is_old_version");
    assert!(d[56] == 1, "delta_num_changes_1");
    assert!(d[57] == old_null as u8, "delta_bitmap_is_old_null_pattern");
    assert!(d[58] == 0, "delta_field_index_0");
    if !old_null {
        assert!(rd_u32(d, 60) == old, "old_value_bytes_at_60");
    }
}
// @obl harness=c18_update_write id=C18.update_roundtrip[write:Int|Int] tier=quick funcs="Tuple::calculate_new_tuple_size,Tuple::write_null_bitmap,Tuple::write_data_items,Tuple::write_non_null_items,Tuple::write_delta,DeltaHeader::write_to,TupleBuilder::set_null_bit,DataType::write_to" bounds="encoder half of add_version_with (its write helpers in its order; NOT add_version_with itself); schema Int|Int, one changed value, old and new non-NULL, no older deltas; all values and stamps symbolic" unwind=3
#[kani::proof]
#[kani::unwind(3)]
fn c18_update_write() {
    update_write_stage(false);
}
// @obl harness=c18_update_write_oldnull id=C18.update_roundtrip[write:Int|Int/old_NULL] tier=thorough funcs="Tuple::calculate_new_tuple_size,Tuple::write_null_bitmap,Tuple::write_data_items,Tuple::write_non_null_items,Tuple::write_delta" bounds="as c18_update_write with the old value NULL (delta carries only the bitmap)" unwind=3
#[kani::proof]
#[kani::unwind(3)]
fn c18_update_write_oldnull() {
    update_write_stage(true);
}
/// the tuple of the one-delta layout whose old value is NULL (59 bytes: no value bytes after the field index)
fn one_delta_null_tuple(w: &[u64; 8]) -> Tuple {
    let mut t = fresh_tuple(59);
    let d = t.effective_data_mut();
    put_u64(d, 0, w[0]);
    put_u64(d, 8, w[1]);
    put_u64(d, 16, w[2]);
    put_u64(d, 24, w[3]);
    put_u64(d, 32, w[4]);
    put_u64(d, 40, w[5]);
    put_u64(d, 48, w[6]);
    d[24] = 0;
    d[56] = 1;
    d[57] = 1;
    d[58] = 0;
    t
}
fn int_ref(r: Option<DataTypeRef<'_>>) -> Option<u32> {
    match r {
        Some(DataTypeRef::Int(x)) => Some(x.0 as u32),
        _ => None,
    }
}
fn update_read_stage(old_null: bool) {
    let mut cols = std::mem::ManuallyDrop::new([col(K::Int), col(K::Int)]);
    let schema = schema_over(&mut cols);
    let w = any_one_delta();
    let t = if old_null { one_delta_null_tuple(&w) } else { one_delta_tuple(&w) };
    let d = t.effective_data();
    let (current, old) = (w[2] as u8, w[6] as u8);
    kani::assume(old < current);
    let reader = TupleReader::from_schema(&schema);
    kani::cover!(true, "reach");
    match okf(reader.parse_version(d, old)) {
        Some(l) => {
            assert!(l.version == old, "old_layout_version");
            assert!(l.version_xmin == w[5], "old_layout_xmin_is_delta_xmin");
            assert!(l.version_xmax == Some(w[0]), "old_layout_xmax_is_successor_xmin");
            assert!(l.null_bitmap_start == 57, "old_layout_bitmap_is_delta_bitmap");
            assert!(l.key_offsets.len() == 1 && l.key_offsets[0] == 25, "old_layout_key_cursor");
            let tr = TupleRef::new(d, l);
            match okf(tr.value_with(0, &schema)) {
                Some(DataTypeRef::Null) => assert!(old_null, "old_value_null_only_if_flagged"),
                Some(DataTypeRef::Int(x)) => assert!(!old_null && x.0 as u32 == (w[7] >> 32) as u32, "old_value_reads_delta_bytes"),
                _ => assert!(false, "old_value_with_fails"),
            }
            assert!(int_ref(okf(tr.key_with(0, &schema))) == Some((w[3] >> 32) as u32), "old_version_key_unchanged");
            std::mem::forget(tr);
        }
        None => assert!(false, "parse_old_version_fails"),
    }
    std::mem::forget(t);
}
fn update_read_live_stage() {
    let mut cols = std::mem::ManuallyDrop::new([col(K::Int), col(K::Int)]);
    let schema = schema_over(&mut cols);
    let w = any_one_delta();
    let t = one_delta_tuple(&w);
    let d = t.effective_data();
    let current = w[2] as u8;
    let above: u8 = kani::any();
    kani::assume(above > current);
    let reader = TupleReader::from_schema(&schema);
    kani::cover!(true, "reach");
    match okf(reader.parse_version(d, current)) {
        Some(l) => {
            assert!(l.version == current && l.version_xmin == w[0], "live_layout_stamps");
            assert!(l.null_bitmap_start == 24 && l.data_end == 36, "live_layout_extent");
            let tr = TupleRef::new(d, l);
            assert!(int_ref(okf(tr.value_with(0, &schema))) == Some(w[4] as u32), "live_value_reads_new_bytes");
            std::mem::forget(tr);
        }
        None => assert!(false, "parse_current_version_fails"),
    }
    assert!(okf(reader.parse_version(d, above)).is_none(), "version_above_current_is_err");
    std::mem::forget(t);
}
// @obl harness=c18_update_read_old id=C18.update_roundtrip[read_old:Int|Int] tier=quick funcs="TupleReader::parse_version,TupleReader::parse_last_version,DeltaHeader::read_from,TupleRef::value_with,TupleRef::key_with,TupleReader::check_null" bounds="decoder half; any 64-byte tuple of the one-delta layout (old value non-NULL), delta version < header version; all stamps/values symbolic" stubs="Column::datatype -> Int (exact: all columns of the schema are Int, see c18_column_datatype)" unwind=2
#[kani::proof]
#[kani::unwind(2)]
#[kani::stub(crate::schema::base::Column::datatype, stub_dt_int)]
fn c18_update_read_old() {
    update_read_stage(false);
}
// @obl harness=c18_update_read_oldnull id=C18.update_roundtrip[read_old:Int|Int/old_NULL] tier=thorough funcs="TupleReader::parse_version,TupleRef::value_with,TupleReader::check_null" bounds="decoder half; any 59-byte tuple of the one-delta layout whose old value is NULL" stubs="Column::datatype -> Int (exact for this schema)" unwind=2
#[kani::proof]
#[kani::unwind(2)]
#[kani::stub(crate::schema::base::Column::datatype, stub_dt_int)]
fn c18_update_read_oldnull() {
    update_read_stage(true);
}
// @obl harness=c18_update_read_live id=C18.update_roundtrip[read_live:Int|Int] tier=thorough funcs="TupleReader::parse_version,TupleReader::parse_last_version,TupleRef::value_with" bounds="decoder half; any 64-byte tuple of the one-delta layout: target = header version gives the new value, target > header version is an error" stubs="Column::datatype -> Int (exact for this schema)" unwind=2
#[kani::proof]
#[kani::unwind(2)]
#[kani::stub(crate::schema::base::Column::datatype, stub_dt_int)]
fn c18_update_read_live() {
    update_read_live_stage();
}
// root cause of c18_build_bool_int, isolated: Bool::write_to needs `writer[cursor..]` to be exactly one byte long
// @obl harness=c18_bool_write_mid_buffer id=C18.value_codec[Bool/not_the_last_byte] native=c18_bool_column_followed_by_value tier=quick funcs="DataType::write_to,Bool::write_to" bounds="8-byte buffer, any cursor < 7 (at least one byte follows the value), both values"
#[kani::proof]
#[kani::unwind(3)]
fn c18_bool_write_mid_buffer() {
    let v: bool = kani::any();
    let c: usize = kani::any();
    kani::assume(c < 7);
    let mut buf = [0u8; 8];
    kani::cover!(true, "reach");
    let r = okf(DataType::Bool(Bool(v)).write_to(&mut buf, c));
    assert!(r == Some(c + 1) && buf[c] == v as u8, "bool_written_at_cursor");
}

// ---------------------------------------------------------------------------------------------
// NOT covered here (measured, not assumed):
//  * `Tuple::add_version_with` as a whole (C18.update_roundtrip end-to-end, C16.version_bump `old_version + 1`,
//    the header-xmin stamp of C03.update_stamp).  Two independent blockers under Kani 0.68 / CBMC 6.11:
//    (1) its `modified: &HashMap<usize, DataType>` argument: one `insert` into a std HashMap (fixed-key RandomState)
//        does not finish (> 900 s; hashbrown probe loop x 16-lane simd_bitmask model over a 148-byte heap table whose
//        control bytes CBMC does not keep constant); generic HashMap methods cannot be stubbed (guide, item 8);
//    (2) the size it passes to `Payload::alloc_aligned` is computed from values that went through `?`
//        (parse_last_version's cursor, to_owned() of decoded values); CBMC no longer sees them as constants, the
//        new payload becomes an array of symbolic size and the SAT conversion does not finish (symex 20 s, then
//        "converting SSA" > 9 min on the probe that replays the first half of the function without the HashMap).
//    These stay obligations of the MIR->SMT engine (DESIGN: C03.update_stamp, C16.version_bump).  The encoder and
//    decoder halves are checked separately above (c18_update_write*, c18_update_read*).
// ---------------------------------------------------------------------------------------------
