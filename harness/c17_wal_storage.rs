// Kani harnesses (child module of crates/axmos-db/src/storage/wal.rs).  See /verif/HARNESS_GUIDE.md
// C17 — record / block layout: OwnedRecord -> WalBlock::try_push -> RecordRef::from_raw is the identity.
#![allow(unused_imports, dead_code, clippy::all)]
use super::*;
use crate::storage::{WalOps, Writable};

/// block size used by every WAL harness: the smallest size `WalBlock::alloc` accepts (MIN_WAL_BLOCK_SIZE)
pub(crate) const BS: usize = 4096;
/// upper bound of `used_bytes` in a `WalBlock` of size BS (`available_space` subtracts the header twice)
pub(crate) const WB_CAP: usize = BS - 2 * BLOCK_HEADER_SIZE;
/// same for block zero
pub(crate) const BZ_CAP: usize = BS - 2 * mem::size_of::<BlockZeroHeader>();

fn okf<T, E>(r: Result<T, E>) -> Option<T> {
    match r {
        Ok(v) => Some(v),
        Err(e) => {
            std::mem::forget(e);
            None
        }
    }
}

pub(crate) fn any_record_type() -> RecordType {
    let k: u8 = kani::any();
    kani::assume(k < 10);
    match k {
        0 => RecordType::Begin,
        1 => RecordType::Commit,
        2 => RecordType::Abort,
        3 => RecordType::End,
        4 => RecordType::Update,
        5 => RecordType::Delete,
        6 => RecordType::Insert,
        7 => RecordType::Create,
        8 => RecordType::Drop,
        _ => RecordType::Alter,
    }
}

/// reference model of the on-disk record size: header + payload rounded up so that the whole is a multiple of 8
fn model_total(u: usize, r: usize) -> usize {
    let raw = RECORD_HEADER_SIZE + u + r;
    let rem = raw % 8;
    if rem == 0 { raw } else { raw + (8 - rem) }
}

fn bytes_eq(a: &[u8], b: &[u8]) -> bool {
    if a.len() != b.len() {
        return false;
    }
    let mut i = 0;
    while i < a.len() {
        if a[i] != b[i] {
            return false;
        }
        i += 1;
    }
    true
}

// @obl harness=c17_layout_consts id=C17.record_layout tier=quick funcs="RecordHeader,BlockHeader,BlockZeroHeader,WalHeader" bounds="none (constants)"
#[kani::proof]
#[kani::unwind(2)]
fn c17_layout_consts() {
    kani::cover!(true, "reach");
    assert!(RECORD_HEADER_SIZE % WAL_RECORD_ALIGNMENT == 0, "record_header_size_aligned");
    assert!(BLOCK_HEADER_SIZE % WAL_RECORD_ALIGNMENT == 0, "block_header_size_aligned");
    assert!(mem::size_of::<BlockZeroHeader>() % WAL_RECORD_ALIGNMENT == 0, "block_zero_header_size_aligned");
    assert!(mem::size_of::<BlockZeroHeader>() == BLOCK_HEADER_SIZE + WAL_HEADER_SIZE, "block_zero_header_is_block_plus_wal_header");
    assert!(MIN_WAL_BLOCK_SIZE == BS, "min_block_size_is_4096");
    assert!(mem::align_of::<RecordHeader>() <= WAL_RECORD_ALIGNMENT, "record_header_alignment_fits_record_alignment");
}

// @obl harness=c17_padded_size id=C17.record_padding tier=quick funcs="OwnedRecord::compute_padded_size" bounds="every payload size 0..=131070 (two u16 lengths)"
#[kani::proof]
#[kani::unwind(2)]
fn c17_padded_size() {
    let n: usize = kani::any();
    kani::assume(n <= 2 * (u16::MAX as usize));
    kani::cover!(true, "reach");
    let p = OwnedRecord::compute_padded_size(n); // built-in checks: no underflow / overflow
    assert!(p >= n, "padded_size_not_smaller_than_payload");
    assert!(p < n + WAL_RECORD_ALIGNMENT, "padded_size_adds_less_than_alignment");
    assert!((p + RECORD_HEADER_SIZE) % WAL_RECORD_ALIGNMENT == 0, "padded_record_multiple_of_alignment");
}

/// used_bytes accessor differs between the two block kinds
macro_rules! used_bytes_mut {
    (WalBlock, $b:ident) => {
        $b.metadata_mut().used_bytes
    };
    (BlockZero, $b:ident) => {
        $b.metadata_mut().block_header.used_bytes
    };
}

/// OwnedRecord::new -> try_push into a block filled up to `$off` -> RecordRef at that offset.
/// The fill level is a concrete shape (a symbolic write offset into the 4 KiB block costs > 200 s); the
/// arithmetic for *every* fill level is covered by `c17_available_space`.
macro_rules! hround {
    ($name:ident, $blk:ident, $off:expr, $u:expr, $r:expr) => {
        #[kani::proof]
        #[kani::unwind(12)]
        fn $name() {
            let lsn: Lsn = kani::any();
            let tid: TransactionId = kani::any();
            let prev: Option<Lsn> = kani::any();
            let oid: Option<ObjectId> = kani::any();
            let rid: Option<RowId> = kani::any();
            let rt = any_record_type();
            let undo: [u8; $u] = kani::any();
            let redo: [u8; $r] = kani::any();
            let off: usize = $off;
            let want = model_total($u, $r);
            let mut blk = <$blk>::alloc(kani::any(), BS);
            used_bytes_mut!($blk, blk) = off as u64;
            kani::cover!(true, "reach");

            let rec = OwnedRecord::new(lsn, tid, prev, oid, rid, rt, &undo, &redo);
            let total = rec.total_size();
            assert!(total == want, "record_total_size_is_header_plus_padded_payload");
            assert!(total % 8 == 0, "record_total_size_multiple_of_8");
            assert!(rec.metadata().total_size as usize == total, "header_total_size_matches");
            assert!(bytes_eq(rec.undo_payload(), &undo) && bytes_eq(rec.redo_payload(), &redo), "owned_record_payloads");

            let pushed = okf(blk.try_push(lsn, rec));
            assert!(pushed == Some(lsn), "try_push_accepts_record_that_fits");
            assert!(blk.used_bytes() == off + want, "used_bytes_advance_by_record_size");
            assert!(blk.used_bytes() <= blk.data().len(), "record_inside_block_data");
            assert!(blk.last_lsn() == Some(lsn), "block_last_lsn_is_record_lsn");

            let rr = blk.record(off as u64);
            let h = rr.metadata();
            assert!(h.lsn == lsn, "roundtrip_lsn");
            assert!(h.tid == tid, "roundtrip_tid");
            assert!(h.prev_lsn == prev, "roundtrip_prev_lsn");
            assert!(h.object_id == oid, "roundtrip_object_id");
            assert!(h.row_id == rid, "roundtrip_row_id");
            assert!(h.log_type == rt, "roundtrip_kind");
            assert!(h.undo_len as usize == $u && h.redo_len as usize == $r, "roundtrip_payload_lengths");
            assert!(rr.total_size() == want, "roundtrip_total_size");
            assert!(rr.lsn() == lsn && rr.tid() == tid && rr.log_type() == rt, "roundtrip_accessors");
            assert!(bytes_eq(rr.undo_payload(), &undo), "roundtrip_undo_payload");
            assert!(bytes_eq(rr.redo_payload(), &redo), "roundtrip_redo_payload");
            std::mem::forget(blk);
        }
    };
}

// @obl harness=c17_round_0_0 id=C17.record_roundtrip[0/0@0] tier=quick funcs="OwnedRecord::new,WalOps::try_push,WalOps::record,RecordRef::from_raw" bounds="block 4096, empty block; undo 0 redo 0 bytes; all lsn/tid/prev/object/row ids, all 10 kinds"
hround!(c17_round_0_0, WalBlock, 0, 0, 0);
// @obl harness=c17_round_1_0 id=C17.record_roundtrip[1/0@8] tier=thorough funcs="OwnedRecord::new,WalOps::try_push,WalOps::record,RecordRef::from_raw" bounds="block 4096, fill level 8; undo 1 redo 0 bytes (values symbolic); all ids, all kinds"
hround!(c17_round_1_0, WalBlock, 8, 1, 0);
// @obl harness=c17_round_0_7 id=C17.record_roundtrip[0/7@last] tier=thorough funcs="OwnedRecord::new,WalOps::try_push,WalOps::record,RecordRef::from_raw" bounds="block 4096, fill level such that the record fits exactly; undo 0 redo 7 bytes; all ids, all kinds"
hround!(c17_round_0_7, WalBlock, WB_CAP - 88, 0, 7);
// @obl harness=c17_round_7_1 id=C17.record_roundtrip[7/1@80] tier=quick funcs="OwnedRecord::new,WalOps::try_push,WalOps::record,RecordRef::from_raw" bounds="block 4096, fill level 80; undo 7 redo 1 bytes; all ids, all kinds"
hround!(c17_round_7_1, WalBlock, 80, 7, 1);
// @obl harness=c17_round_8_9 id=C17.record_roundtrip[8/9@1000] tier=thorough funcs="OwnedRecord::new,WalOps::try_push,WalOps::record,RecordRef::from_raw" bounds="block 4096, fill level 1000; undo 8 redo 9 bytes; all ids, all kinds"
hround!(c17_round_8_9, WalBlock, 1000, 8, 9);
// @obl harness=c17_round_9_8 id=C17.record_roundtrip[9/8@last] tier=thorough funcs="OwnedRecord::new,WalOps::try_push,WalOps::record,RecordRef::from_raw" bounds="block 4096, fill level such that the record fits exactly; undo 9 redo 8 bytes; all ids, all kinds"
hround!(c17_round_9_8, WalBlock, WB_CAP - 104, 9, 8);
// @obl harness=c17_round_9_9 id=C17.record_roundtrip[9/9@2048] tier=thorough funcs="OwnedRecord::new,WalOps::try_push,WalOps::record,RecordRef::from_raw" bounds="block 4096, fill level 2048; undo 9 redo 9 bytes; all ids, all kinds"
hround!(c17_round_9_9, WalBlock, 2048, 9, 9);
// @obl harness=c17_round_bz_7_8 id=C17.record_roundtrip[block0:7/8@last] tier=quick funcs="OwnedRecord::new,WalOps::try_push,WalOps::record,RecordRef::from_raw" bounds="block zero of 4096 bytes, fill level such that the record fits exactly; undo 7 redo 8 bytes; all ids, all kinds"
hround!(c17_round_bz_7_8, BlockZero, BZ_CAP - 96, 7, 8);

// @obl harness=c17_available_space id=C17.block_space_arith tier=quick funcs="AvailableSpace::available_space,MemBlock::usable_space,MemBlock::capacity" bounds="block 4096 (WalBlock and BlockZero), every used_bytes value 0..=capacity, every record size 80..=4096" assume="used_bytes <= capacity (try_push only ever adds a size it compared against available_space)"
#[kani::proof]
#[kani::unwind(2)]
fn c17_available_space() {
    let used: usize = kani::any();
    let size: usize = kani::any();
    kani::assume(size >= RECORD_HEADER_SIZE && size <= BS);
    let mut blk = WalBlock::alloc(kani::any(), BS);
    let mut bz = BlockZero::alloc(0, BS);
    kani::assume(used <= WB_CAP);
    blk.metadata_mut().used_bytes = used as u64;
    bz.metadata_mut().block_header.used_bytes = used as u64;
    kani::cover!(true, "reach");
    // a record is accepted iff available_space() >= size; then it must lie inside the data area
    let a = blk.available_space();
    assert!(a == WB_CAP - used, "available_space_is_capacity_minus_used");
    if a >= size {
        assert!(used + size <= blk.data().len(), "accepted_record_inside_block_data");
        assert!(used + size <= WB_CAP, "used_bytes_stay_within_capacity");
    }
    if used <= BZ_CAP {
        let z = bz.available_space();
        assert!(z == BZ_CAP - used, "available_space_is_capacity_minus_used");
        if z >= size {
            assert!(used + size <= bz.data().len(), "accepted_record_inside_block_data");
        }
    }
    assert!(blk.data().len() == BS - BLOCK_HEADER_SIZE && bz.data().len() == BS - mem::size_of::<BlockZeroHeader>(), "data_area_is_block_minus_header");
    std::mem::forget(blk);
    std::mem::forget(bz);
}

/// try_push at the boundary: the record (96 bytes) fits exactly / misses by one alignment unit / block full
macro_rules! hfull {
    ($name:ident, $off:expr) => {
        #[kani::proof]
        #[kani::unwind(12)]
        fn $name() {
            let lsn: Lsn = kani::any();
            let payload: [u8; 9] = kani::any();
            let off: usize = $off;
            let mut blk = WalBlock::alloc(kani::any(), BS);
            blk.metadata_mut().used_bytes = off as u64;
            let first: Option<Lsn> = kani::any();
            let last: Option<Lsn> = kani::any();
            blk.metadata_mut().block_first_lsn = first;
            blk.metadata_mut().block_last_lsn = last;
            kani::cover!(true, "reach");
            let rec = OwnedRecord::new(lsn, kani::any(), None, None, None, RecordType::Insert, &[], &payload);
            let size = rec.total_size();
            let fits = off + size <= WB_CAP;
            let pushed = okf(blk.try_push(lsn, rec));
            if fits {
                assert!(pushed == Some(lsn), "try_push_accepts_record_that_fits");
                assert!(blk.used_bytes() == off + size, "used_bytes_advance_by_record_size");
                assert!(blk.start_lsn() == if first.is_none() { Some(lsn) } else { first }, "block_first_lsn_set_once");
                assert!(blk.last_lsn() == Some(lsn), "block_last_lsn_is_record_lsn");
            } else {
                assert!(pushed.is_none(), "try_push_rejects_record_that_does_not_fit");
                assert!(blk.used_bytes() == off, "rejected_push_leaves_used_bytes");
                assert!(blk.start_lsn() == first && blk.last_lsn() == last, "rejected_push_leaves_lsns");
            }
            std::mem::forget(blk);
        }
    };
}
// @obl harness=c17_try_push_exact id=C17.block_full_rejected[exact_fit] tier=thorough funcs="WalOps::try_push" bounds="block 4096, fill level capacity-96, record of 96 bytes; first/last lsn of the block symbolic"
hfull!(c17_try_push_exact, WB_CAP - 96);
// @obl harness=c17_try_push_over id=C17.block_full_rejected[over_by_8] tier=quick funcs="WalOps::try_push" bounds="block 4096, fill level capacity-88, record of 96 bytes"
hfull!(c17_try_push_over, WB_CAP - 88);
// @obl harness=c17_try_push_full id=C17.block_full_rejected[full] tier=thorough funcs="WalOps::try_push" bounds="block 4096, fill level = capacity, record of 96 bytes"
hfull!(c17_try_push_full, WB_CAP);
