// host: lib.rs
// Native scenario for C16.operators_do_not_unwrap_fallible_results: a WHERE clause whose evaluation fails (not a
// boolean; a function applied to a value of the wrong type) fails the statement - through a table scan and through an
// index scan with a residual predicate - and leaves the worker alive.
use crate::{DBConfig, Database};

#[test]
fn failing_predicates_fail_the_statement_not_the_worker() {
    let dir = tempfile::TempDir::new().unwrap();
    let db = Database::create(dir.path().join("t.db"), DBConfig::default()).unwrap();
    db.execute("CREATE TABLE u (id BIGINT, email TEXT, age INT, UNIQUE(email))").unwrap();
    db.execute("CREATE TABLE p (id BIGINT, email TEXT, age INT)").unwrap();
    for t in ["u", "p"] {
        db.execute(&format!("INSERT INTO {t} VALUES (1, 'a@x', 30)")).unwrap();
        db.execute(&format!("INSERT INTO {t} VALUES (2, 'b@x', 40)")).unwrap();
    }
    for q in ["SELECT * FROM u WHERE email = 'a@x' AND email", "SELECT * FROM u WHERE email = 'a@x' AND LENGTH(age) > 1",
              "DELETE FROM u WHERE email = 'a@x' AND LENGTH(age) > 1", "SELECT * FROM p WHERE email", "SELECT * FROM p WHERE LENGTH(age) > 1",
              "SELECT * FROM p WHERE email = 'a@x' AND LENGTH(age) > 1"] {
        let r = std::panic::catch_unwind(std::panic::AssertUnwindSafe(|| db.execute(q).map(|_| ())));
        match r {
            Err(_) => panic!("`{q}` panicked in the caller"),
            Ok(Err(e)) => {
                let m = format!("{}", e);
                assert!(!m.contains("channel closed") && !m.contains("panicked"), "`{q}` killed the worker: {m}");
            }
            Ok(Ok(())) => {}
        }
    }
    assert_eq!(db.execute("SELECT id FROM u").unwrap().into_rows().unwrap().len(), 2, "table u changed / unusable afterwards");
}
