// Kani harnesses (child module of crates/axmos-db/src/runtime/ops/index_scan.rs).  See /verif/HARNESS_GUIDE.md
// C06 (index scan == table scan), half (a): `IndexScan::evaluate_bounds` (private associated fn, no `self`) against
// hand-built bounds for every (range_start | range_end) x (inclusive | exclusive) combination.
//   range_start bound {c, inclusive}  is tested with expected_ordering = Less    (see evaluate_index_predicate)
//   range_end   bound {c, inclusive}  is tested with expected_ordering = Greater
// Laws, for key value v and literal c:
//   start/exclusive <=> v > c    start/inclusive <=> v >= c    end/exclusive <=> v < c    end/inclusive <=> v <= c
//   start/inclusive && end/inclusive (what `col = c` produces) <=> v = c          NULL on either side => rejected
// Two oracles: (1) the DataType comparison operators, i.e. exactly what the table-scan Filter evaluates
// (`eval_binary_op`: `left > right` ...; C05.binop_delegates) - this is the C06 statement and holds at full width;
// (2) the mathematical order - holds where DataType's f64 comparison is exact (|v| <= 2^53), the complement region is
// isolated (same root cause as C19.cmp_matches_math / C05.binop[..][BigInt,BigInt/big]).
// Half (b), the `op -> (vector, inclusive)` mapping of FilterToIndexScanRule::collect_bounds, is in c06_rules.rs.
#![allow(unused_imports, dead_code, clippy::all)]
use super::*;
use crate::types::{DataType, Float64, Int32, Int64};

fn v_int() -> DataType {
    DataType::Int(Int32(kani::any()))
}
fn v_bigint() -> DataType {
    DataType::BigInt(Int64(kani::any()))
}
fn v_double() -> DataType {
    DataType::Double(Float64(kani::any()))
}
const P53: i128 = 1i128 << 53;
fn mathval(d: &DataType) -> Result<i128, f64> {
    match d {
        DataType::Int(v) => Ok(v.0 as i128),
        DataType::BigInt(v) => Ok(v.0 as i128),
        DataType::Double(v) => Err(v.0),
        _ => unreachable!(),
    }
}
fn in53(d: &DataType) -> bool {
    match mathval(d) {
        Ok(n) => n >= -P53 && n <= P53,
        Err(_) => true,
    }
}
fn cmp_int_f64(n: i128, x: f64) -> Option<Ordering> {
    if x.is_nan() {
        return None;
    }
    if x >= 18446744073709551616.0 {
        return Some(Ordering::Less);
    }
    if x <= -18446744073709551616.0 {
        return Some(Ordering::Greater);
    }
    let t = x.trunc();
    let ti = t as i128;
    if n < ti {
        Some(Ordering::Less)
    } else if n > ti {
        Some(Ordering::Greater)
    } else if x > t {
        Some(Ordering::Less)
    } else if x < t {
        Some(Ordering::Greater)
    } else {
        Some(Ordering::Equal)
    }
}
/// mathematical order of v relative to c (None: unordered, i.e. NaN)
fn mathcmp(a: &DataType, b: &DataType) -> Option<Ordering> {
    match (mathval(a), mathval(b)) {
        (Ok(x), Ok(y)) => Some(x.cmp(&y)),
        (Err(x), Err(y)) => x.partial_cmp(&y),
        (Ok(n), Err(x)) => cmp_int_f64(n, x),
        (Err(x), Ok(n)) => cmp_int_f64(n, x).map(|o| o.reverse()),
    }
}
/// the five bound tests for key v against literal c: (start_ex, start_in, end_ex, end_in, eq)
struct Tests {
    start_ex: bool,
    start_in: bool,
    end_ex: bool,
    end_in: bool,
    eq: bool,
}
fn run_tests(v: &DataType, c: &DataType) -> Tests {
    let row = Row::from(vec![v.clone()]);
    let ex = [IndexRangeBound { inclusive: false, value: c.clone(), col_idx: 0 }];
    let inc = [IndexRangeBound { inclusive: true, value: c.clone(), col_idx: 0 }];
    let t = Tests {
        start_ex: IndexScan::evaluate_bounds(&row, &ex, Ordering::Less),
        start_in: IndexScan::evaluate_bounds(&row, &inc, Ordering::Less),
        end_ex: IndexScan::evaluate_bounds(&row, &ex, Ordering::Greater),
        end_in: IndexScan::evaluate_bounds(&row, &inc, Ordering::Greater),
        // `col = c` pushes the same inclusive bound on both vectors; evaluate_index_predicate is their conjunction
        eq: IndexScan::evaluate_bounds(&row, &inc, Ordering::Less) && IndexScan::evaluate_bounds(&row, &inc, Ordering::Greater),
    };
    std::mem::forget(row);
    std::mem::forget(ex);
    std::mem::forget(inc);
    t
}
/// oracle (1): what the Filter operator computes for `v op c`
fn law_same_as_filter(t: &Tests, v: &DataType, c: &DataType) {
    assert!(t.start_ex == (v > c), "gt_bound_same_as_filter");
    assert!(t.start_in == (v >= c), "ge_bound_same_as_filter");
    assert!(t.end_ex == (v < c), "lt_bound_same_as_filter");
    assert!(t.end_in == (v <= c), "le_bound_same_as_filter");
    assert!(t.eq == (v == c), "eq_bounds_same_as_filter");
}
/// oracle (2): SQL semantics on the mathematical values
fn law_math(t: &Tests, m: Option<Ordering>) {
    let (lt, eq, gt) = (m == Some(Ordering::Less), m == Some(Ordering::Equal), m == Some(Ordering::Greater));
    assert!(t.start_ex == gt, "gt_bound_accepts_iff_v_gt_c");
    assert!(t.start_in == (gt || eq), "ge_bound_accepts_iff_v_ge_c");
    assert!(t.end_ex == lt, "lt_bound_accepts_iff_v_lt_c");
    assert!(t.end_in == (lt || eq), "le_bound_accepts_iff_v_le_c");
    assert!(t.eq == eq, "eq_bounds_accept_iff_v_eq_c");
}
macro_rules! hbounds {
    ($name:ident, $v:expr, $c:expr, |$x:ident, $y:ident| $pre:expr, $math:expr) => {
        #[kani::proof]
        #[kani::unwind(4)]
        fn $name() {
            let $x = $v;
            let $y = $c;
            kani::assume($pre);
            kani::cover!(true, "reach");
            let t = run_tests(&$x, &$y);
            law_same_as_filter(&t, &$x, &$y);
            if $math {
                law_math(&t, mathcmp(&$x, &$y));
            }
        }
    };
}
// @obl harness=c06_bounds_bigint_bigint id=C06.index_bounds[=,<,<=,>,>=][key_BigInt,literal_BigInt/53] tier=quick funcs="IndexScan::evaluate_bounds,DataType::partial_cmp" bounds="i64 key and literal within +-2^53; all four (side, inclusive) combinations and the = pair" unwind=4
hbounds!(c06_bounds_bigint_bigint, v_bigint(), v_bigint(), |v, c| in53(&v) && in53(&c), true);
// @obl harness=c06_bounds_int_int id=C06.index_bounds[=,<,<=,>,>=][key_Int,literal_Int] tier=quick funcs="IndexScan::evaluate_bounds,DataType::partial_cmp" bounds="all i32 keys and literals" unwind=4
hbounds!(c06_bounds_int_int, v_int(), v_int(), |v, c| true, true);
// @obl harness=c06_bounds_double_double id=C06.index_bounds[=,<,<=,>,>=][key_Double,literal_Double] tier=quick funcs="IndexScan::evaluate_bounds,DataType::partial_cmp" bounds="all f64 keys and literals (NaN never selected, -0.0 = 0.0)" unwind=4
hbounds!(c06_bounds_double_double, v_double(), v_double(), |v, c| true, true);
// @obl harness=c06_bounds_int_bigint id=C06.index_bounds[=,<,<=,>,>=][key_Int,literal_BigInt/53] tier=quick funcs="IndexScan::evaluate_bounds,DataType::partial_cmp" bounds="all i32 keys, i64 literal within +-2^53" unwind=4
hbounds!(c06_bounds_int_bigint, v_int(), v_bigint(), |v, c| in53(&c), true);
// @obl harness=c06_bounds_bigint_double id=C06.index_bounds[=,<,<=,>,>=][key_BigInt/53,literal_Double] tier=quick funcs="IndexScan::evaluate_bounds,DataType::partial_cmp" bounds="i64 key within +-2^53, every f64 literal (e.g. col > 2.5)" unwind=4
hbounds!(c06_bounds_bigint_double, v_bigint(), v_double(), |v, c| in53(&v), true);
// full width: the index path and the filter path agree even where both are inexact
// @obl harness=c06_bounds_bigint_full id=C06.index_bounds_same_as_filter[key_BigInt,literal_BigInt|Double] tier=quick funcs="IndexScan::evaluate_bounds,DataType::partial_cmp" bounds="all i64 keys; all i64 and all f64 literals" unwind=4
#[kani::proof]
#[kani::unwind(4)]
fn c06_bounds_bigint_full() {
    let (v, c, d) = (v_bigint(), v_bigint(), v_double());
    kani::cover!(true, "reach");
    let t = run_tests(&v, &c);
    law_same_as_filter(&t, &v, &c);
    let t = run_tests(&v, &d);
    law_same_as_filter(&t, &v, &d);
}
// region where the bound test (and the filter alike) deviates from the mathematical order
// @obl harness=c06_bounds_bigint_big id=C06.index_bounds[=,<,<=,>,>=][key_BigInt,literal_BigInt/big] tier=off funcs="IndexScan::evaluate_bounds,DataType::partial_cmp" bounds="i64 key / literal with some |x| > 2^53" unwind=4
#[kani::proof]
#[kani::unwind(4)]
fn c06_bounds_bigint_big() {
    let (v, c) = (v_bigint(), v_bigint());
    kani::assume(!(in53(&v) && in53(&c)));
    kani::cover!(true, "reach");
    let t = run_tests(&v, &c);
    law_math(&t, mathcmp(&v, &c));
}
// NULL key or NULL literal: never selected (v op NULL and NULL op c are UNKNOWN)
// @obl harness=c06_bounds_null id=C06.index_bounds[=,<,<=,>,>=][NULL_key_|_NULL_literal] tier=quick funcs="IndexScan::evaluate_bounds,DataType::partial_cmp" bounds="NULL key against BigInt / Double literal; BigInt key against NULL literal; NULL against NULL" unwind=4
#[kani::proof]
#[kani::unwind(4)]
fn c06_bounds_null() {
    kani::cover!(true, "reach");
    let n = DataType::Null;
    let none = |t: Tests| !t.start_ex && !t.start_in && !t.end_ex && !t.end_in && !t.eq;
    assert!(none(run_tests(&n, &v_bigint())), "null_key_never_selected");
    assert!(none(run_tests(&n, &v_double())), "null_key_never_selected");
    assert!(none(run_tests(&v_bigint(), &n)), "null_literal_never_selects");
    assert!(none(run_tests(&n, &n)), "null_literal_never_selects");
}
// several bounds: conjunction over the bounds, each tested on its own column; no bounds => accept
// @obl harness=c06_bounds_conjunction id=C06.index_bounds_conjunction[2_columns] tier=thorough funcs="IndexScan::evaluate_bounds" bounds="row of 2 Int keys (all i32), two Int bounds on columns 0 and 1 (any inclusive flags), range_start side (range_end runs the same loop, see the single-bound harnesses); empty bound list" unwind=3
#[kani::proof]
#[kani::unwind(3)]
fn c06_bounds_conjunction() {
    let (v0, v1, c0, c1): (i32, i32, i32, i32) = (kani::any(), kani::any(), kani::any(), kani::any());
    let (i0, i1): (bool, bool) = (kani::any(), kani::any());
    kani::cover!(true, "reach");
    let row = Row::from(vec![DataType::Int(Int32(v0)), DataType::Int(Int32(v1))]);
    let both = [
        IndexRangeBound { inclusive: i0, value: DataType::Int(Int32(c0)), col_idx: 0 },
        IndexRangeBound { inclusive: i1, value: DataType::Int(Int32(c1)), col_idx: 1 },
    ];
    let s = IndexScan::evaluate_bounds(&row, &both, Ordering::Less);
    assert!(s == ((v0 > c0 || (i0 && v0 == c0)) && (v1 > c1 || (i1 && v1 == c1))), "start_bounds_accept_iff_every_column_satisfies_its_bound");
    let empty: [IndexRangeBound; 0] = [];
    assert!(IndexScan::evaluate_bounds(&row, &empty, Ordering::Less), "no_bounds_accepts");
    std::mem::forget((row, both));
}
