"""Shared plumbing: scratch overlay of /repo's working tree, process helpers, evidence writer."""
import json, os, re, shlex, shutil, signal, subprocess, sys, tempfile, time

VERIF = os.path.abspath(os.path.join(os.path.dirname(__file__), "..", ".."))
REPO = os.environ.get("VERIF_REPO", "/repo")
CRATE_REL = "crates/axmos-db"
HARNESS_DIR = os.path.join(VERIF, "harness")
EVIDENCE_DIR = os.environ.get("VERIF_EVIDENCE_DIR", os.path.join(VERIF, "evidence"))
REPLAY_DIR = os.environ.get("VERIF_REPLAY_DIR", os.path.join(VERIF, "replays"))
KNOWN_FILE = os.path.join(VERIF, "known_findings.json")
NIGHTLY = "nightly"


def log(*a):
    print("[axv]", *a, file=sys.stderr, flush=True)


def base_env():
    e = dict(os.environ)
    e["CARGO_NET_OFFLINE"] = "true"
    e.pop("RUSTFLAGS", None)
    e["CARGO_TERM_COLOR"] = "never"
    return e


class Scratch:
    """A throw-away copy of /repo's *current working tree* (never /repo itself) plus build dirs."""

    def __init__(self, tag):
        root = os.environ.get("VERIF_SCRATCH", "/var/tmp")
        os.makedirs(root, exist_ok=True)
        self.dir = tempfile.mkdtemp(prefix=f"axv-{tag}-", dir=root)
        self.src = os.path.join(self.dir, "src")
        self.target = os.path.join(self.dir, "target")
        os.makedirs(self.src)
        subprocess.run(
            ["rsync", "-a", "--exclude", "/target", "--exclude", ".git", REPO + "/", self.src + "/"],
            check=True,
        )
        self.crate = os.path.join(self.src, CRATE_REL)
        self.injected = {}

    def inject(self, harness_file, host_rel, cfg="kani"):
        """Copy /verif/harness/<harness_file> into the scratch crate and declare it as a child module of
        <host_rel> (path relative to the crate's src/).  A child module sees its parent's private items."""
        if harness_file in self.injected:
            return self.injected[harness_file]
        vdir = os.path.join(self.crate, "src", "__verif")
        os.makedirs(vdir, exist_ok=True)
        dst = os.path.join(vdir, harness_file)
        shutil.copyfile(os.path.join(HARNESS_DIR, harness_file), dst)
        host = os.path.join(self.crate, "src", host_rel)
        modname = "__verif_" + os.path.splitext(harness_file)[0]
        with open(host, "a") as f:
            f.write(f'\n#[cfg({cfg})] #[path = "{dst}"] mod {modname};\n')
        self.injected[harness_file] = dst
        return dst

    def cleanup(self):
        if os.environ.get("VERIF_KEEP_SCRATCH"):
            log("keeping scratch", self.dir)
            return
        shutil.rmtree(self.dir, ignore_errors=True)


def module_path_of(host_rel, harness_file):
    """src-relative file path -> Rust module path of the injected child module."""
    p = host_rel[:-3]  # strip .rs
    parts = p.split("/")
    if parts[-1] in ("mod", "lib"):
        parts = parts[:-1]
    parts.append("__verif_" + os.path.splitext(harness_file)[0])
    return "::".join(parts)


def run(cmd, cwd=None, env=None, timeout=None, mem_gb=None, logfile=None):
    """Run a command in its own process group; kill the whole group on timeout.  Returns (rc, output)."""

    def pre():
        os.setsid()
        if mem_gb:
            import resource
            lim = int(mem_gb * (1 << 30))
            resource.setrlimit(resource.RLIMIT_AS, (lim, lim))

    t0 = time.time()
    out_f = open(logfile, "w") if logfile else subprocess.PIPE
    p = subprocess.Popen(cmd, cwd=cwd, env=env or base_env(), stdout=out_f, stderr=subprocess.STDOUT,
                         preexec_fn=pre, text=True, errors="replace")
    try:
        out, _ = p.communicate(timeout=timeout)
        rc = p.returncode
    except subprocess.TimeoutExpired:
        try:
            os.killpg(p.pid, signal.SIGKILL)
        except ProcessLookupError:
            pass
        out, _ = p.communicate()
        rc = -9
    if logfile:
        out_f.close()
        out = open(logfile, errors="replace").read()
    return rc, out or "", time.time() - t0


def load_known():
    if not os.path.exists(KNOWN_FILE):
        return {"findings": [], "fixed": []}
    return json.load(open(KNOWN_FILE))


def parse_obl_line(line):
    """`// @obl k=v k2="v with spaces"` -> dict"""
    body = line.split("@obl", 1)[1]
    d = {}
    for tok in shlex.split(body):
        if "=" in tok:
            k, v = tok.split("=", 1)
            d[k] = v
    return d


def tier_rank(t):
    return {"quick": 0, "thorough": 1, "off": 99}[t]
