// host: lib.rs
// Native scenario for C03.row_sources_read_through_snapshot: an index built AFTER a rollback reflects only what the
// snapshot sees (the rolled-back INSERT reserves no key, the row restored by a rolled-back DELETE is protected).
use crate::{DBConfig, Database};

#[test]
fn index_built_after_rollback_ignores_rolled_back_work() {
    let dir = tempfile::TempDir::new().unwrap();
    let db = Database::create(dir.path().join("t.db"), DBConfig::default()).unwrap();
    db.execute("CREATE TABLE t (id BIGINT, code BIGINT)").unwrap();
    db.execute("INSERT INTO t VALUES (1, 100)").unwrap();
    {
        let mut s = db.session().unwrap();
        s.execute("INSERT INTO t VALUES (2, 200)").unwrap();
        s.execute("DELETE FROM t WHERE id = 1").unwrap();
        s.abort_transaction().unwrap();
        std::mem::forget(s);
    }
    db.execute("CREATE UNIQUE INDEX idx_code ON t(code)").unwrap();
    let free = db.execute("INSERT INTO t VALUES (3, 200)");
    assert!(free.is_ok(), "key of a rolled-back INSERT is reserved in an index built afterwards: {:?}", free.err());
    let dup = db.execute("INSERT INTO t VALUES (4, 100)");
    assert!(dup.is_err(), "row restored by a rolled-back DELETE is missing from an index built afterwards");
}
