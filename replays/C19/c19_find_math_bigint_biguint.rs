// replay for obligation C19.cmp_matches_math[BigInt,BigUInt/big] (harness c19_find_math_bigint_biguint)
// harness-file: c19_types.rs
// failed: cmp_matches_math
// native outcome when recorded: panicked: thread 'types::__verif_c19_types::kani_concrete_playback_c19_find_math_bigint_biguint_9981586656873497824' (14030) panicked at /var/tmp/axv-c19-6fdwgloi/src/crates/axmos-db/src/__verif/c19_types.rs:423:1: | cmp_matches_math
// re-run: /verif/bin/check --replay /verif/replays/C19/c19_find_math_bigint_biguint.rs
#[test]
fn kani_concrete_playback_c19_find_math_bigint_biguint_15458267513578335461() {
    let concrete_vals: Vec<Vec<u8>> = vec![
        // -9223372036854775808
        vec![0, 0, 0, 0, 0, 0, 0, 128],
        // 0ul
        vec![0, 0, 0, 0, 0, 0, 0, 0],
    ];
    kani::concrete_playback_run(concrete_vals, c19_find_math_bigint_biguint);
}

#[test]
fn kani_concrete_playback_c19_find_math_bigint_biguint_9981586656873497824() {
    let concrete_vals: Vec<Vec<u8>> = vec![
        // 2305843009213693893
        vec![197, 255, 255, 255, 255, 255, 255, 31],
        // 2305843009213693864ul
        vec![168, 255, 255, 255, 255, 255, 255, 31],
    ];
    kani::concrete_playback_run(concrete_vals, c19_find_math_bigint_biguint);
}

