// host: lib.rs
// Native scenario for C18.value_codec[Bool/not the last byte] / C18.build_layout[BigInt|Bool,Int]: a BOOL column
// followed by another non-NULL column must be storable and read back.
use crate::{DBConfig, Database};

#[test]
fn bool_then_int_row_round_trips() {
    let dir = tempfile::TempDir::new().unwrap();
    let db = Database::create(dir.path().join("t.db"), DBConfig::default()).unwrap();
    db.execute("CREATE TABLE t (id BIGINT, b BOOL, v INT)").unwrap();
    let ins = std::panic::catch_unwind(std::panic::AssertUnwindSafe(|| db.execute("INSERT INTO t VALUES (1, TRUE, 5)").map(|_| ())));
    match ins {
        Err(_) => panic!("INSERT of (BIGINT, BOOL, INT) panicked"),
        Ok(Err(e)) => panic!("INSERT of (BIGINT, BOOL, INT) failed: {}", e),
        Ok(Ok(())) => {}
    }
    let r = db.execute("SELECT v FROM t WHERE id = 1").unwrap().into_rows().unwrap();
    assert_eq!(r.first().unwrap()[0].as_int().unwrap().value(), 5);
}
