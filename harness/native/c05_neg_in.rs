// host: lib.rs
// Native scenario for C05.negation[*]: NOT-forms of IS NULL / BETWEEN / IN / LIKE must select the complement.
use crate::{DBConfig, Database};

fn count(db: &Database, pred: &str) -> i64 {
    let r = db.execute(&format!("SELECT COUNT(*) FROM t WHERE {}", pred)).unwrap();
    r.into_rows().unwrap().first().unwrap()[0].as_big_int().unwrap().value()
}

fn setup() -> (tempfile::TempDir, Database) {
    let dir = tempfile::TempDir::new().unwrap();
    let db = Database::create(dir.path().join("t.db"), DBConfig::default()).unwrap();
    db.execute("CREATE TABLE t (id BIGINT, v INT, s TEXT)").unwrap();
    db.execute("INSERT INTO t VALUES (1, 10, 'apple')").unwrap();
    db.execute("INSERT INTO t VALUES (2, 20, 'banana')").unwrap();
    db.execute("INSERT INTO t VALUES (3, NULL, 'cherry')").unwrap();
    (dir, db)
}

#[test]
fn not_in_is_complement() {
    let (_d, db) = setup();
    assert_eq!(count(&db, "id IN (1, 2)"), 2);
    assert_eq!(count(&db, "id NOT IN (1, 2)"), 1, "NOT IN selected listed rows");
}

