// replay for obligation C19.cmp_matches_math[BigInt,Double/big] (harness c19_math_bigint_double_big)
// harness-file: c19_types.rs
// failed: cmp_matches_math
// native outcome when recorded: playback build failed
// re-run: /verif/bin/check --replay /verif/replays/C19/c19_math_bigint_double_big.rs
#[test]
fn kani_concrete_playback_c19_math_bigint_double_big_12738658353928807051() {
    let concrete_vals: Vec<Vec<u8>> = vec![
        // -72057594037928969
        vec![247, 251, 255, 255, 255, 255, 255, 254],
        // -0
        vec![0, 0, 0, 0, 0, 0, 0, 128],
    ];
    kani::concrete_playback_run(concrete_vals, c19_math_bigint_double_big);
}

#[test]
fn kani_concrete_playback_c19_math_bigint_double_big_3326503292184918028() {
    let concrete_vals: Vec<Vec<u8>> = vec![
        // -144115188075857928
        vec![248, 247, 255, 255, 255, 255, 255, 253],
        // -1.441152e+17
        vec![64, 0, 0, 0, 0, 0, 128, 195],
    ];
    kani::concrete_playback_run(concrete_vals, c19_math_bigint_double_big);
}

