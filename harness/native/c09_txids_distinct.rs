// host: lib.rs
// Native scenario for C09.txid_monotone: transaction ids handed out before and after a clean close/reopen are distinct
// and increasing.
use crate::{DBConfig, Database};

#[test]
fn txids_increase_across_reopen() {
    let dir = tempfile::TempDir::new().unwrap();
    let path = dir.path().join("t.db");
    let mut seen = Vec::new();
    {
        let db = Database::create(&path, DBConfig::default()).unwrap();
        db.execute("CREATE TABLE t (id BIGINT, v INT)").unwrap();
        for _ in 0..3 {
            let h = db.coordinator().begin().unwrap();
            seen.push(h.id());
        }
        db.flush().unwrap();
    }
    {
        let db = Database::open(&path, DBConfig::default()).unwrap();
        for _ in 0..3 {
            let h = db.coordinator().begin().unwrap();
            seen.push(h.id());
        }
    }
    for w in seen.windows(2) {
        assert!(w[0] < w[1], "transaction ids not strictly increasing: {:?}", seen);
    }
}

#[test]
fn last_committed_never_moves_backwards() {
    // two overlapping sessions commit in reverse order of their start; a reader that begins afterwards must see both
    let dir = tempfile::TempDir::new().unwrap();
    let db = Database::create(dir.path().join("t.db"), DBConfig::default()).unwrap();
    db.execute("CREATE TABLE t (id BIGINT, v INT)").unwrap();
    db.execute("INSERT INTO t VALUES (1, 10)").unwrap();
    let mut s1 = db.session().unwrap();
    let mut s2 = db.session().unwrap();
    s2.execute("INSERT INTO t VALUES (2, 20)").unwrap();
    s1.execute("INSERT INTO t VALUES (3, 30)").unwrap();
    s2.commit_transaction().unwrap();
    s1.commit_transaction().unwrap();
    std::mem::forget(s1);
    std::mem::forget(s2);
    let mut r = db.session().unwrap();
    let n = r.execute("SELECT COUNT(*) FROM t").unwrap().into_rows().unwrap().first().unwrap()[0].as_big_int().unwrap().value();
    let _ = r.abort_transaction();
    std::mem::forget(r);
    assert_eq!(n, 3, "a reader that began after both commits sees {} of 3 rows (last_committed moved backwards)", n);
}
