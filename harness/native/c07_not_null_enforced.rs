// host: lib.rs
// Native scenario for C07.not_null_decision: NULL in a NOT NULL column is rejected wherever the column sits (first, middle,
// last), values in nullable columns and non-NULL values are accepted.
use crate::{DBConfig, Database};

#[test]
fn not_null_enforced_in_every_position() {
    let dir = tempfile::TempDir::new().unwrap();
    let db = Database::create(dir.path().join("t.db"), DBConfig::default()).unwrap();
    db.execute("CREATE TABLE t (a BIGINT NOT NULL, b BIGINT, c BIGINT NOT NULL)").unwrap();
    assert!(db.execute("INSERT INTO t VALUES (1, NULL, 3)").is_ok(), "NULL in a nullable column rejected");
    assert!(db.execute("INSERT INTO t VALUES (NULL, 2, 3)").is_err(), "NULL accepted in NOT NULL column a (first)");
    assert!(db.execute("INSERT INTO t VALUES (1, 2, NULL)").is_err(), "NULL accepted in NOT NULL column c (last)");
    assert!(db.execute("UPDATE t SET c = NULL WHERE a = 1").is_err(), "UPDATE to NULL accepted in NOT NULL column c");
    assert!(db.execute("UPDATE t SET b = 5 WHERE a = 1").is_ok(), "harmless UPDATE rejected");
    let n = db.execute("SELECT COUNT(*) FROM t").unwrap().into_rows().unwrap().first().unwrap()[0].as_big_int().unwrap().value();
    assert_eq!(n, 1);
}
