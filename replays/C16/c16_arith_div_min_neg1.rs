// replay for obligation C16.arith[div][int_pairs/MIN,-1] (harness c16_arith_div_min_neg1)
// harness-file: c16_arith.rs
// failed: attempt to divide with overflow
// native outcome when recorded: panicked: thread 'types::__verif_c16_arith::kani_concrete_playback_c16_arith_div_min_neg1_9011580455386799022' (6947) panicked at crates/axmos-db/src/types/core.rs:185:9: | attempt to divide with overflow
// re-run: /verif/bin/check --replay /verif/replays/C16/c16_arith_div_min_neg1.rs
#[test]
fn kani_concrete_playback_c16_arith_div_min_neg1_9011580455386799022() {
    let concrete_vals: Vec<Vec<u8>> = vec![
        // 1
        vec![1, 0, 0, 0],
        // -1
        vec![255, 255, 255, 255],
        // -2147483648
        vec![0, 0, 0, 128],
        // 2147483648
        vec![0, 0, 0, 128],
        // 1
        vec![1, 0, 0, 0],
        // -1
        vec![255, 255, 255, 255],
        // 4294967295
        vec![255, 255, 255, 255],
        // 4294967295
        vec![255, 255, 255, 255],
        // 1
        vec![1, 0, 0, 0],
        // -1
        vec![255, 255, 255, 255, 255, 255, 255, 255],
        // -9223372036854775808
        vec![0, 0, 0, 0, 0, 0, 0, 128],
        // -1
        vec![255, 255, 255, 255],
    ];
    kani::concrete_playback_run(concrete_vals, c16_arith_div_min_neg1);
}

