// host: lib.rs
// Native scenario for C13.vacuum_covers_every_relation: an index entry written by a rolled-back INSERT is removed by
// VACUUM together with the table row, so that after VACUUM (which forgets the aborted ids) the key is still free.
use crate::{DBConfig, Database};

#[test]
fn rolled_back_index_entry_is_gone_after_vacuum() {
    let dir = tempfile::TempDir::new().unwrap();
    let db = Database::create(dir.path().join("t.db"), DBConfig::default()).unwrap();
    db.execute("CREATE TABLE codes (id BIGINT, code BIGINT)").unwrap();
    db.execute("CREATE UNIQUE INDEX idx_code ON codes(code)").unwrap();
    db.execute("INSERT INTO codes VALUES (1, 100)").unwrap();
    {
        let mut s = db.session().unwrap();
        s.execute("INSERT INTO codes VALUES (2, 200)").unwrap();
        s.abort_transaction().unwrap();
        std::mem::forget(s);
    }
    db.execute("INSERT INTO codes VALUES (3, 300)").unwrap();
    db.vacuum().unwrap();
    let r = db.execute("INSERT INTO codes VALUES (4, 200)");
    assert!(r.is_ok(), "key written only by a rolled-back transaction is taken after VACUUM: {:?}", r.err());
    assert!(db.execute("INSERT INTO codes VALUES (5, 200)").is_err(), "duplicate accepted after VACUUM");
    assert!(db.execute("INSERT INTO codes VALUES (5, 100)").is_err(), "duplicate of an old key accepted after VACUUM");
}

#[test]
fn vacuum_reclaims_catalog_rows_of_a_rolled_back_create_even_without_live_tables() {
    let dir = tempfile::TempDir::new().unwrap();
    let db = Database::create(dir.path().join("t.db"), DBConfig::default()).unwrap();
    {
        let mut s = db.session().unwrap();
        s.execute("CREATE TABLE ghost (id BIGINT, v INT)").unwrap();
        s.abort_transaction().unwrap();
    }
    // something commits afterwards, and no live user table exists when VACUUM runs
    db.execute("CREATE TABLE tmp (id BIGINT)").unwrap();
    db.execute("DROP TABLE tmp").unwrap();
    db.vacuum().unwrap();
    assert!(db.execute("SELECT * FROM ghost").is_err(), "table created by a rolled-back transaction exists after VACUUM");
    assert!(db.execute("CREATE TABLE ghost (id BIGINT, name TEXT)").is_ok(), "name of a rolled-back CREATE TABLE is taken after VACUUM");
}
