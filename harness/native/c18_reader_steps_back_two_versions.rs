// host: storage/tuple.rs
// Native scenario for C18.every_change_entry_moves_its_offset: two updates by different transactions touch different
// columns; a reader that can see neither updater gets the ORIGINAL values of both columns (it steps back two versions).
use super::*;
use crate::schema::{Column, Schema};
use crate::types::{DataType, DataTypeKind, Int64};
use std::collections::{HashMap, HashSet};

fn restamp(tuple: &mut Tuple, xmin: u64) {
    // the pinned tree leaves the creator's stamp on updated versions (known finding C03.update_stamp): emulate the stamp
    let hdr = TupleHeader::new(tuple.version(), xmin, None);
    hdr.write_to(tuple.effective_data_mut(), 0);
}

#[test]
fn reader_two_versions_back_sees_only_original_values() {
    let schema = Schema::new_table(vec![
        Column::new_with_defaults(DataTypeKind::BigInt, "id"),
        Column::new_with_defaults(DataTypeKind::BigInt, "a"),
        Column::new_with_defaults(DataTypeKind::BigInt, "b"),
    ]);
    let row = Row::new(Box::new([DataType::BigInt(Int64(1)), DataType::BigInt(Int64(10)), DataType::BigInt(Int64(20))]));
    let mut tuple = TupleBuilder::from_schema(&schema).build(&row, 1).unwrap();
    let mut m = HashMap::new();
    m.insert(0usize, DataType::BigInt(Int64(11)));
    tuple.add_version_with(&m, 7, &schema).unwrap();
    restamp(&mut tuple, 7);
    let mut m = HashMap::new();
    m.insert(1usize, DataType::BigInt(Int64(21)));
    tuple.add_version_with(&m, 9, &schema).unwrap();
    restamp(&mut tuple, 9);
    let reader = TupleReader::from_schema(&schema);
    let bytes = tuple.effective_data().to_vec();
    let decode = |snap: &Snapshot| {
        let layout = reader.parse_for_snapshot(&bytes, snap).unwrap().expect("some version must be visible");
        let r = TupleRef::new(&bytes, layout).to_row_with(&schema).unwrap();
        match (&r[1], &r[2]) {
            (DataType::BigInt(Int64(a)), DataType::BigInt(Int64(b))) => (*a, *b),
            o => panic!("unexpected values {o:?}"),
        }
    };
    // reader 5: only transaction 1 committed
    assert_eq!(decode(&Snapshot::new(5, 5, Some(1), HashSet::new(), HashSet::new())), (10, 20), "reader two versions back");
    // reader 8: transactions 1 and 7 committed
    assert_eq!(decode(&Snapshot::new(8, 8, Some(7), HashSet::new(), HashSet::new())), (11, 20), "reader one version back");
    // reader 12: everything committed
    assert_eq!(decode(&Snapshot::new(12, 12, Some(9), HashSet::new(), HashSet::new())), (11, 21), "reader of the newest version");
}
