// host: lib.rs
// Native scenario for C02.checkpoint_keeps_what_can_undo_open_transactions: a checkpoint taken while a transaction is
// open writes that transaction's pages to the data file; if it also empties the log, nothing is left to undo them with
// after a crash.
use crate::{DBConfig, Database};
use std::path::{Path, PathBuf};

fn ids(db: &Database) -> Vec<i64> {
    let rows = db.execute("SELECT id FROM t").unwrap().into_rows().unwrap();
    let mut v: Vec<i64> = rows.iterrows().map(|r| r[0].as_big_int().unwrap().value()).collect();
    v.sort();
    v
}

fn crash_image(db_path: &Path) -> (tempfile::TempDir, PathBuf) {
    let dir = tempfile::TempDir::new().unwrap();
    let image = dir.path().join(db_path.file_name().unwrap());
    std::fs::copy(db_path, &image).unwrap();
    std::fs::copy(db_path.parent().unwrap().join("axmos.log"), dir.path().join("axmos.log")).unwrap();
    (dir, image)
}

fn scenario(later_commit: bool) -> Vec<i64> {
    let dir = tempfile::TempDir::new().unwrap();
    let path = dir.path().join("t.db");
    let db = Database::create(&path, DBConfig::default()).unwrap();
    db.execute("CREATE TABLE t (id BIGINT, v INT)").unwrap();
    db.execute("INSERT INTO t VALUES (1, 10)").unwrap();
    let mut s = db.session().unwrap();
    s.execute("INSERT INTO t VALUES (2, 20)").unwrap();
    s.execute("DELETE FROM t WHERE id = 1").unwrap();
    db.flush().unwrap(); // checkpoint while the session's transaction is open
    if later_commit {
        db.execute("INSERT INTO t VALUES (3, 30)").unwrap();
    }
    let (_d, image) = crash_image(&path);
    let rec = Database::open(&image, DBConfig::default()).expect("recovery");
    let got = ids(&rec);
    std::mem::forget(s);
    got
}

#[test]
fn crash_after_a_checkpoint_taken_with_an_open_transaction() {
    assert_eq!(scenario(false), vec![1], "after checkpoint + crash: the open transaction's insert / delete must leave no trace");
}

#[test]
fn crash_after_a_checkpoint_with_an_open_transaction_and_a_later_commit() {
    assert_eq!(scenario(true), vec![1, 3], "after checkpoint + later commit + crash");
}
