// replay for obligation C16.arith[rem][int_pairs/MIN,-1] (harness c16_arith_rem_min_neg1)
// harness-file: c16_arith.rs
// failed: attempt to calculate the remainder with overflow
// native outcome when recorded: panicked: thread 'types::__verif_c16_arith::kani_concrete_playback_c16_arith_rem_min_neg1_13127662217473865270' (6952) panicked at crates/axmos-db/src/types/core.rs:195:9: | attempt to calculate the remainder with overflow
// re-run: /verif/bin/check --replay /verif/replays/C16/c16_arith_rem_min_neg1.rs
#[test]
fn kani_concrete_playback_c16_arith_rem_min_neg1_13127662217473865270() {
    let concrete_vals: Vec<Vec<u8>> = vec![
        // -1
        vec![255, 255, 255, 255],
        // -2
        vec![254, 255, 255, 255],
        // -1
        vec![255, 255, 255, 255],
        // 4294967295
        vec![255, 255, 255, 255],
        // 4294967295
        vec![255, 255, 255, 255],
        // 0
        vec![0, 0, 0, 0],
        // 4294967295
        vec![255, 255, 255, 255],
        // 4294967295
        vec![255, 255, 255, 255],
        // -1
        vec![255, 255, 255, 255],
        // -2
        vec![254, 255, 255, 255, 255, 255, 255, 255],
        // -9223372036854775808
        vec![0, 0, 0, 0, 0, 0, 0, 128],
        // -1
        vec![255, 255, 255, 255],
    ];
    kani::concrete_playback_run(concrete_vals, c16_arith_rem_min_neg1);
}

