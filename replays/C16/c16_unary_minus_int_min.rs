// replay for obligation C16.unary_minus[Int/MIN] (harness c16_unary_minus_int_min)
// harness-file: c05_eval.rs
// failed: attempt to negate with overflow
// native outcome when recorded: panicked: thread 'runtime::eval::__verif_c05_eval::kani_concrete_playback_c16_unary_minus_int_min_9350440444686711905' (6936) panicked at crates/axmos-db/src/runtime/eval.rs:519:54: | attempt to negate with overflow
// re-run: /verif/bin/check --replay /verif/replays/C16/c16_unary_minus_int_min.rs
#[test]
fn kani_concrete_playback_c16_unary_minus_int_min_9350440444686711905() {
    let concrete_vals: Vec<Vec<u8>> = vec![
    ];
    kani::concrete_playback_run(concrete_vals, c16_unary_minus_int_min);
}

