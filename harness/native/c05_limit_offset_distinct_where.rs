// host: lib.rs
// Native scenario for the C05 row-pipeline step obligations: LIMIT / OFFSET, WHERE and DISTINCT return exactly the rows
// SQL says, for the boundary combinations (offset 0, offset = row count, limit 0, limit > remaining rows).
use crate::{DBConfig, Database};

fn ids(db: &Database, q: &str) -> Vec<i64> {
    db.execute(q).unwrap().into_rows().unwrap().iterrows().map(|r| r[0].as_big_int().unwrap().value()).collect()
}

#[test]
fn limit_offset_where_distinct_boundaries() {
    let dir = tempfile::TempDir::new().unwrap();
    let db = Database::create(dir.path().join("t.db"), DBConfig::default()).unwrap();
    db.execute("CREATE TABLE t (id BIGINT, g INT)").unwrap();
    for i in 0..10 {
        db.execute(&format!("INSERT INTO t VALUES ({i}, {})", i % 3)).unwrap();
    }
    let all = ids(&db, "SELECT id FROM t ORDER BY id");
    assert_eq!(all, (0..10).collect::<Vec<i64>>());
    for (limit, offset) in [(3usize, 0usize), (3, 2), (3, 8), (3, 10), (3, 12), (0, 0), (0, 3), (20, 0), (20, 4), (1, 9), (10, 0)] {
        let got = ids(&db, &format!("SELECT id FROM t ORDER BY id LIMIT {limit} OFFSET {offset}"));
        let want: Vec<i64> = all.iter().copied().skip(offset).take(limit).collect();
        assert_eq!(got, want, "LIMIT {limit} OFFSET {offset}");
    }
    assert_eq!(ids(&db, "SELECT id FROM t WHERE g = 1 ORDER BY id"), vec![1, 4, 7], "WHERE g = 1");
    assert_eq!(ids(&db, "SELECT id FROM t WHERE g > 5"), Vec::<i64>::new(), "WHERE nothing matches");
    let mut d: Vec<i64> = db.execute("SELECT DISTINCT g FROM t").unwrap().into_rows().unwrap().iterrows().map(|r| r[0].as_int().unwrap().value() as i64).collect();
    d.sort();
    assert_eq!(d, vec![0, 1, 2], "DISTINCT g");
}
