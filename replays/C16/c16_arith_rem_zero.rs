// replay for obligation C16.arith[rem][int_pairs/divisor_0] (harness c16_arith_rem_zero)
// harness-file: c16_arith.rs
// failed: attempt to calculate the remainder with a divisor of zero
// native outcome when recorded: panicked: thread 'types::__verif_c16_arith::kani_concrete_playback_c16_arith_rem_zero_18069627948339407669' (6953) panicked at crates/axmos-db/src/types/core.rs:195:9: | attempt to calculate the remainder with a divisor of zero
// re-run: /verif/bin/check --replay /verif/replays/C16/c16_arith_rem_zero.rs
#[test]
fn kani_concrete_playback_c16_arith_rem_zero_18069627948339407669() {
    let concrete_vals: Vec<Vec<u8>> = vec![
        // 0
        vec![0, 0, 0, 0],
        // -2147483648
        vec![0, 0, 0, 128],
        // 0
        vec![0, 0, 0, 0],
        // 2147483648
        vec![0, 0, 0, 128],
        // 0
        vec![0, 0, 0, 0],
        // -2147483648
        vec![0, 0, 0, 128],
        // 0
        vec![0, 0, 0, 0],
        // 2147483648
        vec![0, 0, 0, 128],
        // 0
        vec![0, 0, 0, 0],
        // -9223372036854775808
        vec![0, 0, 0, 0, 0, 0, 0, 128],
        // 0
        vec![0, 0, 0, 0, 0, 0, 0, 0],
        // -2147483648
        vec![0, 0, 0, 128],
        // 0
        vec![0, 0, 0, 0, 0, 0, 0, 0],
        // -9223372036854775808
        vec![0, 0, 0, 0, 0, 0, 0, 128],
        // 0
        vec![0, 0, 0, 0],
        // 4611686018427387904ul
        vec![0, 0, 0, 0, 0, 0, 0, 64],
        // 0ul
        vec![0, 0, 0, 0, 0, 0, 0, 0],
        // -2147483648
        vec![0, 0, 0, 128],
        // 0
        vec![0, 0, 0, 0, 0, 0, 0, 0],
        // 2147483648
        vec![0, 0, 0, 128],
        // 0
        vec![0, 0, 0, 0],
        // -9223372036854775808
        vec![0, 0, 0, 0, 0, 0, 0, 128],
        // 0
        vec![0, 0, 0, 0, 0, 0, 0, 0],
        // 4611686018427387904ul
        vec![0, 0, 0, 0, 0, 0, 0, 64],
        // 0ul
        vec![0, 0, 0, 0, 0, 0, 0, 0],
        // -9223372036854775808
        vec![0, 0, 0, 0, 0, 0, 0, 128],
        // 0
        vec![0, 0, 0, 0],
        // 9223372036854775808ul
        vec![0, 0, 0, 0, 0, 0, 0, 128],
        // 0ul
        vec![0, 0, 0, 0, 0, 0, 0, 0],
        // 2147483648
        vec![0, 0, 0, 128],
        // 0ul
        vec![0, 0, 0, 0, 0, 0, 0, 0],
        // 0ul
        vec![0, 0, 0, 0, 0, 0, 0, 0],
    ];
    kani::concrete_playback_run(concrete_vals, c16_arith_rem_zero);
}

#[test]
fn kani_concrete_playback_c16_arith_rem_zero_8968504873638343664() {
    let concrete_vals: Vec<Vec<u8>> = vec![
        // -1
        vec![255, 255, 255, 255],
        // 0
        vec![0, 0, 0, 0],
    ];
    kani::concrete_playback_run(concrete_vals, c16_arith_rem_zero);
}

