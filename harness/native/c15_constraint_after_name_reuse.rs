// host: lib.rs
// Native scenario for C15.constraint_gets_its_index: a UNIQUE constraint is enforced on a table created under a name that
// was used before (DROP TABLE leaves the old index relation's name behind), and on tables whose name/column strings
// concatenate to the same index name.
use crate::{DBConfig, Database};

#[test]
fn unique_is_enforced_on_a_recreated_table() {
    let dir = tempfile::TempDir::new().unwrap();
    let db = Database::create(dir.path().join("t.db"), DBConfig::default()).unwrap();
    db.execute("CREATE TABLE u (id BIGINT, name TEXT, UNIQUE(name))").unwrap();
    db.execute("INSERT INTO u VALUES (1, 'a')").unwrap();
    assert!(db.execute("INSERT INTO u VALUES (2, 'a')").is_err(), "UNIQUE not enforced on the first incarnation");
    db.execute("DROP TABLE u").unwrap();
    db.execute("CREATE TABLE u (id BIGINT, name TEXT, UNIQUE(name))").unwrap();
    db.execute("INSERT INTO u VALUES (1, 'a')").unwrap();
    assert!(db.execute("INSERT INTO u VALUES (2, 'a')").is_err(), "UNIQUE not enforced on a table re-created under a dropped name");
}

#[test]
fn unique_is_enforced_when_index_names_coincide() {
    let dir = tempfile::TempDir::new().unwrap();
    let db = Database::create(dir.path().join("t.db"), DBConfig::default()).unwrap();
    db.execute("CREATE TABLE line_items (id BIGINT, sku TEXT, UNIQUE(sku))").unwrap();
    let r = db.execute("CREATE TABLE line (id BIGINT, items TEXT, sku TEXT, UNIQUE(items, sku))");
    if r.is_ok() {
        db.execute("INSERT INTO line VALUES (1, 'i', 's')").unwrap();
        assert!(db.execute("INSERT INTO line VALUES (2, 'i', 's')").is_err(), "UNIQUE(items, sku) not enforced: its index name coincides with another table's");
    }
}
