// host: lib.rs
// Native scenario for C02.analysis_classification: after a committed and a rolled-back session the analysis pass puts
// the committed transaction (only) into needs_redo and the rolled-back one into needs_undo.
use crate::{DBConfig, Database};

#[test]
fn analysis_sets_match_outcomes() {
    let dir = tempfile::TempDir::new().unwrap();
    let db = Database::create(dir.path().join("t.db"), DBConfig::default()).unwrap();
    db.execute("CREATE TABLE t (id BIGINT, v INT)").unwrap();
    let a0 = db.pager().write().run_analysis().unwrap();
    let mut s1 = db.session().unwrap();
    s1.execute("INSERT INTO t VALUES (1, 10)").unwrap();
    s1.commit_transaction().unwrap();
    std::mem::forget(s1);
    let a1 = db.pager().write().run_analysis().unwrap();
    let committed: Vec<_> = a1.needs_redo.difference(&a0.needs_redo).cloned().collect();
    assert_eq!(committed.len(), 1, "exactly the committed session must be new in needs_redo: {:?}", committed);
    assert!(!a1.needs_undo.contains(&committed[0]), "committed transaction is also in needs_undo");
    let mut s2 = db.session().unwrap();
    s2.execute("INSERT INTO t VALUES (2, 20)").unwrap();
    s2.abort_transaction().unwrap();
    std::mem::forget(s2);
    let a2 = db.pager().write().run_analysis().unwrap();
    assert_eq!(a2.needs_redo, a1.needs_redo, "a rolled-back session changed needs_redo");
    assert!(a2.needs_undo.len() > a1.needs_undo.len(), "rolled-back session is not in needs_undo");
}

// A transaction whose Begin record was truncated away by a checkpoint still commits: its Commit record alone must put it
// into needs_redo (the classification is per record kind, not per pair of records).
#[test]
fn commit_without_begin_in_the_log_is_redone() {
    let dir = tempfile::TempDir::new().unwrap();
    let db = Database::create(dir.path().join("t.db"), DBConfig::default()).unwrap();
    db.execute("CREATE TABLE t (id BIGINT, v INT)").unwrap();
    db.execute("INSERT INTO t VALUES (1, 10)").unwrap();
    let mut s = db.session().unwrap();
    db.flush().unwrap(); // checkpoint: truncates the log, the session's Begin record is gone
    let a0 = db.pager().write().run_analysis().unwrap();
    s.execute("DELETE FROM t WHERE id = 1").unwrap();
    s.commit_transaction().unwrap();
    std::mem::forget(s);
    let a1 = db.pager().write().run_analysis().unwrap();
    let committed: Vec<_> = a1.needs_redo.difference(&a0.needs_redo).cloned().collect();
    assert_eq!(committed.len(), 1, "the committed session (Begin truncated by the checkpoint) is not in needs_redo: {:?}", a1.needs_redo);
}
