// host: lib.rs
// Native scenario for C16.argument_indexing_guarded: scalar functions called with too few / too many arguments, and
// aggregate queries naming a non-grouped column, yield rows or an error; the worker thread must not die (a dead worker
// surfaces as "Task channel closed unexpectedly").
use crate::{DBConfig, Database};

fn survives(db: &Database, q: &str) {
    let r = std::panic::catch_unwind(std::panic::AssertUnwindSafe(|| db.execute(q).map(|_| ())));
    match r {
        Err(_) => panic!("`{q}` panicked in the caller"),
        Ok(Err(e)) => {
            let m = format!("{}", e);
            assert!(!m.contains("channel closed") && !m.contains("panicked"), "`{q}` killed the worker: {m}");
        }
        Ok(Ok(())) => {}
    }
}

#[test]
fn scalar_functions_with_any_number_of_arguments_do_not_kill_the_worker() {
    let dir = tempfile::TempDir::new().unwrap();
    let db = Database::create(dir.path().join("t.db"), DBConfig::default()).unwrap();
    db.execute("CREATE TABLE t (id BIGINT, a BIGINT, s TEXT, d DOUBLE)").unwrap();
    db.execute("INSERT INTO t VALUES (1, 5, 'abc', 2.5)").unwrap();
    for f in ["NULLIF", "ABS", "ROUND", "CEIL", "FLOOR", "SQRT", "LTRIM", "RTRIM", "TRIM", "UPPER", "LOWER", "LENGTH", "COALESCE", "CONCAT"] {
        for args in ["", "a", "s", "d", "a = 5", "a, a", "a, a = 5", "s, s", "d, 1", "a, a, a", "s, 1, 2, 3"] {
            survives(&db, &format!("SELECT {f}({args}) FROM t"));
        }
    }
}

#[test]
fn aggregate_queries_naming_other_columns_do_not_kill_the_worker() {
    let dir = tempfile::TempDir::new().unwrap();
    let db = Database::create(dir.path().join("t.db"), DBConfig::default()).unwrap();
    db.execute("CREATE TABLE t (id BIGINT, name TEXT, age INT, score INT)").unwrap();
    db.execute("INSERT INTO t VALUES (1, 'a', 30, 7)").unwrap();
    db.execute("INSERT INTO t VALUES (2, 'b', 30, 9)").unwrap();
    for q in ["SELECT age, COUNT(*) FROM t GROUP BY age HAVING name = 'a'", "SELECT COUNT(*) FROM t HAVING id = 1",
              "SELECT age, COUNT(*) FROM t GROUP BY age HAVING score > 1", "SELECT COUNT(*) FROM t HAVING name = 'a'",
              "SELECT age, COUNT(*) FROM t GROUP BY age ORDER BY name", "SELECT age, COUNT(*), MAX(score) FROM t GROUP BY age HAVING score = 7"] {
        survives(&db, q);
    }
}

#[test]
fn insert_select_with_a_row_narrower_than_the_column_list_does_not_kill_the_worker() {
    let dir = tempfile::TempDir::new().unwrap();
    let db = Database::create(dir.path().join("t.db"), DBConfig::default()).unwrap();
    db.execute("CREATE TABLE src (id BIGINT, v INT)").unwrap();
    db.execute("CREATE TABLE dst (a INT, b BIGINT)").unwrap();
    db.execute("INSERT INTO src VALUES (1, 10), (2, 20), (3, 30)").unwrap();
    // the aggregate operator emits one value per aggregate: the source row is narrower than the select list
    for q in ["INSERT INTO dst (a, b) SELECT v, id FROM src", "INSERT INTO dst (a, b) SELECT COUNT(*), COUNT(*) FROM src",
              "INSERT INTO dst (a, b) SELECT 1, COUNT(*) FROM src", "INSERT INTO dst (b, a) SELECT 1, COUNT(*) FROM src",
              "INSERT INTO dst (a, b) SELECT 1, 2, COUNT(*) FROM src", "INSERT INTO dst (a) SELECT COUNT(*) FROM src GROUP BY v"] {
        survives(&db, q);
    }
    survives(&db, "INSERT INTO dst VALUES (7, 7)");
}
