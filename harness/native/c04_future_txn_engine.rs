// host: lib.rs
// Engine-level scenario for the C04 "future transaction counts as committed when xmax = None" finding: a session opened
// on a fresh database (nothing committed yet, so its snapshot has xmax = None) must not see rows committed later.
use crate::{DBConfig, Database};

#[test]
fn session_opened_before_first_commit_does_not_see_later_commits() {
    let dir = tempfile::TempDir::new().unwrap();
    let db = Database::create(dir.path().join("t.db"), DBConfig::default()).unwrap();
    let mut s1 = db.session().unwrap(); // snapshot taken now
    db.execute("CREATE TABLE t (id BIGINT, v INT)").unwrap();
    db.execute("INSERT INTO t VALUES (1, 10)").unwrap();
    let seen = match s1.execute("SELECT COUNT(*) FROM t") {
        Ok(r) => r.into_rows().unwrap().first().unwrap()[0].as_big_int().unwrap().value(),
        Err(_) => 0, // table unknown to the old snapshot: fine
    };
    let _ = s1.abort_transaction();
    std::mem::forget(s1);
    assert_eq!(seen, 0, "a snapshot taken before the INSERT committed sees the inserted row");
}
