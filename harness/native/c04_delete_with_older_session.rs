// host: lib.rs
// Native scenario for C04.dml_stamps_own_xid: with an older idle session open, a session's own DELETE must be visible
// to itself and, once committed, to later transactions.
use crate::{DBConfig, Database};

#[test]
fn delete_is_stamped_with_the_deleting_transaction() {
    let dir = tempfile::TempDir::new().unwrap();
    let db = Database::create(dir.path().join("t.db"), DBConfig::default()).unwrap();
    db.execute("CREATE TABLE t (id BIGINT, v INT)").unwrap();
    for i in 1..=3 {
        db.execute(&format!("INSERT INTO t VALUES ({}, {})", i, i * 10)).unwrap();
    }
    let old = db.session().unwrap(); // idle older transaction
    let mut s = db.session().unwrap();
    s.execute("DELETE FROM t WHERE id = 1").unwrap();
    let own = s.execute("SELECT COUNT(*) FROM t").unwrap().into_rows().unwrap().first().unwrap()[0].as_big_int().unwrap().value();
    s.commit_transaction().unwrap();
    std::mem::forget(s);
    let later = db.execute("SELECT COUNT(*) FROM t").unwrap().into_rows().unwrap().first().unwrap()[0].as_big_int().unwrap().value();
    std::mem::forget(old);
    assert_eq!(own, 2, "the deleting session does not see its own delete");
    assert_eq!(later, 2, "a committed delete is invisible to a later transaction");
}
