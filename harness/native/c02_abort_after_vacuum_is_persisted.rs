// host: lib.rs
// Native scenario for C02.abort_marks_bitmap: a session that was force-aborted in memory by VACUUM (abort_all) and then
// rolls back must still end up in the persistent aborted bitmap: its rows stay invisible after close/reopen.
use crate::{DBConfig, Database};

#[test]
fn rollback_after_vacuum_stays_invisible_after_reopen() {
    let dir = tempfile::TempDir::new().unwrap();
    let path = dir.path().join("t.db");
    {
        let db = Database::create(&path, DBConfig::default()).unwrap();
        db.execute("CREATE TABLE t (id BIGINT, v INT)").unwrap();
        db.execute("INSERT INTO t VALUES (1, 10)").unwrap();
        let mut s = db.session().unwrap();
        s.execute("INSERT INTO t VALUES (2, 20)").unwrap();
        db.vacuum().unwrap();
        let _ = s.execute("INSERT INTO t VALUES (3, 30)");
        let _ = s.abort_transaction();
        std::mem::forget(s);
    }
    let db = Database::open(&path, DBConfig::default()).unwrap();
    let n = db.execute("SELECT COUNT(*) FROM t").unwrap().into_rows().unwrap().first().unwrap()[0].as_big_int().unwrap().value();
    assert_eq!(n, 1, "rows of a rolled-back session are visible after reopen");
}

#[test]
fn rolled_back_work_stays_invisible_to_readers_that_start_after_a_younger_commit() {
    let dir = tempfile::TempDir::new().unwrap();
    let db = Database::create(dir.path().join("t.db"), DBConfig::default()).unwrap();
    db.execute("CREATE TABLE t (id BIGINT, v INT)").unwrap();
    db.execute("INSERT INTO t VALUES (1, 10)").unwrap();
    {
        let mut w = db.session().unwrap();
        w.execute("INSERT INTO t VALUES (2, 20)").unwrap();
        w.execute("DELETE FROM t WHERE id = 1").unwrap();
        w.abort_transaction().unwrap();
    }
    db.execute("INSERT INTO t VALUES (3, 30)").unwrap(); // a younger transaction commits
    let rows = db.execute("SELECT id FROM t").unwrap().into_rows().unwrap();
    let mut ids: Vec<i64> = rows.iterrows().map(|r| r[0].as_big_int().unwrap().value()).collect();
    ids.sort();
    assert_eq!(ids, vec![1, 3], "a reader that starts after a younger commit sees rolled-back work");
}
