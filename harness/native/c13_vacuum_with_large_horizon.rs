// host: storage/page.rs
// Native scenario for C13.bitmap_clear_in_bounds: clearing the aborted bitmap up to a horizon at or beyond the number of
// tracked ids must not panic and must clear every tracked id.
use super::*;
use crate::DBConfig;

#[test]
fn clear_up_to_large_horizon_does_not_panic() {
    for horizon in [MAX_TRACKED_ABORTED_TXS as u64 - 1, MAX_TRACKED_ABORTED_TXS as u64, MAX_TRACKED_ABORTED_TXS as u64 + 1, u64::MAX] {
        let mut h = PageZeroHeader::from_config(DBConfig::default());
        h.mark_transaction_aborted(5);
        h.mark_transaction_aborted(MAX_TRACKED_ABORTED_TXS as u64 - 1);
        h.clear_aborted_up_to(horizon);
        assert!(!h.is_transaction_aborted(5) && !h.is_transaction_aborted(MAX_TRACKED_ABORTED_TXS as u64 - 1), "tracked ids not cleared for horizon {}", horizon);
    }
}
