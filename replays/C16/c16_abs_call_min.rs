// replay for obligation C16.abs_call[Int/MIN|BigInt/MIN] (harness c16_abs_call_min)
// harness-file: c05_eval.rs
// failed: attempt to negate with overflow
// native outcome when recorded: panicked: thread 'runtime::eval::__verif_c05_eval::kani_concrete_playback_c16_abs_call_min_1006118070451284104' (6933) panicked at /home/runner/.rustup/toolchains/nightly-2026-08-21-x86_64-unknown-linux-gnu/lib/rustlib/src/rust/library/core/src/num/mod.rs:454:5: | attempt to negate with overflow | note: run with `RUST_BACKTRACE=1` environment variable to display a backtrace
// re-run: /verif/bin/check --replay /verif/replays/C16/c16_abs_call_min.rs
#[test]
fn kani_concrete_playback_c16_abs_call_min_1006118070451284104() {
    let concrete_vals: Vec<Vec<u8>> = vec![
        // 0
        vec![0],
    ];
    kani::concrete_playback_run(concrete_vals, c16_abs_call_min);
}

#[test]
fn kani_concrete_playback_c16_abs_call_min_15455288631292964269() {
    let concrete_vals: Vec<Vec<u8>> = vec![
        // 1
        vec![1],
    ];
    kani::concrete_playback_run(concrete_vals, c16_abs_call_min);
}

