// replay for obligation C20.decode_total[Response/Rows/0cols,3rows] (harness c20_resp_rows_garbage_0x3)
// harness-file: c20_tcp.rs
// failed: double free; free argument has offset zero; free argument must be NULL or valid pointer; free argument must be dynamic object; memcpy source region readable
// native outcome when recorded: did not fail
// re-run: /verif/bin/check --replay /verif/replays/C20/c20_resp_rows_garbage_0x3.rs
#[test]
fn kani_concrete_playback_c20_resp_rows_garbage_0x3_16650034474855916428() {
    let concrete_vals: Vec<Vec<u8>> = vec![
        // 255
        vec![255],
        // 255
        vec![255],
        // 255
        vec![255],
        // 255
        vec![255],
        // 255
        vec![255],
        // 255
        vec![255],
        // 255
        vec![255],
        // 255
        vec![255],
        // 255
        vec![255],
        // 255
        vec![255],
        // 255
        vec![255],
        // 255
        vec![255],
        // 255
        vec![255],
        // 255
        vec![255],
        // 255
        vec![255],
        // 255
        vec![255],
        // 255
        vec![255],
        // 255
        vec![255],
        // 255
        vec![255],
        // 255
        vec![255],
        // 255
        vec![255],
        // 255
        vec![255],
        // 255
        vec![255],
        // 255
        vec![255],
        // 15ul
        vec![15, 0, 0, 0, 0, 0, 0, 0],
    ];
    kani::concrete_playback_run(concrete_vals, c20_resp_rows_garbage_0x3);
}

#[test]
fn kani_concrete_playback_c20_resp_rows_garbage_0x3_5874804746945178191() {
    let concrete_vals: Vec<Vec<u8>> = vec![
        // 255
        vec![255],
        // 255
        vec![255],
        // 255
        vec![255],
        // 255
        vec![255],
        // 255
        vec![255],
        // 255
        vec![255],
        // 255
        vec![255],
        // 255
        vec![255],
        // 255
        vec![255],
        // 255
        vec![255],
        // 255
        vec![255],
        // 255
        vec![255],
        // 255
        vec![255],
        // 255
        vec![255],
        // 255
        vec![255],
        // 255
        vec![255],
        // 255
        vec![255],
        // 255
        vec![255],
        // 255
        vec![255],
        // 255
        vec![255],
        // 255
        vec![255],
        // 255
        vec![255],
        // 255
        vec![255],
        // 255
        vec![255],
        // 24ul
        vec![24, 0, 0, 0, 0, 0, 0, 0],
    ];
    kani::concrete_playback_run(concrete_vals, c20_resp_rows_garbage_0x3);
}

