// Kani harnesses (child module of crates/axmos-db/src/sql/planner/rules.rs).  See /verif/HARNESS_GUIDE.md
// C06 (index scan == table scan), half (b): the real `FilterToIndexScanRule::collect_bounds` is run on a concrete
// one-comparison predicate (`col op literal` and `literal op col`, literal value symbolic) and the produced
// (range_start, range_end, residual) is compared with the table the executor relies on (c06_bounds.rs, half (a)):
//   col = c  -> start {c, incl} + end {c, incl}      c = col  -> same
//   col > c  -> start {c, excl}                      c > col  -> end   {c, excl}     (col < c)
//   col >= c -> start {c, incl}                      c >= col -> end   {c, incl}     (col <= c)
//   col < c  -> end   {c, excl}                      c < col  -> start {c, excl}     (col > c)
//   col <= c -> end   {c, incl}                      c <= col -> start {c, incl}     (col >= c)
//   anything else (<>, non-indexed column, col op col) -> residual, no bound
// where a range_start bound {c, incl} selects keys v > c (or = c if incl) and a range_end bound keys v < c (or = c).
// The predicate is a depth-1 expression tree, so the recursive AND arm of collect_bounds is never entered.
#![allow(unused_imports, dead_code, clippy::all)]
use super::*;
use crate::types::{DataType, Float64, Int64};

const COL: usize = 2; // table column used in the predicate
const POS: usize = 1; // its position in the index key [5, 2]
fn col(idx: usize) -> BoundExpression {
    BoundExpression::ColumnBinding(Binding { table_id: None, scope_index: 0, column_idx: idx, data_type: DataTypeKind::BigInt })
}
fn lit(v: i64) -> BoundExpression {
    BoundExpression::Literal { value: DataType::BigInt(Int64(v)) }
}
fn cmp(left: BoundExpression, op: BinaryOperator, right: BoundExpression) -> BoundExpression {
    BoundExpression::BinaryOp { left: Box::new(left), op, right: Box::new(right), result_type: DataTypeKind::Bool }
}
// `residual.push(expr.clone())`: CBMC cannot constant-fold the discriminants behind the Boxes, so it explores the
// derived `BoundExpression::clone` for every variant (BoundSelect, Schema, HashMap ... recursion depth 5, > 250 s).
// The clone is replaced by a counting stub that returns a marker literal: the harnesses then decide *whether* the
// predicate was sent to the residual, not that the residual copy is faithful (derive(Clone), not C06's subject).
static mut CLONES: u32 = 0;
pub(crate) fn stub_clone(_e: &BoundExpression) -> BoundExpression {
    unsafe {
        CLONES += 1;
    }
    BoundExpression::Literal { value: DataType::Null }
}
fn clones() -> u32 {
    unsafe { CLONES }
}
struct Got {
    start: Vec<IndexRangeBound>,
    end: Vec<IndexRangeBound>,
    residual: Vec<BoundExpression>,
}
fn run(expr: &BoundExpression) -> Got {
    let indexed = [5usize, COL];
    let mut g = Got { start: Vec::new(), end: Vec::new(), residual: Vec::new() };
    FilterToIndexScanRule.collect_bounds(7, expr, &indexed, &mut g.start, &mut g.end, &mut g.residual);
    g
}
/// `v` holds exactly one bound {BigInt c, inclusive, position POS}
fn one_bound(v: &Vec<IndexRangeBound>, c: i64, inclusive: bool) -> bool {
    v.len() == 1 && v[0].inclusive == inclusive && v[0].col_idx == POS && matches!(&v[0].value, DataType::BigInt(x) if x.0 == c)
}
const START: u8 = 0;
const END: u8 = 1;
const BOTH: u8 = 2;
const RESIDUAL: u8 = 3;
fn check(expr: BoundExpression, c: i64, side: u8, inclusive: bool) {
    let before = clones();
    let g = run(&expr);
    assert!(clones() - before == (side == RESIDUAL) as u32, "predicate_copied_to_residual_iff_unsupported");
    match side {
        START => {
            assert!(one_bound(&g.start, c, inclusive), "range_start_bound_as_expected");
            assert!(g.end.is_empty(), "no_range_end_bound");
            assert!(g.residual.is_empty(), "predicate_consumed_not_in_residual");
        }
        END => {
            assert!(one_bound(&g.end, c, inclusive), "range_end_bound_as_expected");
            assert!(g.start.is_empty(), "no_range_start_bound");
            assert!(g.residual.is_empty(), "predicate_consumed_not_in_residual");
        }
        BOTH => {
            assert!(one_bound(&g.start, c, true) && one_bound(&g.end, c, true), "equality_gives_both_inclusive_bounds");
            assert!(g.residual.is_empty(), "predicate_consumed_not_in_residual");
        }
        _ => {
            assert!(g.start.is_empty() && g.end.is_empty(), "no_bound_for_unsupported_predicate");
            assert!(g.residual.len() == 1, "unsupported_predicate_kept_in_residual");
        }
    }
    std::mem::forget(g);
    std::mem::forget(expr);
}
// @obl harness=c06_rule_col_op_lit_lower id=C06.index_bounds_mapping[col_=,>,>=_literal] tier=quick funcs="FilterToIndexScanRule::collect_bounds,FilterToIndexScanRule::extract_column_info,FilterToIndexScanRule::extract_literal" bounds="BigInt literal symbolic, column at position 1 of a 2-column index" stubs="<BoundExpression as Clone>::clone" unwind=5
#[kani::proof]
#[kani::unwind(5)]
#[kani::stub(<BoundExpression as std::clone::Clone>::clone, stub_clone)]
fn c06_rule_col_op_lit_lower() {
    let c: i64 = kani::any();
    kani::cover!(true, "reach");
    check(cmp(col(COL), BinaryOperator::Eq, lit(c)), c, BOTH, true);
    check(cmp(col(COL), BinaryOperator::Gt, lit(c)), c, START, false);
    check(cmp(col(COL), BinaryOperator::Ge, lit(c)), c, START, true);
}
// @obl harness=c06_rule_col_op_lit_upper id=C06.index_bounds_mapping[col_<,<=_literal] tier=quick funcs="FilterToIndexScanRule::collect_bounds,FilterToIndexScanRule::extract_column_info,FilterToIndexScanRule::extract_literal" bounds="BigInt literal symbolic, column at position 1 of a 2-column index" stubs="<BoundExpression as Clone>::clone" unwind=5
#[kani::proof]
#[kani::unwind(5)]
#[kani::stub(<BoundExpression as std::clone::Clone>::clone, stub_clone)]
fn c06_rule_col_op_lit_upper() {
    let c: i64 = kani::any();
    kani::cover!(true, "reach");
    check(cmp(col(COL), BinaryOperator::Lt, lit(c)), c, END, false);
    check(cmp(col(COL), BinaryOperator::Le, lit(c)), c, END, true);
}
// @obl harness=c06_rule_lit_op_col_lower id=C06.index_bounds_mapping[literal_=,<,<=_col] tier=quick funcs="FilterToIndexScanRule::collect_bounds,FilterToIndexScanRule::extract_column_info,FilterToIndexScanRule::extract_literal" bounds="literal on the left (the comparison is mirrored), BigInt literal symbolic" stubs="<BoundExpression as Clone>::clone" unwind=5
#[kani::proof]
#[kani::unwind(5)]
#[kani::stub(<BoundExpression as std::clone::Clone>::clone, stub_clone)]
fn c06_rule_lit_op_col_lower() {
    let c: i64 = kani::any();
    kani::cover!(true, "reach");
    check(cmp(lit(c), BinaryOperator::Eq, col(COL)), c, BOTH, true);
    check(cmp(lit(c), BinaryOperator::Lt, col(COL)), c, START, false); // c <  col  <=> col >  c
    check(cmp(lit(c), BinaryOperator::Le, col(COL)), c, START, true); //  c <= col  <=> col >= c
}
// @obl harness=c06_rule_lit_op_col_upper id=C06.index_bounds_mapping[literal_>,>=_col] tier=quick funcs="FilterToIndexScanRule::collect_bounds,FilterToIndexScanRule::extract_column_info,FilterToIndexScanRule::extract_literal" bounds="literal on the left (the comparison is mirrored), BigInt literal symbolic" stubs="<BoundExpression as Clone>::clone" unwind=5
#[kani::proof]
#[kani::unwind(5)]
#[kani::stub(<BoundExpression as std::clone::Clone>::clone, stub_clone)]
fn c06_rule_lit_op_col_upper() {
    let c: i64 = kani::any();
    kani::cover!(true, "reach");
    check(cmp(lit(c), BinaryOperator::Gt, col(COL)), c, END, false); //   c >  col  <=> col <  c
    check(cmp(lit(c), BinaryOperator::Ge, col(COL)), c, END, true); //    c >= col  <=> col <= c
}
// @obl harness=c06_rule_residual id=C06.index_bounds_mapping[not_indexable_->_residual] tier=quick funcs="FilterToIndexScanRule::collect_bounds" bounds="col <> c, c <> col, non-indexed column = c, col = col" stubs="<BoundExpression as Clone>::clone" unwind=5
#[kani::proof]
#[kani::unwind(5)]
#[kani::stub(<BoundExpression as std::clone::Clone>::clone, stub_clone)]
fn c06_rule_residual() {
    let c: i64 = kani::any();
    kani::cover!(true, "reach");
    check(cmp(col(COL), BinaryOperator::Neq, lit(c)), c, RESIDUAL, false);
    check(cmp(lit(c), BinaryOperator::Neq, col(COL)), c, RESIDUAL, false);
    check(cmp(col(9), BinaryOperator::Eq, lit(c)), c, RESIDUAL, false); // column 9 is not part of the index
    check(cmp(col(COL), BinaryOperator::Eq, col(5)), c, RESIDUAL, false);
}
// the literal is taken over verbatim (no cast to the column type): a Double literal against a BigInt column
// @obl harness=c06_rule_double_literal id=C06.index_bounds_mapping[col_>_Double_literal] tier=quick funcs="FilterToIndexScanRule::collect_bounds" bounds="every f64 literal" stubs="<BoundExpression as Clone>::clone" unwind=5
#[kani::proof]
#[kani::unwind(5)]
#[kani::stub(<BoundExpression as std::clone::Clone>::clone, stub_clone)]
fn c06_rule_double_literal() {
    let x: f64 = kani::any();
    kani::cover!(true, "reach");
    let e = cmp(col(COL), BinaryOperator::Gt, BoundExpression::Literal { value: DataType::Double(Float64(x)) });
    let g = run(&e);
    assert!(g.start.len() == 1 && g.end.is_empty() && g.residual.is_empty(), "range_start_bound_as_expected");
    assert!(!g.start[0].inclusive && g.start[0].col_idx == POS, "range_start_bound_as_expected");
    assert!(matches!(&g.start[0].value, DataType::Double(v) if v.0.to_bits() == x.to_bits()), "literal_value_unchanged");
    std::mem::forget(g);
    std::mem::forget(e);
}
