// host: lib.rs
// Native scenario for C05.aggregate[COUNT/..] and C05.count_argument_decides_what_is_counted: COUNT(*) counts rows,
// COUNT(col) counts the rows where col is not NULL, per group and over the whole table, next to the other aggregates.
use crate::{DBConfig, Database};

fn ints(db: &Database, q: &str) -> Vec<Vec<Option<i64>>> {
    let rows = db.execute(q).unwrap_or_else(|e| panic!("`{q}` failed: {e}")).into_rows().unwrap();
    let mut out: Vec<Vec<Option<i64>>> = rows
        .iterrows()
        .map(|r| (0..r.len()).map(|i| if matches!(r[i], crate::types::DataType::Null) { None } else { r[i].to_f64().map(|x| x as i64) }).collect())
        .collect();
    out.sort();
    out
}

#[test]
fn count_of_a_column_skips_nulls_count_star_does_not() {
    let dir = tempfile::TempDir::new().unwrap();
    let db = Database::create(dir.path().join("t.db"), DBConfig::default()).unwrap();
    db.execute("CREATE TABLE t (id BIGINT, g BIGINT, v BIGINT)").unwrap();
    db.execute("INSERT INTO t VALUES (1, 1, NULL), (2, 1, 10), (3, 1, NULL), (4, 2, NULL), (5, 2, NULL), (6, 3, 7), (7, 3, 8)").unwrap();
    assert_eq!(ints(&db, "SELECT COUNT(*) FROM t"), vec![vec![Some(7)]], "COUNT(*)");
    assert_eq!(ints(&db, "SELECT COUNT(v) FROM t"), vec![vec![Some(3)]], "COUNT(v) over a column with NULLs");
    assert_eq!(ints(&db, "SELECT COUNT(id) FROM t"), vec![vec![Some(7)]], "COUNT(id) without NULLs");
    assert_eq!(ints(&db, "SELECT g, COUNT(*), COUNT(v) FROM t GROUP BY g"),
               vec![vec![Some(1), Some(3), Some(1)], vec![Some(2), Some(2), Some(0)], vec![Some(3), Some(2), Some(2)]], "per group");
    assert_eq!(ints(&db, "SELECT COUNT(v), SUM(v), MIN(v), MAX(v) FROM t"), vec![vec![Some(3), Some(25), Some(7), Some(10)]], "next to other aggregates");
    assert_eq!(ints(&db, "SELECT COUNT(v) FROM t WHERE g = 2"), vec![vec![Some(0)]], "all-NULL input");
}

#[test]
fn distinct_aggregates_feed_each_value_once() {
    let dir = tempfile::TempDir::new().unwrap();
    let db = Database::create(dir.path().join("t.db"), DBConfig::default()).unwrap();
    db.execute("CREATE TABLE t (id BIGINT, g BIGINT, v BIGINT)").unwrap();
    db.execute("INSERT INTO t VALUES (1, 1, 5), (2, 1, 5), (3, 1, 7), (4, 1, NULL), (5, 2, 9), (6, 2, 9), (7, 2, NULL), (8, 3, NULL)").unwrap();
    assert_eq!(ints(&db, "SELECT COUNT(DISTINCT v) FROM t"), vec![vec![Some(3)]], "COUNT(DISTINCT v)");
    assert_eq!(ints(&db, "SELECT COUNT(v) FROM t"), vec![vec![Some(5)]], "COUNT(v) next to it");
    assert_eq!(ints(&db, "SELECT g, COUNT(DISTINCT v), COUNT(v), COUNT(*) FROM t GROUP BY g"),
               vec![vec![Some(1), Some(2), Some(3), Some(4)], vec![Some(2), Some(1), Some(2), Some(3)], vec![Some(3), Some(0), Some(0), Some(1)]], "per group");
    assert_eq!(ints(&db, "SELECT SUM(DISTINCT v), SUM(v) FROM t"), vec![vec![Some(21), Some(35)]], "SUM(DISTINCT v)");
    assert_eq!(ints(&db, "SELECT COUNT(DISTINCT v), COUNT(DISTINCT g) FROM t"), vec![vec![Some(3), Some(3)]], "two distinct aggregates keep separate sets");
}
