// replay for obligation C19.eq_implies_hash_eq[BigInt,Double/-0.0] (harness c19_find_hash_negzero_int)
// harness-file: c19_types.rs
// failed: eq_implies_hash_eq
// native outcome when recorded: panicked: thread 'types::__verif_c19_types::kani_concrete_playback_c19_find_hash_negzero_int_789539223488442634' (14026) panicked at /var/tmp/axv-c19-6fdwgloi/src/crates/axmos-db/src/__verif/c19_types.rs:417:1: | eq_implies_hash_eq
// re-run: /verif/bin/check --replay /verif/replays/C19/c19_find_hash_negzero_int.rs
#[test]
fn kani_concrete_playback_c19_find_hash_negzero_int_789539223488442634() {
    let concrete_vals: Vec<Vec<u8>> = vec![
        // 0
        vec![0, 0, 0, 0, 0, 0, 0, 0],
        // -0
        vec![0, 0, 0, 0, 0, 0, 0, 128],
    ];
    kani::concrete_playback_run(concrete_vals, c19_find_hash_negzero_int);
}

