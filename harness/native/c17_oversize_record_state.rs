// host: io/wal.rs
// Native scenario for C17.push_step[admitted_size_fits_empty_block]: a record that passes the size check must be
// storable; a rejected record must leave the log's counters untouched.
use super::*;
use crate::storage::wal::{OwnedRecord, RecordType};

#[test]
fn rejected_record_changes_nothing() {
    let dir = tempfile::tempdir().unwrap();
    let probe = WriteAheadLog::create(dir.path().join("probe.log")).unwrap();
    let cap = probe.max_record_size();
    drop(probe);
    // probe payload sizes around the block capacity, each on a fresh log
    for (i, payload) in (cap.saturating_sub(256)..cap).step_by(8).enumerate() {
        let mut wal = WriteAheadLog::create(dir.path().join(format!("w{}.log", i))).unwrap();
        let redo = vec![1u8; payload];
        let r = OwnedRecord::new(1, 1, None, Some(1), Some(1), RecordType::Insert, &[], &redo);
        let res = wal.push(r);
        let n = wal.stats().total_entries;
        std::mem::forget(wal);
        if res.is_err() {
            assert_eq!(n, 0, "a record with {} payload bytes was rejected AFTER the log counters were advanced", payload);
        }
    }
}
