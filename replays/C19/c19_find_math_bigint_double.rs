// replay for obligation C19.cmp_matches_math[BigInt,Double/big] (harness c19_find_math_bigint_double)
// harness-file: c19_types.rs
// failed: cmp_matches_math
// native outcome when recorded: panicked: thread 'types::__verif_c19_types::kani_concrete_playback_c19_find_math_bigint_double_5644396532632999471' (14031) panicked at /var/tmp/axv-c19-6fdwgloi/src/crates/axmos-db/src/__verif/c19_types.rs:425:1: | cmp_matches_math
// re-run: /verif/bin/check --replay /verif/replays/C19/c19_find_math_bigint_double.rs
#[test]
fn kani_concrete_playback_c19_find_math_bigint_double_5644396532632999471() {
    let concrete_vals: Vec<Vec<u8>> = vec![
        // 36028797018963966
        vec![254, 255, 255, 255, 255, 255, 127, 0],
        // 3.602880e+16
        vec![0, 0, 0, 0, 0, 0, 96, 67],
    ];
    kani::concrete_playback_run(concrete_vals, c19_find_math_bigint_double);
}

#[test]
fn kani_concrete_playback_c19_find_math_bigint_double_9537231958094831229() {
    let concrete_vals: Vec<Vec<u8>> = vec![
        // 13508617038725121
        vec![1, 0, 0, 0, 4, 254, 47, 0],
        // -1.547425e+26
        vec![127, 0, 252, 255, 255, 255, 95, 197],
    ];
    kani::concrete_playback_run(concrete_vals, c19_find_math_bigint_double);
}

