// host: lib.rs
// Native scenario for C03.commit_only_on_success: a statement (or batch) that fails after it has already written
// something leaves none of it behind.
use crate::{DBConfig, Database};

fn count(db: &Database, table: &str) -> usize {
    db.execute(&format!("SELECT * FROM {table}")).unwrap().into_rows().map(|r| r.len()).unwrap_or(0)
}

#[test]
fn failed_multi_row_insert_leaves_no_rows() {
    let dir = tempfile::TempDir::new().unwrap();
    let db = Database::create(dir.path().join("t.db"), DBConfig::default()).unwrap();
    db.execute("CREATE TABLE t (id BIGINT, name TEXT, age INT)").unwrap();
    db.execute("INSERT INTO t VALUES (1, 'a', 10)").unwrap();
    let r = db.execute("INSERT INTO t VALUES (4, 'd', 40), (5, 'e', 'oops')");
    assert!(r.is_err(), "the statement with a mistyped second row was accepted");
    assert_eq!(count(&db, "t"), 1, "rows written by a failed statement are visible");
    let r = db.execute_batch(&["INSERT INTO t VALUES (2, 'b', 20)", "INSERT INTO nonexistent VALUES (3, 30)"]);
    assert!(r.is_err());
    assert_eq!(count(&db, "t"), 1, "rows written by a failed batch are visible");
}
