// host: storage/tuple.rs
// Native scenario for C18.older_deltas_stay_where_readers_look: two updates whose second delta ends off the 8-byte grid
// (its old value is a BOOL); every walk over the version chain still finds both older versions, and VACUUM with a
// horizon of 0 keeps the tuple unchanged.
use super::*;
use crate::schema::{Column, Schema};
use crate::types::{DataType, DataTypeKind, Int32, UInt64, bool::Bool};
use std::collections::HashMap;

#[test]
fn older_deltas_are_found_after_a_delta_that_ends_unaligned() {
    let schema = Schema::new_table(vec![
        Column::new_with_defaults(DataTypeKind::BigUInt, "k"),
        Column::new_with_defaults(DataTypeKind::Bool, "f"),
        Column::new_with_defaults(DataTypeKind::Int, "b"),
    ]);
    let row = Row::new(vec![DataType::BigUInt(UInt64(1)), DataType::Bool(Bool(true)), DataType::Int(Int32(20))].into_boxed_slice());
    let mut t = TupleBuilder::from_schema(&schema).build(&row, 1).unwrap();
    let mut m = HashMap::new();
    m.insert(1usize, DataType::Int(Int32(21)));
    t.add_version_with(&m, 2, &schema).unwrap();
    assert_eq!(t.num_versions_with(&schema).unwrap(), 2);
    let mut m = HashMap::new();
    m.insert(0usize, DataType::Bool(Bool(false)));
    t.add_version_with(&m, 3, &schema).unwrap();
    let n = std::panic::catch_unwind(std::panic::AssertUnwindSafe(|| t.num_versions_with(&schema)));
    assert!(matches!(n, Ok(Ok(3))), "walking the chain after the second update does not find 3 versions: {:?}", n.map(|r| r.map_err(|e| e.to_string())));
    let before = t.effective_data().to_vec();
    let freed = t.vaccum_with(0, &schema).unwrap();
    assert_eq!(freed, 0, "VACUUM with horizon 0 must keep every version");
    assert_eq!(t.effective_data(), &before[..], "VACUUM with horizon 0 changed the tuple");
    // a third update on top: still every version is found
    let mut m = HashMap::new();
    m.insert(1usize, DataType::Int(Int32(22)));
    t.add_version_with(&m, 4, &schema).unwrap();
    assert_eq!(t.num_versions_with(&schema).unwrap(), 4);
}
