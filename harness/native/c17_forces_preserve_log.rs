// host: io/wal.rs
// Native scenario for C17.flush_no_overwrite / C17.flush_header_covers (also C01): records appended and forced in
// several rounds, with payloads large enough to leave block zero, must all be read back, in order, after reopening.
use super::*;
use crate::storage::wal::{OwnedRecord, RecordType};

fn rec(lsn: u64, payload: usize) -> OwnedRecord {
    let redo = vec![(lsn % 251) as u8; payload];
    OwnedRecord::new(lsn, 1, None, Some(1), Some(lsn), RecordType::Insert, &[], &redo)
}

fn read_back(path: &std::path::Path) -> Vec<u64> {
    let mut wal = WriteAheadLog::open(path).unwrap();
    let mut out = Vec::new();
    let mut rd = wal.reader(4).unwrap();
    while let Some(r) = rd.next_ref().unwrap() {
        out.push(r.lsn());
    }
    out
}

#[test]
fn every_forced_record_is_read_back_in_order() {
    let dir = tempfile::tempdir().unwrap();
    let path = dir.path().join("w.log");
    let mut appended = Vec::new();
    {
        let mut wal = WriteAheadLog::create(&path).unwrap();
        let big = wal.max_record_size() / 3; // three of these overflow one block
        let mut lsn = 1u64;
        for _round in 0..4 {
            for _ in 0..4 {
                wal.push(rec(lsn, big)).unwrap();
                appended.push(lsn);
                lsn += 1;
            }
            wal.perform_flush().unwrap(); // force: everything appended so far is acknowledged
        }
        std::mem::forget(wal); // crash: no Drop
    }
    let got = read_back(&path);
    assert_eq!(got, appended, "the log does not return exactly the forced records (appended {} read {})", appended.len(), got.len());
}
