// host: lib.rs
// Native scenario for C03.dropped_handle_aborts: a statement that fails after it has begun leaves its transaction
// aborted (not Active), so that its partial writes stay invisible and are remembered as aborted.
use crate::multithreading::coordinator::TransactionState;
use crate::{DBConfig, Database};

#[test]
fn failed_autocommit_statement_leaves_no_active_transaction() {
    let dir = tempfile::TempDir::new().unwrap();
    let db = Database::create(dir.path().join("t.db"), DBConfig::default()).unwrap();
    db.execute("CREATE TABLE t (id BIGINT, v INT)").unwrap();
    db.execute("INSERT INTO t VALUES (1, 10)").unwrap();
    let r = db.execute_batch(&["INSERT INTO t VALUES (2, 20)", "INSERT INTO nonexistent VALUES (3, 30)"]);
    assert!(r.is_err());
    let active = db.coordinator().transaction_set(TransactionState::Active);
    assert!(active.is_empty(), "failed batch left transaction(s) {:?} Active instead of aborting them", active);
}
