// host: lib.rs
// Native scenario for C01.redo_applies_committed_rows: rows inserted by acknowledged autocommit statements are present
// after a crash, with and without a checkpoint in between.
use crate::{DBConfig, Database};

fn crash_image(dir: &std::path::Path) -> tempfile::TempDir {
    let img = tempfile::TempDir::new().unwrap();
    std::fs::copy(dir.join("test.db"), img.path().join("test.db")).unwrap();
    std::fs::copy(dir.join("axmos.log"), img.path().join("axmos.log")).unwrap();
    img
}

fn count(db: &Database) -> i64 {
    db.execute("SELECT COUNT(*) FROM t").unwrap().into_rows().unwrap().first().unwrap()[0].as_big_int().unwrap().value()
}

#[test]
fn inserts_without_checkpoint_survive_crash() {
    let dir = tempfile::TempDir::new().unwrap();
    let db = Database::create(dir.path().join("test.db"), DBConfig::default()).unwrap();
    db.execute("CREATE TABLE t (id BIGINT, v INT)").unwrap();
    for i in 0..5 {
        db.execute(&format!("INSERT INTO t VALUES ({}, {})", i, i)).unwrap();
    }
    let img = crash_image(dir.path());
    let re = Database::open(img.path().join("test.db"), DBConfig::default()).unwrap();
    assert_eq!(count(&re), 5, "acknowledged INSERTs are missing after the crash");
    std::mem::forget(db);
}

#[test]
fn inserts_after_checkpoint_survive_crash() {
    let dir = tempfile::TempDir::new().unwrap();
    let db = Database::create(dir.path().join("test.db"), DBConfig::default()).unwrap();
    db.execute("CREATE TABLE t (id BIGINT, v INT)").unwrap();
    for i in 0..5 {
        db.execute(&format!("INSERT INTO t VALUES ({}, {})", i, i)).unwrap();
    }
    db.flush().unwrap();
    for i in 5..9 {
        db.execute(&format!("INSERT INTO t VALUES ({}, {})", i, i)).unwrap();
    }
    let img = crash_image(dir.path());
    let re = Database::open(img.path().join("test.db"), DBConfig::default()).unwrap();
    assert_eq!(count(&re), 9, "INSERTs acknowledged after the checkpoint are missing after the crash");
    std::mem::forget(db);
}

#[test]
fn update_of_a_row_inserted_after_the_checkpoint_survives_crash() {
    let dir = tempfile::TempDir::new().unwrap();
    let db = Database::create(dir.path().join("test.db"), DBConfig::default()).unwrap();
    db.execute("CREATE TABLE t (id BIGINT, v INT)").unwrap();
    db.execute("INSERT INTO t VALUES (1, 10)").unwrap();
    db.flush().unwrap();
    db.execute("INSERT INTO t VALUES (2, 20)").unwrap();
    db.execute("UPDATE t SET v = 21 WHERE id = 2").unwrap();
    db.execute("UPDATE t SET v = 11 WHERE id = 1").unwrap();
    db.execute("DELETE FROM t WHERE id = 1").unwrap();
    let img = crash_image(dir.path());
    let re = Database::open(img.path().join("test.db"), DBConfig::default()).unwrap();
    assert_eq!(count(&re), 1, "row count after the crash");
    let rows = re.execute("SELECT v FROM t WHERE id = 2").unwrap().into_rows().unwrap();
    let v = format!("{:?}", rows.first().unwrap()[0]);
    assert!(v.contains("21"), "acknowledged UPDATE of a row inserted after the checkpoint is lost: v = {}", v);
    std::mem::forget(db);
}
