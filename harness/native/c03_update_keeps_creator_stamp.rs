// host: lib.rs
// Native scenario for C03.update_stamp: the new version written by UPDATE keeps the ORIGINAL creator's stamp, so a
// rolled-back (or still uncommitted) update is visible to everybody.
use crate::{DBConfig, Database};

fn value(db: &Database) -> i32 {
    let r = db.execute("SELECT v FROM t WHERE id = 1").unwrap();
    r.into_rows().unwrap().first().unwrap()[0].as_int().unwrap().value()
}

#[test]
fn rolled_back_update_is_invisible() {
    let dir = tempfile::TempDir::new().unwrap();
    let db = Database::create(dir.path().join("t.db"), DBConfig::default()).unwrap();
    db.execute("CREATE TABLE t (id BIGINT, v INT)").unwrap();
    db.execute("INSERT INTO t VALUES (1, 100)").unwrap();
    let mut s = db.session().unwrap();
    s.execute("UPDATE t SET v = 999 WHERE id = 1").unwrap();
    assert_eq!(value(&db), 100, "uncommitted UPDATE of another session is visible (dirty read)");
    s.abort_transaction().unwrap();
    std::mem::forget(s);
    assert_eq!(value(&db), 100, "rolled-back UPDATE is visible");
}
