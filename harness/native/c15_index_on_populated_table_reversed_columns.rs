// host: lib.rs
// Native scenario for C15.index_backfill_follows_declared_columns: a unique index declared over columns in an order
// different from the table's, created on a populated table, protects the rows that were already there.
use crate::{DBConfig, Database};

#[test]
fn backfilled_entries_use_the_declared_column_order() {
    let dir = tempfile::TempDir::new().unwrap();
    let db = Database::create(dir.path().join("t.db"), DBConfig::default()).unwrap();
    db.execute("CREATE TABLE p (id BIGINT, first TEXT, last TEXT)").unwrap();
    db.execute("INSERT INTO p VALUES (1, 'ann', 'zed')").unwrap();
    db.execute("INSERT INTO p VALUES (2, 'bob', 'yow')").unwrap();
    db.execute("CREATE UNIQUE INDEX idx_name ON p(last, first)").unwrap();
    assert!(db.execute("INSERT INTO p VALUES (3, 'ann', 'zed')").is_err(), "duplicate of a row that existed before the index was accepted");
    assert!(db.execute("INSERT INTO p VALUES (4, 'zed', 'ann')").is_ok(), "a different (last, first) pair was rejected");
}
