// replay for obligation C16.arith[mul][int_pairs/overflow] (harness c16_arith_mul_overflow)
// harness-file: c16_arith.rs
// failed: attempt to multiply with overflow
// native outcome when recorded: panicked: thread 'types::__verif_c16_arith::kani_concrete_playback_c16_arith_mul_overflow_1221825906691272988' (6950) panicked at crates/axmos-db/src/types/core.rs:175:9: | attempt to multiply with overflow
// re-run: /verif/bin/check --replay /verif/replays/C16/c16_arith_mul_overflow.rs
#[test]
fn kani_concrete_playback_c16_arith_mul_overflow_1221825906691272988() {
    let concrete_vals: Vec<Vec<u8>> = vec![
        // 1610612736
        vec![0, 0, 0, 96],
        // 1
        vec![1, 0, 0, 0],
        // -2147483648
        vec![0, 0, 0, 128],
        // 1
        vec![1, 0, 0, 0],
        // 4290764784
        vec![240, 223, 191, 255],
        // -2143289344
        vec![0, 0, 64, 128],
        // 4294967295
        vec![255, 255, 255, 255],
        // 4294967295
        vec![255, 255, 255, 255],
        // 2097152
        vec![0, 0, 32, 0],
        // -1729382256910270465
        vec![255, 255, 255, 255, 255, 255, 255, 231],
    ];
    kani::concrete_playback_run(concrete_vals, c16_arith_mul_overflow);
}

#[test]
fn kani_concrete_playback_c16_arith_mul_overflow_8597153739506393759() {
    let concrete_vals: Vec<Vec<u8>> = vec![
        // 0
        vec![0, 0, 0, 0],
        // 0
        vec![0, 0, 0, 0],
        // 0
        vec![0, 0, 0, 0],
        // 0
        vec![0, 0, 0, 0],
        // 0
        vec![0, 0, 0, 0],
        // 0
        vec![0, 0, 0, 0],
        // 0
        vec![0, 0, 0, 0],
        // 0
        vec![0, 0, 0, 0],
        // 0
        vec![0, 0, 0, 0],
        // 0
        vec![0, 0, 0, 0, 0, 0, 0, 0],
        // 0
        vec![0, 0, 0, 0, 0, 0, 0, 0],
        // 0
        vec![0, 0, 0, 0],
        // 0
        vec![0, 0, 0, 0, 0, 0, 0, 0],
        // 0
        vec![0, 0, 0, 0, 0, 0, 0, 0],
        // 0
        vec![0, 0, 0, 0],
        // 0ul
        vec![0, 0, 0, 0, 0, 0, 0, 0],
        // 0ul
        vec![0, 0, 0, 0, 0, 0, 0, 0],
        // 0
        vec![0, 0, 0, 0],
        // 0
        vec![0, 0, 0, 0, 0, 0, 0, 0],
        // 0
        vec![0, 0, 0, 0],
        // 0
        vec![0, 0, 0, 0],
        // 0
        vec![0, 0, 0, 0, 0, 0, 0, 0],
        // 0
        vec![0, 0, 0, 0, 0, 0, 0, 0],
        // 0ul
        vec![0, 0, 0, 0, 0, 0, 0, 0],
        // 0ul
        vec![0, 0, 0, 0, 0, 0, 0, 0],
        // 0
        vec![0, 0, 0, 0, 0, 0, 0, 0],
        // 0
        vec![0, 0, 0, 0],
        // 0ul
        vec![0, 0, 0, 0, 0, 0, 0, 0],
        // 0ul
        vec![0, 0, 0, 0, 0, 0, 0, 0],
        // 0
        vec![0, 0, 0, 0],
        // 9223372036854775808ul
        vec![0, 0, 0, 0, 0, 0, 0, 128],
        // 9223372036854775808ul
        vec![0, 0, 0, 0, 0, 0, 0, 128],
    ];
    kani::concrete_playback_run(concrete_vals, c16_arith_mul_overflow);
}

