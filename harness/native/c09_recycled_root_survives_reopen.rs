// host: lib.rs
// Native scenario for C09.allocated_page_is_dirty: a table created on a page recycled from the free list and left empty
// must still be a usable table after close/reopen.
use crate::{DBConfig, Database};

#[test]
fn empty_table_on_recycled_page_survives_reopen() {
    let dir = tempfile::TempDir::new().unwrap();
    let path = dir.path().join("t.db");
    {
        let db = Database::create(&path, DBConfig::default()).unwrap();
        db.execute("CREATE TABLE a (id BIGINT, v INT)").unwrap();
        for i in 0..50 {
            db.execute(&format!("INSERT INTO a VALUES ({}, {})", i, i)).unwrap();
        }
        db.execute("DROP TABLE a").unwrap(); // pages go to the free list
        db.execute("CREATE TABLE b (id BIGINT, v INT)").unwrap(); // root taken from the free list, left empty
    }
    let db = Database::open(&path, DBConfig::default()).unwrap();
    db.execute("INSERT INTO b VALUES (1, 10)").expect("INSERT into a table created before the reopen failed");
    let n = db.execute("SELECT COUNT(*) FROM b").unwrap().into_rows().unwrap().first().unwrap()[0].as_big_int().unwrap().value();
    assert_eq!(n, 1);
}
