// Kani harnesses (child module of crates/axmos-db/src/io/wal.rs).  See /verif/HARNESS_GUIDE.md
// C17 / C01 — ONE-STEP inductive harnesses over the private state of `WriteAheadLog` / `WalReader`.
//
// Ghost state.  T = number of blocks that are durable in the file (block zero included) = the `total_blocks`
// value written by the last successful force (1 for a freshly created / truncated log).
// Representation invariant assumed for a pre-state (INV), each clause justified by the code that establishes it:
//   * block_size == 4096 for header, current block and every queued block (all come from `self.block_size`);
//   * used_bytes of every block is a multiple of 8 (every record size is, C17.record_padding) and
//     <= its capacity (try_push compares against available_space first, C17.block_space_arith);
//   * flush_queue non-empty  =>  current_block is Some (rotate_block always installs a new current block);
//   * queued blocks are only produced by rotate_block, at most q <= 2 of them here (bound).
#![allow(unused_imports, dead_code, clippy::all, static_mut_refs)]
use super::*;
/// Build a value field by field on zeroed memory instead of with a struct literal: a field ADDED to the struct by a
/// change under test (all-zero = its natural initial value for counters / ids / None) must not stop the harness file
/// from compiling - it would turn every obligation of the property into "inconclusive".
macro_rules! zeroed_build {
    ($t:ty { $($f:ident : $v:expr),* $(,)? }) => {{
        let mut m = std::mem::MaybeUninit::<$t>::zeroed();
        unsafe {
            let p = m.as_mut_ptr();
            $( std::ptr::addr_of_mut!((*p).$f).write($v); )*
            m.assume_init()
        }
    }};
}
use crate::storage::wal::{BlockHeader, BlockZeroHeader, RecordHeader};
use std::os::fd::FromRawFd;

const BS: usize = 4096;
const BH: usize = std::mem::size_of::<BlockHeader>();
const BZH: usize = std::mem::size_of::<BlockZeroHeader>();
const RH: usize = std::mem::size_of::<RecordHeader>();
/// largest used_bytes of a WalBlock / of block zero (available_space subtracts the header twice)
const WB_CAP: usize = BS - 2 * BH;
const BZ_CAP: usize = BS - 2 * BZH;

fn okf<T, E>(r: Result<T, E>) -> Option<T> {
    match r {
        Ok(v) => Some(v),
        Err(e) => {
            std::mem::forget(e);
            None
        }
    }
}

/// `format!` only builds the error text of the "record too large" branch
pub(crate) fn stub_format(_a: std::fmt::Arguments<'_>) -> String {
    String::new()
}

// ---- a DBFile that is never really used: every operation on it is replaced by a recording stub -------------
struct FakeDbFile {
    f: std::fs::File,
    p: std::path::PathBuf,
}
/// `DBFile { f: File, p: PathBuf }` has private fields; same field list => same layout.  fd 1_000_000 is not open:
/// natively (no stubs) every operation fails with EBADF instead of touching a real file.
fn fake_dbfile() -> DBFile {
    let fake = FakeDbFile { f: unsafe { std::fs::File::from_raw_fd(1_000_000) }, p: std::path::PathBuf::new() };
    unsafe { std::mem::transmute::<FakeDbFile, DBFile>(fake) }
}

// ---- trace of file operations ------------------------------------------------------------------------------
const TR_MAX: usize = 6;
#[derive(Clone, Copy)]
struct Ev {
    kind: u8, // 1 = write, 2 = sync
    off: u64, // file position the write landed on
    len: usize,
    ptr: *const u8, // identity of the buffer written
    hdr_total_blocks: u64,   // for writes at offset 0: fields of the WAL header inside the buffer
    hdr_last_block_used: u32,
    hdr_used_bytes: u64,
}
const EV0: Ev = Ev { kind: 0, off: 0, len: 0, ptr: std::ptr::null(), hdr_total_blocks: 0, hdr_last_block_used: 0, hdr_used_bytes: 0 };
struct Trace {
    pos: u64,
    pos_valid: bool, // false until the first absolute seek
    bad_seek: bool,  // a relative seek was used
    n: usize,
    overflow: bool,
    ev: [Ev; TR_MAX],
    reads: usize,
    read_past_end: bool,
    read_limit: u64,
}
static mut TR: Trace = Trace { pos: 0, pos_valid: false, bad_seek: false, n: 0, overflow: false, ev: [EV0; TR_MAX], reads: 0, read_past_end: false, read_limit: 0 };

pub(crate) fn stub_seek(_f: &mut DBFile, pos: SeekFrom) -> io::Result<u64> {
    unsafe {
        match pos {
            SeekFrom::Start(o) => {
                TR.pos = o;
                TR.pos_valid = true;
                Ok(o)
            }
            _ => {
                TR.bad_seek = true;
                Ok(0)
            }
        }
    }
}
/// whole-buffer write at the current position (short / failing writes are outside the model)
pub(crate) fn stub_write(_f: &mut DBFile, buf: &[u8]) -> io::Result<usize> {
    unsafe {
        if TR.n < TR_MAX {
            let mut e = EV0;
            e.kind = 1;
            e.off = TR.pos;
            e.len = buf.len();
            e.ptr = buf.as_ptr();
            if TR.pos == 0 && buf.len() >= BZH {
                let h = &*(buf.as_ptr() as *const BlockZeroHeader);
                e.hdr_total_blocks = h.wal_header.total_blocks;
                e.hdr_last_block_used = h.wal_header.last_block_used;
                e.hdr_used_bytes = h.block_header.used_bytes;
            }
            TR.ev[TR.n] = e;
            TR.n += 1;
        } else {
            TR.overflow = true;
        }
        if !TR.pos_valid {
            TR.bad_seek = true;
        }
        TR.pos += buf.len() as u64;
    }
    Ok(buf.len())
}
pub(crate) fn stub_sync(_f: &DBFile) -> io::Result<()> {
    unsafe {
        if TR.n < TR_MAX {
            let mut e = EV0;
            e.kind = 2;
            TR.ev[TR.n] = e;
            TR.n += 1;
        } else {
            TR.overflow = true;
        }
    }
    Ok(())
}

// ---- pre-state builders ------------------------------------------------------------------------------------
fn any_used(cap: usize) -> u64 {
    let u: usize = kani::any();
    kani::assume(u % 8 == 0 && u <= cap);
    u as u64
}
/// block zero with arbitrary counters and fill level
fn any_header(total_blocks: u64) -> BlockZero {
    let mut h = BlockZero::alloc(0, BS);
    let m = h.metadata_mut();
    m.block_header.used_bytes = any_used(BZ_CAP);
    m.block_header.block_first_lsn = kani::any();
    m.block_header.block_last_lsn = kani::any();
    m.wal_header.global_start_lsn = kani::any();
    m.wal_header.global_last_lsn = kani::any();
    m.wal_header.total_entries = kani::any();
    m.wal_header.last_block_used = kani::any();
    m.wal_header.last_checkpoint_offset = kani::any();
    m.wal_header.total_blocks = total_blocks;
    h
}
fn any_block(id: BlockId, used: u64) -> WalBlock {
    let mut b = WalBlock::alloc(id, BS);
    b.metadata_mut().used_bytes = used;
    b.metadata_mut().block_first_lsn = kani::any();
    b.metadata_mut().block_last_lsn = kani::any();
    b
}

// =============================================================================================================
// C17.flush_step / C01 : one call of perform_flush (the force)
// =============================================================================================================
struct FlushPre {
    wal: WriteAheadLog,
    t: u64,
    qptr: [*const u8; 2],
    cur_ptr: *const u8,
    cur_used: u64, // 0 when there is no current block
    has_cur: bool,
    hdr_ptr: *const u8,
    hdr_used: u64,
}
/// arbitrary pre-state satisfying INV with `q` queued blocks and T in [t_lo, t_hi]
fn flush_pre(q: usize, t_lo: u64, t_hi: u64) -> FlushPre {
    let t: u64 = kani::any();
    kani::assume(t >= t_lo && t <= t_hi);
    // rotate_block bumps total_blocks once per queued block
    let header = any_header(t + q as u64);
    let hdr_ptr = header.as_ref().as_ptr();
    let hdr_used = header.metadata().block_header.used_bytes;
    let mut queue: VecDeque<WalBlock> = VecDeque::with_capacity(2);
    let mut qptr = [std::ptr::null::<u8>(); 2];
    let mut i = 0;
    while i < q {
        let b = any_block(kani::any(), any_used(WB_CAP));
        qptr[i] = b.as_ref().as_ptr();
        queue.push_back(b);
        i += 1;
    }
    let has_cur: bool = if q > 0 { true } else { kani::any() };
    let (current_block, cur_ptr, cur_used) = if has_cur {
        let used = any_used(WB_CAP);
        let b = any_block(kani::any(), used);
        let p = b.as_ref().as_ptr();
        (Some(b), p, used)
    } else {
        (None, std::ptr::null(), 0)
    };
    let wal = zeroed_build!(WriteAheadLog { header: header, current_block: current_block, flush_queue: queue, file: fake_dbfile(), block_size: BS });
    FlushPre { wal, t, qptr, cur_ptr, cur_used, has_cur, hdr_ptr, hdr_used }
}
fn ev(i: usize) -> Ev {
    unsafe { TR.ev[i] }
}
fn n_ev() -> usize {
    unsafe { TR.n }
}

/// which law a flush harness asserts
const LAW_ORDER: u8 = 0;
const LAW_NO_OVERWRITE: u8 = 1;
const LAW_HEADER_COVERS: u8 = 2;

fn flush_check(q: usize, t_lo: u64, t_hi: u64, law: u8, need_data: bool) {
    let mut s = flush_pre(q, t_lo, t_hi);
    // number of data blocks a force has to write: the queue and a non-empty current block
    let cur_written = s.has_cur && s.cur_used > 0;
    let w = q + if cur_written { 1 } else { 0 };
    if need_data {
        kani::assume(w >= 1);
    }
    kani::cover!(true, "reach");
    let ok = okf(s.wal.perform_flush()).is_some();
    let n = n_ev();
    let bs = BS as u64;
    if law == LAW_ORDER {
        assert!(ok, "force_succeeds_when_io_succeeds");
        assert!(unsafe { !TR.overflow && !TR.bad_seek }, "every_write_preceded_by_absolute_seek");
        assert!(n == w + 2, "force_writes_each_pending_block_once_then_header_then_sync");
        // data blocks: queue order, then the current block, whole blocks at consecutive block-aligned offsets
        let mut i = 0;
        while i < w {
            let e = ev(i);
            assert!(e.kind == 1 && e.len == BS, "data_block_written_whole");
            assert!(e.off % bs == 0 && e.off >= bs, "data_block_offset_block_aligned_beyond_block_zero");
            if i > 0 {
                assert!(e.off == ev(i - 1).off + bs, "data_blocks_at_consecutive_distinct_offsets");
            }
            let want = if i < q { s.qptr[i] } else { s.cur_ptr };
            assert!(e.ptr == want, "pending_blocks_written_in_append_order");
            i += 1;
        }
        // header after the data, at offset 0, from the in-memory block zero; sync is the last event
        if n == w + 2 {
            let h = ev(w);
            assert!(h.kind == 1 && h.off == 0 && h.len == BS && h.ptr == s.hdr_ptr, "header_block_written_after_data_at_offset_0");
            assert!(h.hdr_used_bytes == s.hdr_used, "header_block_keeps_its_records");
            assert!(ev(w + 1).kind == 2, "sync_is_last");
            if cur_written {
                assert!(h.hdr_last_block_used as u64 == s.cur_used, "header_last_block_used_is_last_block_fill");
            }
            if w == 0 && !s.has_cur {
                assert!(h.hdr_last_block_used as u64 == s.hdr_used, "header_last_block_used_is_last_block_fill");
            }
        }
        // nothing stays pending (so nothing is written twice by the next force)
        assert!(s.wal.flush_queue.is_empty() && s.wal.current_block.is_none(), "nothing_pending_after_force");
    }
    if law == LAW_NO_OVERWRITE {
        // a force never destroys previously forced blocks 1..T
        let mut i = 0;
        while i < n {
            let e = ev(i);
            if e.kind == 1 && e.ptr != s.hdr_ptr {
                assert!(e.off >= s.t * bs, "durable_block_not_overwritten");
            }
            i += 1;
        }
        assert!(n >= w, "pending_blocks_written");
    }
    if law == LAW_HEADER_COVERS {
        // the header that reaches the disk announces exactly the durable blocks + the ones just written
        assert!(n == w + 2 && ev(w).off == 0 && ev(w).ptr == s.hdr_ptr, "header_block_written_after_data_at_offset_0");
        assert!(ev(w).hdr_total_blocks == s.t + w as u64, "header_total_blocks_covers_all_durable_blocks");
        assert!(s.wal.header.metadata().wal_header.total_blocks == s.t + w as u64, "memory_total_blocks_covers_all_durable_blocks");
    }
    std::mem::forget(s);
}

macro_rules! hflush {
    ($name:ident, $q:expr, $tlo:expr, $thi:expr, $law:expr, $need:expr) => {
        #[kani::proof]
        #[kani::unwind(8)]
        #[kani::stub(<DBFile as std::io::Seek>::seek, stub_seek)]
        #[kani::stub(<DBFile as std::io::Write>::write, stub_write)]
        #[kani::stub(<DBFile as FileOperations>::sync_all, stub_sync)]
        fn $name() {
            flush_check($q, $tlo, $thi, $law, $need);
        }
    };
}

// --- laws that hold for every T: ordering, completeness, contiguity -----------------------------------------
// @obl harness=c17_flush_order_q0 id=C17.flush_order[q=0] also=C01 native=c17_forces_preserve_log tier=thorough funcs="WriteAheadLog::perform_flush" bounds="block 4096; T in 1..=1000; empty flush queue; current block absent or with any used_bytes (multiple of 8 <= 3968); header counters symbolic" stubs="<DBFile as Seek>::seek,<DBFile as Write>::write,<DBFile as FileOperations>::sync_all" assume="INV (see file header): used_bytes multiple of 8 and <= capacity; whole-buffer writes that succeed"
hflush!(c17_flush_order_q0, 0, 1, 1000, LAW_ORDER, false);
// @obl harness=c17_flush_order_q1 id=C17.flush_order[q=1] also=C01 native=c17_forces_preserve_log tier=quick funcs="WriteAheadLog::perform_flush" bounds="block 4096; T in 1..=1000; 1 queued block + current block, any used_bytes" stubs="<DBFile as Seek>::seek,<DBFile as Write>::write,<DBFile as FileOperations>::sync_all" assume="INV: queue non-empty => current block present; used_bytes multiple of 8 and <= capacity; whole-buffer writes that succeed"
hflush!(c17_flush_order_q1, 1, 1, 1000, LAW_ORDER, false);
// @obl harness=c17_flush_order_q2 id=C17.flush_order[q=2] also=C01 native=c17_forces_preserve_log tier=thorough funcs="WriteAheadLog::perform_flush" bounds="block 4096; T in 1..=1000; 2 queued blocks + current block, any used_bytes" stubs="<DBFile as Seek>::seek,<DBFile as Write>::write,<DBFile as FileOperations>::sync_all" assume="INV: queue non-empty => current block present; used_bytes multiple of 8 and <= capacity; whole-buffer writes that succeed"
hflush!(c17_flush_order_q2, 2, 1, 1000, LAW_ORDER, false);

// --- no durable block is overwritten: complement region T == 1 (nothing but block zero is durable) ----------
// @obl harness=c17_flush_noow_t1_q0 id=C17.flush_no_overwrite[T=1;q=0] also=C01 native=c17_forces_preserve_log tier=thorough funcs="WriteAheadLog::perform_flush" bounds="block 4096; T = 1; empty queue; current block absent or any fill" stubs="<DBFile as Seek>::seek,<DBFile as Write>::write,<DBFile as FileOperations>::sync_all" assume="INV; region T == 1 (complement of the known-finding region)"
hflush!(c17_flush_noow_t1_q0, 0, 1, 1, LAW_NO_OVERWRITE, false);
// @obl harness=c17_flush_noow_t1_q1 id=C17.flush_no_overwrite[T=1;q=1] also=C01 native=c17_forces_preserve_log tier=quick funcs="WriteAheadLog::perform_flush" bounds="block 4096; T = 1; 1 queued block + current" stubs="<DBFile as Seek>::seek,<DBFile as Write>::write,<DBFile as FileOperations>::sync_all" assume="INV; region T == 1"
hflush!(c17_flush_noow_t1_q1, 1, 1, 1, LAW_NO_OVERWRITE, false);
// @obl harness=c17_flush_noow_t1_q2 id=C17.flush_no_overwrite[T=1;q=2] also=C01 native=c17_forces_preserve_log tier=thorough funcs="WriteAheadLog::perform_flush" bounds="block 4096; T = 1; 2 queued blocks + current" stubs="<DBFile as Seek>::seek,<DBFile as Write>::write,<DBFile as FileOperations>::sync_all" assume="INV; region T == 1"
hflush!(c17_flush_noow_t1_q2, 2, 1, 1, LAW_NO_OVERWRITE, false);
// --- region where the pinned tree fails: T >= 2 and at least one data block to write -----------------------
// @obl harness=c17_flush_noow_t2_q0 id=C17.flush_no_overwrite[T>=2;q=0] also=C01 native=c17_forces_preserve_log tier=quick funcs="WriteAheadLog::perform_flush" bounds="block 4096; T in 2..=1000; empty queue; current block with used_bytes > 0" stubs="<DBFile as Seek>::seek,<DBFile as Write>::write,<DBFile as FileOperations>::sync_all" assume="INV; region T >= 2 with >= 1 pending data block (exactly the failing region)"
hflush!(c17_flush_noow_t2_q0, 0, 2, 1000, LAW_NO_OVERWRITE, true);
// @obl harness=c17_flush_noow_t2_q1 id=C17.flush_no_overwrite[T>=2;q=1] also=C01 native=c17_forces_preserve_log tier=quick funcs="WriteAheadLog::perform_flush" bounds="block 4096; T in 2..=1000; 1 queued block + current" stubs="<DBFile as Seek>::seek,<DBFile as Write>::write,<DBFile as FileOperations>::sync_all" assume="INV; region T >= 2 with >= 1 pending data block"
hflush!(c17_flush_noow_t2_q1, 1, 2, 1000, LAW_NO_OVERWRITE, true);
// @obl harness=c17_flush_noow_t2_q2 id=C17.flush_no_overwrite[T>=2;q=2] also=C01 native=c17_forces_preserve_log tier=quick funcs="WriteAheadLog::perform_flush" bounds="block 4096; T in 2..=1000; 2 queued blocks + current" stubs="<DBFile as Seek>::seek,<DBFile as Write>::write,<DBFile as FileOperations>::sync_all" assume="INV; region T >= 2 with >= 1 pending data block"
hflush!(c17_flush_noow_t2_q2, 2, 2, 1000, LAW_NO_OVERWRITE, true);

// --- the header on disk announces T + written blocks ---------------------------------------------------------
// @obl harness=c17_flush_hdr_t1_q0 id=C17.flush_header_covers[T=1;q=0] also=C01 native=c17_forces_preserve_log tier=thorough funcs="WriteAheadLog::perform_flush" bounds="block 4096; T = 1; empty queue; current block absent or any fill" stubs="<DBFile as Seek>::seek,<DBFile as Write>::write,<DBFile as FileOperations>::sync_all" assume="INV; region T == 1"
hflush!(c17_flush_hdr_t1_q0, 0, 1, 1, LAW_HEADER_COVERS, false);
// @obl harness=c17_flush_hdr_t1_q1 id=C17.flush_header_covers[T=1;q=1] also=C01 native=c17_forces_preserve_log tier=quick funcs="WriteAheadLog::perform_flush" bounds="block 4096; T = 1; 1 queued block + current" stubs="<DBFile as Seek>::seek,<DBFile as Write>::write,<DBFile as FileOperations>::sync_all" assume="INV; region T == 1"
hflush!(c17_flush_hdr_t1_q1, 1, 1, 1, LAW_HEADER_COVERS, false);
// @obl harness=c17_flush_hdr_t1_q2 id=C17.flush_header_covers[T=1;q=2] also=C01 native=c17_forces_preserve_log tier=thorough funcs="WriteAheadLog::perform_flush" bounds="block 4096; T = 1; 2 queued blocks + current" stubs="<DBFile as Seek>::seek,<DBFile as Write>::write,<DBFile as FileOperations>::sync_all" assume="INV; region T == 1"
hflush!(c17_flush_hdr_t1_q2, 2, 1, 1, LAW_HEADER_COVERS, false);
// @obl harness=c17_flush_hdr_t2_q0 id=C17.flush_header_covers[T>=2;q=0] also=C01 native=c17_forces_preserve_log tier=quick funcs="WriteAheadLog::perform_flush" bounds="block 4096; T in 2..=1000; empty queue; current block absent or any fill (including nothing to write)" stubs="<DBFile as Seek>::seek,<DBFile as Write>::write,<DBFile as FileOperations>::sync_all" assume="INV; region T >= 2 (exactly the failing region)"
hflush!(c17_flush_hdr_t2_q0, 0, 2, 1000, LAW_HEADER_COVERS, false);
// @obl harness=c17_flush_hdr_t2_q1 id=C17.flush_header_covers[T>=2;q=1] also=C01 native=c17_forces_preserve_log tier=quick funcs="WriteAheadLog::perform_flush" bounds="block 4096; T in 2..=1000; 1 queued block + current" stubs="<DBFile as Seek>::seek,<DBFile as Write>::write,<DBFile as FileOperations>::sync_all" assume="INV; region T >= 2"
hflush!(c17_flush_hdr_t2_q1, 1, 2, 1000, LAW_HEADER_COVERS, false);
// @obl harness=c17_flush_hdr_t2_q2 id=C17.flush_header_covers[T>=2;q=2] also=C01 native=c17_forces_preserve_log tier=thorough funcs="WriteAheadLog::perform_flush" bounds="block 4096; T in 2..=1000; 2 queued blocks + current" stubs="<DBFile as Seek>::seek,<DBFile as Write>::write,<DBFile as FileOperations>::sync_all" assume="INV; region T >= 2"
hflush!(c17_flush_hdr_t2_q2, 2, 2, 1000, LAW_HEADER_COVERS, false);

// =============================================================================================================
// C17.push_step : one call of WriteAheadLog::push
// =============================================================================================================
// Fill levels are concrete shapes (a symbolic write offset into a 4 KiB block costs minutes, see c17_wal_storage.rs:
// the fit/no-fit arithmetic for every fill level is C17.block_space_arith); counters, ids, kinds, payload bytes,
// T and the block lsns are symbolic.
fn model_total(u: usize, r: usize) -> usize {
    let raw = RH + u + r;
    let rem = raw % 8;
    if rem == 0 { raw } else { raw + (8 - rem) }
}
/// payloads up to 16 bytes are compared byte by byte; larger ones (block-filling records, constant content
/// 0x5a / 0xa5) by length, first and last byte (a full compare would need thousands of unwindings)
fn bytes_eq(a: &[u8], b: &[u8]) -> bool {
    if a.len() != b.len() {
        return false;
    }
    if a.len() > 16 {
        return a[0] == b[0] && a[a.len() - 1] == b[b.len() - 1];
    }
    let mut i = 0;
    while i < a.len() {
        if a[i] != b[i] {
            return false;
        }
        i += 1;
    }
    true
}
fn any_record_type() -> RecordType {
    let k: u8 = kani::any();
    kani::assume(k < 10);
    match k {
        0 => RecordType::Begin,
        1 => RecordType::Commit,
        2 => RecordType::Abort,
        3 => RecordType::End,
        4 => RecordType::Update,
        5 => RecordType::Delete,
        6 => RecordType::Insert,
        7 => RecordType::Create,
        8 => RecordType::Drop,
        _ => RecordType::Alter,
    }
}
/// sentinel bytes planted around the place the record must go: the first byte of the data area, the last used
/// byte and the first byte after the record must keep their values (raw pointer access: no extra bounds checks)
fn plant(data: &mut [u8], used: usize, size: usize, v: [u8; 3]) {
    let n = data.len();
    let p = data.as_mut_ptr();
    unsafe {
        *p = v[0];
        if used > 0 && used <= n {
            *p.add(used.wrapping_sub(1)) = v[1];
        }
        if used.wrapping_add(size) < n {
            *p.add(used.wrapping_add(size)) = v[2];
        }
    }
}
/// `written` = a record was (legitimately) written at offset `used`: it may replace data[0] when used == 0
fn planted_ok(data: &[u8], used: usize, size: usize, v: [u8; 3], written: bool) -> bool {
    let n = data.len();
    let p = data.as_ptr();
    unsafe {
        let a = if written && used == 0 { true } else { *p == v[0] };
        let b = if used > 0 && used <= n { *p.add(used.wrapping_sub(1)) == v[1] } else { true };
        let c = if used.wrapping_add(size) < n { *p.add(used.wrapping_add(size)) == v[2] } else { true };
        a && b && c
    }
}

#[derive(Clone, Copy, PartialEq)]
enum Target {
    Header,      // lands in block zero
    Current,     // lands in the existing current block
    FirstSpill,  // block zero full, no current block: a fresh current block is created
    Rotate,      // current block full: it is queued, a new block with the next number is installed
    RejectEarly, // can never be stored in a block: Err before any state change
}
const CHECK_ALL: u8 = 0;
const CHECK_ORDER: u8 = 1;
const CHECK_REJECT: u8 = 2;

/// does the record stored at `off` of the block with data area `data` equal the pushed one?
struct RecImg<const U: usize, const R: usize> {
    lsn: Lsn,
    tid: TransactionId,
    prev: Option<Lsn>,
    oid: Option<u64>,
    rid: Option<u64>,
    rt: RecordType,
    undo: [u8; U],
    redo: [u8; R],
}
fn same_header<const U: usize, const R: usize>(h: &RecordHeader, w: &RecImg<U, R>, size: usize) -> bool {
    h.lsn == w.lsn && h.tid == w.tid && h.prev_lsn == w.prev && h.object_id == w.oid && h.row_id == w.rid && h.log_type == w.rt
        && h.total_size as usize == size && h.undo_len as usize == U && h.redo_len as usize == R
}

/// One push from the pre-state (T, q queued blocks, header fill `hdr_used`, current block fill `cur_used`).
/// Every law is computed as one boolean and asserted once (each reachable assert costs a full trace in Kani's
/// reachability instrumentation).
fn push_case<const U: usize, const R: usize>(t_lo: u64, t_hi: u64, q: usize, hdr_used: usize, cur_used: Option<usize>, symbolic_payload: bool, expect: Target, check: u8) {
    let size = model_total(U, R);
    let t: u64 = kani::any();
    kani::assume(t >= t_lo && t <= t_hi);
    let tb0 = t.wrapping_add(q as u64);
    let mut header = any_header(tb0);
    header.metadata_mut().block_header.used_bytes = hdr_used as u64;
    kani::assume(header.metadata().wal_header.total_entries < u32::MAX); // counter overflow: separate harness
    let hv: [u8; 3] = kani::any();
    plant(header.data_mut(), hdr_used, size, hv);
    let start0 = header.metadata().wal_header.global_start_lsn;
    let last0 = header.metadata().wal_header.global_last_lsn;
    let entries0 = header.metadata().wal_header.total_entries;
    let hfirst0 = header.metadata().block_header.block_first_lsn;
    let hlast0 = header.metadata().block_header.block_last_lsn;

    let mut queue: VecDeque<WalBlock> = VecDeque::with_capacity(4);
    let mut i = 0;
    while i < q {
        queue.push_back(any_block(kani::any(), any_used(WB_CAP)));
        i += 1;
    }
    let cv: [u8; 3] = kani::any();
    let cu = match cur_used {
        Some(u) => u,
        None => 0,
    };
    let mut cur_ptr: *const u8 = std::ptr::null();
    let mut cfirst0: Option<Lsn> = None;
    let current_block = if cur_used.is_some() {
        let mut b = any_block(kani::any(), cu as u64);
        plant(b.data_mut(), cu, size, cv);
        cur_ptr = b.as_ref().as_ptr();
        cfirst0 = b.metadata().block_first_lsn;
        Some(b)
    } else {
        None
    };
    let mut wal = zeroed_build!(WriteAheadLog { header: header, current_block: current_block, flush_queue: queue, file: fake_dbfile(), block_size: BS });

    // the record
    let w: RecImg<U, R> = RecImg {
        lsn: kani::any(),
        tid: kani::any(),
        prev: kani::any(),
        oid: kani::any(),
        rid: kani::any(),
        rt: any_record_type(),
        undo: if symbolic_payload { kani::any() } else { [0x5a; U] },
        redo: if symbolic_payload { kani::any() } else { [0xa5; R] },
    };
    let rec = OwnedRecord::new(w.lsn, w.tid, w.prev, w.oid, w.rid, w.rt, &w.undo, &w.redo);
    kani::cover!(true, "reach");

    let ok = okf(wal.push(rec)).is_some();

    let wh = wal.header.metadata().wal_header;
    let bz = wal.header.metadata().block_header;
    let qlen = wal.flush_queue.len();
    let hdr_changed = bz.used_bytes as usize != hdr_used;

    if check == CHECK_ORDER {
        // read order = block zero, then blocks 1.. in file order: once any block beyond block zero exists
        // (durable: T >= 2, or pending), a newly appended record must not be placed in block zero
        assert!(ok, "push_accepts_record_that_fits");
        // (a current block that already holds records is such a block too, although it has no id yet)
        assert!(!(hdr_changed && (t >= 2 || q > 0 || cur_used.is_some())), "appended_record_is_last_in_read_order");
        std::mem::forget(wal);
        return;
    }
    if check == CHECK_REJECT {
        let counters_same = wh.global_start_lsn == start0 && wh.global_last_lsn == last0 && wh.total_entries == entries0 && wh.total_blocks == tb0;
        let cur_same = match &wal.current_block {
            Some(b) => cur_used.is_some() && b.as_ref().as_ptr() == cur_ptr && b.metadata().used_bytes as usize == cu,
            None => cur_used.is_none(),
        };
        assert!(!ok, "unstorable_record_rejected");
        assert!(counters_same, "rejected_push_leaves_counters");
        assert!(qlen == q, "rejected_push_leaves_queue");
        assert!(!hdr_changed && cur_same, "rejected_push_leaves_blocks");
        std::mem::forget(wal);
        return;
    }

    let counters = wh.global_last_lsn == Some(w.lsn) && wh.global_start_lsn == if start0.is_none() { Some(w.lsn) } else { start0 };
    let entries = wh.total_entries == entries0.wrapping_add(1);
    let in_header = expect == Target::Header;
    let off = match expect {
        Target::Header => hdr_used,
        Target::Current => cu,
        _ => 0,
    };
    let end = off.wrapping_add(size);
    // laws, filled per case
    let mut inside_one_block = false;
    let mut bytes_stay = false;
    let mut hdr_same = false;
    let mut payload_same = false;
    let mut lsn_range = false;
    let mut structure = false; // queue / current / total_blocks evolve as the case demands
    let mut next_number = true;
    if in_header {
        let b = &wal.header;
        structure = wal.current_block.is_none() && qlen == q && wh.total_blocks == tb0;
        inside_one_block = bz.used_bytes as usize == end && end <= b.data().len();
        bytes_stay = planted_ok(b.data(), hdr_used, size, hv, true);
        lsn_range = bz.block_last_lsn == Some(w.lsn) && bz.block_first_lsn == if hfirst0.is_none() { Some(w.lsn) } else { hfirst0 };
        if inside_one_block {
            let rr = b.record(off as u64);
            hdr_same = same_header(rr.metadata(), &w, size);
            payload_same = bytes_eq(rr.undo_payload(), &w.undo) && bytes_eq(rr.redo_payload(), &w.redo);
        }
    } else if let Some(b) = &wal.current_block {
        let m = *b.metadata();
        let hdr_untouched = !hdr_changed && planted_ok(wal.header.data(), hdr_used, size, hv, false) && bz.block_first_lsn == hfirst0 && bz.block_last_lsn == hlast0;
        inside_one_block = hdr_untouched && m.used_bytes as usize == end && end <= b.data().len();
        if expect == Target::Current {
            structure = qlen == q && wh.total_blocks == tb0 && b.as_ref().as_ptr() == cur_ptr;
            bytes_stay = planted_ok(b.data(), cu, size, cv, true);
            lsn_range = m.block_last_lsn == Some(w.lsn) && m.block_first_lsn == if cfirst0.is_none() { Some(w.lsn) } else { cfirst0 };
        } else if expect == Target::FirstSpill {
            // total_blocks = blocks on disk + one id per QUEUED block (perform_flush computes its write offset from
            // `total_blocks - queue.len()`): the block opened here is neither, it must not take an id yet
            structure = qlen == q && q == 0 && b.as_ref().as_ptr() != cur_ptr && wh.total_blocks == tb0;
            bytes_stay = true;
            lsn_range = m.block_last_lsn == Some(w.lsn) && m.block_first_lsn == Some(w.lsn);
        } else {
            // rotation: the full block is queued unchanged, the new one carries the next block number
            let moved = match wal.flush_queue.back() {
                Some(old) => {
                    bytes_stay = planted_ok(old.data(), cu, size, cv, false);
                    old.as_ref().as_ptr() == cur_ptr && old.metadata().used_bytes as usize == cu
                }
                None => false,
            };
            structure = moved && qlen == q.wrapping_add(1) && wh.total_blocks == tb0.wrapping_add(1) && b.as_ref().as_ptr() != cur_ptr;
            next_number = m.block_number == tb0;
            lsn_range = m.block_last_lsn == Some(w.lsn) && m.block_first_lsn == Some(w.lsn);
        }
        if inside_one_block {
            let rr = b.record(off as u64);
            hdr_same = same_header(rr.metadata(), &w, size);
            payload_same = bytes_eq(rr.undo_payload(), &w.undo) && bytes_eq(rr.redo_payload(), &w.redo);
        }
    }
    assert!(ok, "push_accepts_record_that_fits");
    assert!(counters, "global_lsn_range_tracks_record");
    assert!(entries, "total_entries_advance_by_one");
    assert!(inside_one_block, "record_wholly_inside_exactly_one_block");
    assert!(bytes_stay, "existing_bytes_do_not_move");
    assert!(hdr_same, "record_header_identical");
    assert!(payload_same, "record_payload_identical");
    assert!(lsn_range, "block_lsn_range_tracks_record");
    assert!(structure, "blocks_and_queue_evolve_as_specified");
    assert!(next_number, "new_block_gets_next_block_number");
    // Pager::push_to_log numbers the next record `wal.last_lsn() + 1`: whatever block the record landed in, the log's
    // last LSN must be the one just appended, otherwise later records share an LSN and collide in recovery's maps.
    assert!(wal.last_lsn() == Some(w.lsn), "last_lsn_is_the_lsn_just_appended");
    std::mem::forget(wal);
}

macro_rules! hpush {
    ($name:ident, $u:expr, $r:expr, $tlo:expr, $thi:expr, $q:expr, $hdr:expr, $cur:expr, $sym:expr, $expect:expr, $check:expr) => {
        #[kani::proof]
        #[kani::unwind(12)]
        #[kani::stub(std::fmt::format, stub_format)]
        fn $name() {
            push_case::<$u, $r>($tlo, $thi, $q, $hdr, $cur, $sym, $expect, $check);
        }
    };
}
// record of 96 bytes (undo 3 + redo 6, values symbolic)
// @obl harness=c17_push_hdr_room id=C17.push_step[block0:room] tier=quick funcs="WriteAheadLog::push,WalOps::try_push" bounds="block 4096; T = 1, nothing pending; block zero empty; record 3+6 payload bytes (96 total), all ids/kinds/counters symbolic" stubs="std::fmt::format" assume="INV; total_entries < u32::MAX"
hpush!(c17_push_hdr_room, 3, 6, 1, 1, 0, 0, None, true, Target::Header, CHECK_ALL);
// @obl harness=c17_push_hdr_exact id=C17.push_step[block0:exact_fit] tier=thorough funcs="WriteAheadLog::push,WalOps::try_push" bounds="block 4096; T = 1, nothing pending; block zero filled so that the 96-byte record fits exactly" stubs="std::fmt::format" assume="INV; total_entries < u32::MAX"
hpush!(c17_push_hdr_exact, 3, 6, 1, 1, 0, BZ_CAP - 96, None, true, Target::Header, CHECK_ALL);
// @obl harness=c17_push_first_spill id=C17.push_step[block0:full] also=C01 native=c01_lsns_stay_distinct_after_spill tier=quick funcs="WriteAheadLog::push,WalOps::try_push" bounds="block 4096; T in 1..=1000, nothing pending; block zero 8 bytes short of the 96-byte record; no current block" stubs="std::fmt::format" assume="INV; total_entries < u32::MAX"
hpush!(c17_push_first_spill, 3, 6, 1, 1000, 0, BZ_CAP - 88, None, true, Target::FirstSpill, CHECK_ALL);
// @obl harness=c17_push_cur_room id=C17.push_step[current:room] tier=thorough funcs="WriteAheadLog::push,WalOps::try_push" bounds="block 4096; T in 1..=1000; block zero full; current block filled to 160; empty queue" stubs="std::fmt::format" assume="INV; total_entries < u32::MAX"
hpush!(c17_push_cur_room, 3, 6, 1, 1000, 0, BZ_CAP, Some(160), true, Target::Current, CHECK_ALL);
// @obl harness=c17_push_cur_exact id=C17.push_step[current:exact_fit] tier=thorough funcs="WriteAheadLog::push,WalOps::try_push" bounds="block 4096; T in 1..=1000; current block filled so that the 96-byte record fits exactly; empty queue" stubs="std::fmt::format" assume="INV; total_entries < u32::MAX"
hpush!(c17_push_cur_exact, 3, 6, 1, 1000, 0, BZ_CAP - 8, Some(WB_CAP - 96), true, Target::Current, CHECK_ALL);
// @obl harness=c17_push_rotate id=C17.push_step[current:rotate] tier=quick funcs="WriteAheadLog::push,WriteAheadLog::rotate_block,WriteAheadLog::get_next_block,WalOps::try_push" bounds="block 4096; T in 1..=1000; current block 8 bytes short of the 88-byte record (1 undo byte); empty queue" stubs="std::fmt::format" assume="INV; total_entries < u32::MAX"
hpush!(c17_push_rotate, 1, 0, 1, 1000, 0, BZ_CAP, Some(WB_CAP - 80), true, Target::Rotate, CHECK_ALL);
// @obl harness=c17_push_rotate_q1 id=C17.push_step[current:rotate;q=1] tier=thorough funcs="WriteAheadLog::push,WriteAheadLog::rotate_block,WriteAheadLog::get_next_block,WalOps::try_push" bounds="block 4096; T in 1..=1000; current block completely full; 1 queued block; record with empty payloads (80 bytes)" stubs="std::fmt::format" assume="INV; total_entries < u32::MAX"
hpush!(c17_push_rotate_q1, 0, 0, 1, 1000, 1, BZ_CAP, Some(WB_CAP), true, Target::Rotate, CHECK_ALL);
// Records that fill a whole block are NOT exercised: copying N payload bytes into a 4 KiB block costs N array copies
// in the SAT encoding (3900 bytes => 1.3e8 variables, > 16 GB).  The exact-fit boundary is covered with small records
// at high fill levels, and for every fill level by C17.block_space_arith.
// a record that max_record_size() itself refuses: rejected before any state change
// @obl harness=c17_push_oversize id=C17.push_step[oversize_rejected] tier=quick funcs="WriteAheadLog::push,WriteAheadLog::max_record_size" bounds="block 4096; T in 1..=1000; 1 queued block, current block at 160; record of 4040 bytes (> block - header = 4032)" stubs="std::fmt::format" assume="INV; total_entries < u32::MAX"
hpush!(c17_push_oversize, 3960, 0, 1, 1000, 1, BZ_CAP, Some(160), false, Target::RejectEarly, CHECK_REJECT);
// @obl harness=c17_push_oversize_fresh id=C17.push_step[oversize_rejected;fresh] tier=thorough funcs="WriteAheadLog::push,WriteAheadLog::max_record_size" bounds="block 4096; T = 1; fresh log (empty block zero, nothing pending); record of 4040 bytes" stubs="std::fmt::format" assume="INV; total_entries < u32::MAX"
hpush!(c17_push_oversize_fresh, 3960, 0, 1, 1, 0, 0, None, false, Target::RejectEarly, CHECK_REJECT);
// KNOWN-FINDING REGION: record sizes in (block - 2*header, block - header] = (3968, 4032] pass the max_record_size()
// test (io/wal.rs:284) but no block ever has that much available_space() (storage/wal.rs:416-419 subtracts the
// header twice): push then fails in try_push (io/wal.rs:321) AFTER it advanced global_last_lsn / total_entries
// (io/wal.rs:298-302) and queued an empty block (io/wal.rs:317-319).  A one-step push harness with such a record is
// not feasible (the infeasible "it fits" branch copies ~3900 bytes into the 4 KiB block: 1.3e8 SAT variables, > 16 GB),
// so the root cause is checked as arithmetic: whatever the size test admits must fit into an empty block.
// @obl harness=c17_push_max_record_fits id=C17.push_step[admitted_size_fits_empty_block] native=c17_oversize_record_state tier=quick funcs="WriteAheadLog::max_record_size,AvailableSpace::available_space" bounds="block 4096 (the relation is size - 64 vs size - 128 for every block size)" assume="none"
#[kani::proof]
#[kani::unwind(4)]
fn c17_push_max_record_fits() {
    let wal = zeroed_build!(WriteAheadLog { header: any_header(1), current_block: None, flush_queue: VecDeque::new(), file: fake_dbfile(), block_size: BS });
    let empty = WalBlock::alloc(1, BS);
    kani::cover!(true, "reach");
    let admitted = wal.max_record_size();
    let room = empty.available_space();
    assert!(admitted <= room, "record_admitted_by_size_check_fits_in_an_empty_block");
    std::mem::forget(empty);
    std::mem::forget(wal);
}

// read order: block zero is read before blocks 1..; a record appended after such blocks exist must not land in block zero
// @obl harness=c17_push_order_cur id=C17.push_order[current_present] native=c17_append_after_force_order tier=quick funcs="WriteAheadLog::push" bounds="block 4096; T in 1..=1000; 1 queued block; current block at 160; block zero still has room; 96-byte record" stubs="std::fmt::format" assume="INV; total_entries < u32::MAX"
hpush!(c17_push_order_cur, 3, 6, 1, 1000, 1, 0, Some(160), true, Target::Current, CHECK_ORDER);
// the same with NOTHING queued: the current block is the one opened by the first spill (it carries no block id yet, so
// `total_blocks` and the flush queue do not show that the log has left block zero) - a record that would still fit into
// block zero must nevertheless follow the records already in the current block
// @obl harness=c17_push_order_cur_q0 id=C17.push_order[current_present;nothing_queued] also=C01 native=c17_append_after_force_order tier=quick funcs="WriteAheadLog::push" bounds="block 4096; T in 1..=1000; no queued block; current block at 160; block zero still has room; 96-byte record" stubs="std::fmt::format" assume="INV; total_entries < u32::MAX"
hpush!(c17_push_order_cur_q0, 3, 6, 1, 1000, 0, 0, Some(160), true, Target::Current, CHECK_ORDER);
// @obl harness=c17_push_order_full id=C17.push_order[block0_full] native=c17_append_after_force_order tier=quick funcs="WriteAheadLog::push" bounds="block 4096; T in 1..=1000; nothing pending; block zero without room for the 96-byte record" stubs="std::fmt::format" assume="INV; total_entries < u32::MAX"
hpush!(c17_push_order_full, 3, 6, 1, 1000, 0, BZ_CAP - 88, None, true, Target::FirstSpill, CHECK_ORDER);
// KNOWN-FINDING REGION: after a force (current_block = None) with durable blocks beyond block zero (T >= 2) and room left in block zero
// @obl harness=c17_push_order_after_force id=C17.push_order[T>=2;block0_room] native=c17_append_after_force_order tier=quick funcs="WriteAheadLog::push" bounds="block 4096; T in 2..=1000; nothing pending (state right after a force); block zero with room; 96-byte record" stubs="std::fmt::format" assume="INV; total_entries < u32::MAX; region: T >= 2, no current block, block zero has room"
hpush!(c17_push_order_after_force, 3, 6, 2, 1000, 0, 160, None, true, Target::Header, CHECK_ORDER);

// NOT REPORTABLE (tier=off): the u32 entry counter overflows on the 2^32-th record since the last truncate (>= 340 GB of log between two checkpoints)
// @obl harness=c17_push_entries_max id=C17.push_step[total_entries=u32::MAX] tier=off funcs="WriteAheadLog::push" bounds="block 4096; fresh block zero except total_entries = u32::MAX; 80-byte record" stubs="std::fmt::format" assume="region: total_entries == u32::MAX"
#[kani::proof]
#[kani::unwind(12)]
#[kani::stub(std::fmt::format, stub_format)]
fn c17_push_entries_max() {
    let mut header = any_header(1);
    header.metadata_mut().block_header.used_bytes = 0;
    header.metadata_mut().wal_header.total_entries = u32::MAX;
    let mut wal = zeroed_build!(WriteAheadLog { header: header, current_block: None, flush_queue: VecDeque::new(), file: fake_dbfile(), block_size: BS });
    let rec = OwnedRecord::new(kani::any(), kani::any(), None, None, None, RecordType::Commit, &[], &[]);
    kani::cover!(true, "reach");
    let ok = okf(wal.push(rec)).is_some();
    assert!(ok, "push_accepts_record_that_fits");
    std::mem::forget(wal);
}

// =============================================================================================================
// C17.reader_step : one call of WalReader::next_ref (and WalReader::new)
// =============================================================================================================
// Reader invariant assumed (RINV), established by WalReader::new and kept by next_ref:
//   * read_ahead_size = k * block_size with k >= 1 (k in {1,2} here), block_queue.len() <= k;
//   * block_queue holds the file blocks [file_offset/bs - len, file_offset/bs), file_offset is block aligned, >= bs,
//     and <= total_blocks * bs unless nothing was ever loaded;
//   * current_block_index = None (reading block zero) or Some(i), i <= len; i == len => current_block_offset == 0;
//   * current_block_offset is a record boundary of the current block: <= used_bytes, and if < used_bytes a record
//     header with 80 <= total_size <= used_bytes - offset, multiple of 8, starts there (records tile [0, used_bytes));
//   * every block on disk below total_blocks has used_bytes == 0 or a valid record at offset 0 (same tiling).
// Bound: at most 2 blocks of the file are still unread (keeps the skip-empty-blocks loop finite), total_blocks <= 1000.

/// a record header with symbolic valid total_size at data offset `off` of a block whose fill level is `used`
unsafe fn put_record(data: *mut u8, off: usize, used: usize) {
    if used > off {
        let s: usize = kani::any();
        kani::assume(s % 8 == 0 && s >= RH && s <= used.wrapping_sub(off));
        let h = RecordHeader {
            lsn: kani::any(),
            tid: kani::any(),
            prev_lsn: None,
            object_id: None,
            row_id: None,
            total_size: s as u32,
            undo_len: 0,
            redo_len: 0,
            log_type: RecordType::Begin,
            padding: [0; 7],
        };
        unsafe { *(data.add(off) as *mut RecordHeader) = h };
    }
}
/// fill level of a valid block whose next unread record boundary is `off`
fn any_used_from(off: usize, cap: usize) -> usize {
    let u: usize = kani::any();
    kani::assume(u % 8 == 0 && u <= cap && u >= off && (u == off || u >= off.wrapping_add(RH)));
    u
}
/// `<DBFile as Read>::read`: a whole block is delivered; its content is an arbitrary valid block
pub(crate) fn stub_read(_f: &mut DBFile, buf: &mut [u8]) -> io::Result<usize> {
    unsafe {
        let mut used = 0usize;
        if buf.len() == BS && TR.pos > 0 {
            used = any_used_from(0, WB_CAP);
            let h = &mut *(buf.as_mut_ptr() as *mut BlockHeader);
            h.block_number = kani::any();
            h.used_bytes = used as u64;
            put_record(buf.as_mut_ptr().add(BH), 0, used);
        }
        if TR.n < TR_MAX {
            let mut e = EV0;
            e.kind = 3;
            e.off = TR.pos;
            e.len = buf.len();
            e.ptr = buf.as_ptr();
            e.hdr_used_bytes = used as u64;
            TR.ev[TR.n] = e;
            TR.n += 1;
        } else {
            TR.overflow = true;
        }
        if !TR.pos_valid {
            TR.bad_seek = true;
        }
        TR.pos = TR.pos.wrapping_add(buf.len() as u64);
    }
    Ok(buf.len())
}

const MAXC: usize = 6;
/// One call of next_ref.  Geometry is concrete (n loaded blocks, cursor, `unread` blocks left in the file, read-ahead
/// k): with symbolic total_blocks/file_offset the skip-empty-blocks loop around reload_blocks needs > 16 GB.  The
/// symbolic arithmetic of reload_blocks is covered separately (C17.reader_reload).  Fill levels, record sizes and the
/// content of the blocks delivered by the file are symbolic.
fn reader_case(n: usize, idx: Option<usize>, off: usize, k: usize, unread: u64) {
    let bs = BS as u64;
    let fo_blocks: u64 = 1 + n as u64; // file_offset / bs: block zero + the n loaded blocks
    let tb: u64 = fo_blocks + unread;
    // candidate list for the oracle: (data pointer, start offset, used)
    let mut c_ptr = [std::ptr::null::<u8>(); MAXC];
    let mut c_start = [0usize; MAXC];
    let mut c_used = [0usize; MAXC];
    let mut nc = 0usize;
    // block zero
    let mut header = BlockZero::alloc(0, BS);
    let reading_header = idx.is_none();
    let h_used = if reading_header { any_used_from(off, BZ_CAP) } else { any_used_from(0, BZ_CAP) };
    header.metadata_mut().block_header.used_bytes = h_used as u64;
    if reading_header {
        unsafe { put_record(header.data_mut().as_mut_ptr(), off, h_used) };
        c_ptr[nc] = header.data().as_ptr();
        c_start[nc] = off;
        c_used[nc] = h_used;
        nc += 1;
    }
    // loaded blocks
    let mut queue: Vec<WalBlock> = Vec::with_capacity(2);
    let first_live = match idx {
        Some(i) => i,
        None => 0,
    };
    let mut j = 0;
    while j < n {
        let start = if idx == Some(j) { off } else { 0 };
        let used = any_used_from(start, WB_CAP);
        let mut b = any_block(kani::any(), used as u64);
        if j >= first_live {
            unsafe { put_record(b.data_mut().as_mut_ptr(), start, used) };
            c_ptr[nc] = b.data().as_ptr();
            c_start[nc] = start;
            c_used[nc] = used;
            nc += 1;
        }
        queue.push(b);
        j += 1;
    }
    let mut f = fake_dbfile();
    // built field by field on zeroed memory, not with a struct literal: a field added to WalReader by a change under
    // test (zero = its natural initial value) must not stop the harness from compiling
    let mut reader_mem = std::mem::MaybeUninit::<WalReader>::zeroed();
    unsafe {
        let p = reader_mem.as_mut_ptr();
        std::ptr::addr_of_mut!((*p).file).write(&mut f);
        std::ptr::addr_of_mut!((*p).header).write(header);
        std::ptr::addr_of_mut!((*p).block_queue).write(queue);
        std::ptr::addr_of_mut!((*p).read_ahead_size).write(k * BS);
        std::ptr::addr_of_mut!((*p).current_block_offset).write(off);
        std::ptr::addr_of_mut!((*p).current_block_index).write(idx);
        std::ptr::addr_of_mut!((*p).file_offset).write(fo_blocks * bs);
        std::ptr::addr_of_mut!((*p).total_blocks).write(tb);
        std::ptr::addr_of_mut!((*p).block_size).write(BS);
    }
    let mut reader = unsafe { reader_mem.assume_init() };
    kani::cover!(true, "reach");

    let (found, rp, rs) = match okf(reader.next_ref()) {
        Some(Some(r)) => (1u8, r.metadata() as *const RecordHeader as *const u8, r.total_size()),
        Some(None) => (0u8, std::ptr::null::<u8>(), 0usize),
        None => (2u8, std::ptr::null::<u8>(), 0usize),
    };

    // blocks read during the call join the candidate list, and must lie inside the announced file
    let nread = n_ev();
    let mut reads_ok = unsafe { !TR.overflow && !TR.bad_seek };
    let mut i = 0;
    while i < nread {
        let e = ev(i);
        reads_ok = reads_ok && e.kind == 3 && e.len == BS && e.off == (fo_blocks.wrapping_add(i as u64)).wrapping_mul(bs) && e.off.wrapping_add(bs) <= tb.wrapping_mul(bs);
        if nc < MAXC {
            c_ptr[nc] = e.ptr.wrapping_add(BH); // may point into a block that a later reload already freed
            c_start[nc] = 0;
            c_used[nc] = e.hdr_used_bytes as usize;
            nc += 1;
        }
        i += 1;
    }
    // oracle: the first candidate that still has an unread record
    let mut want: *const u8 = std::ptr::null();
    let mut want_start = 0usize;
    let mut want_used = 0usize;
    let mut have = false;
    let mut c = 0;
    while c < nc {
        if !have && c_start[c] < c_used[c] {
            have = true;
            want = c_ptr[c].wrapping_add(c_start[c]);
            want_used = c_used[c];
            want_start = c_start[c];
        }
        c += 1;
    }
    let fo_post = reader.file_offset;
    let off_post = reader.current_block_offset;
    let cur_post: *const u8 = match reader.current_block_index {
        None => reader.header.data().as_ptr(),
        Some(i) => {
            if i < reader.block_queue.len() {
                reader.block_queue[i].data().as_ptr()
            } else {
                std::ptr::null()
            }
        }
    };
    kani::cover!(have, "some_record_left");
    kani::cover!(!have, "log_exhausted");
    assert!(found != 2, "next_ref_succeeds_when_io_succeeds");
    assert!(reads_ok, "reads_whole_blocks_sequentially_below_total_blocks");
    assert!(fo_post == (fo_blocks.wrapping_add(nread as u64)).wrapping_mul(bs), "file_offset_counts_blocks_read");
    if have {
        assert!(found == 1 && rp == want, "returns_next_unread_record");
        // the record starts before used_bytes of its block and the cursor moved strictly past it
        assert!(rs >= RH && want_start.wrapping_add(rs) <= want_used, "returned_record_inside_used_bytes");
        assert!(!cur_post.is_null() && cur_post.wrapping_add(off_post) == want.wrapping_add(rs), "cursor_strictly_after_returned_record");
    } else {
        assert!(found == 0, "no_record_returned_that_was_not_appended");
        assert!(fo_post >= tb.wrapping_mul(bs), "end_of_log_only_after_last_block");
    }
    std::mem::forget(reader);
    std::mem::forget(f);
}

macro_rules! hreader {
    ($name:ident, $n:expr, $idx:expr, $off:expr, $k:expr, $unread:expr, $unwind:expr) => {
        #[kani::proof]
        #[kani::unwind($unwind)]
        #[kani::stub(<DBFile as std::io::Seek>::seek, stub_seek)]
        #[kani::stub(<DBFile as std::io::Read>::read, stub_read)]
        fn $name() {
            reader_case($n, $idx, $off, $k, $unread);
        }
    };
}
// --- cursor laws, nothing left to load ---------------------------------------------------------------------------
// @obl harness=c17_reader_hdr_q0 id=C17.reader_step[block0;q=0] tier=quick also=C01,C08 funcs="WalReader::next_ref" bounds="block 4096; cursor in block zero at offset 160; no block loaded, none unread (total_blocks = 1); fill level and record size symbolic" stubs="<DBFile as Seek>::seek,<DBFile as Read>::read" assume="RINV (see above)" unwind=6
hreader!(c17_reader_hdr_q0, 0, None, 160, 1, 0, 6);
// @obl harness=c17_reader_hdr_q2 id=C17.reader_step[block0;q=2] tier=thorough funcs="WalReader::next_ref" bounds="block 4096; cursor in block zero at offset 0; 2 blocks loaded, none unread (total_blocks = 3); fill levels and record sizes symbolic" stubs="<DBFile as Seek>::seek,<DBFile as Read>::read" assume="RINV" unwind=7
hreader!(c17_reader_hdr_q2, 2, None, 0, 2, 0, 7);
// @obl harness=c17_reader_blk_q1 id=C17.reader_step[block;q=1] tier=quick also=C01,C08 funcs="WalReader::next_ref" bounds="block 4096; cursor in loaded block 0 at offset 96; 1 block loaded, none unread" stubs="<DBFile as Seek>::seek,<DBFile as Read>::read" assume="RINV" unwind=6
hreader!(c17_reader_blk_q1, 1, Some(0), 96, 1, 0, 6);
// @obl harness=c17_reader_blk_q2 id=C17.reader_step[block;q=2] tier=thorough funcs="WalReader::next_ref" bounds="block 4096; cursor in loaded block 0 at offset 0; 2 blocks loaded, none unread" stubs="<DBFile as Seek>::seek,<DBFile as Read>::read" assume="RINV" unwind=7
hreader!(c17_reader_blk_q2, 2, Some(0), 0, 2, 0, 7);
// --- crossing into blocks that still have to be loaded --------------------------------------------------------------
// @obl harness=c17_reader_load_hdr id=C17.reader_step[block0;load1;k=1] tier=thorough funcs="WalReader::next_ref,WalReader::reload_blocks" bounds="block 4096; cursor in block zero at offset 160; no block loaded, 1 unread block (total_blocks = 2), read-ahead 1; content of the loaded block symbolic" stubs="<DBFile as Seek>::seek,<DBFile as Read>::read" assume="RINV" unwind=7
hreader!(c17_reader_load_hdr, 0, None, 160, 1, 1, 7);
// @obl harness=c17_reader_load_end id=C17.reader_step[queue_consumed;load2;k=2] tier=quick also=C01,C08 funcs="WalReader::next_ref,WalReader::reload_blocks" bounds="block 4096; the single loaded block consumed (index 1, offset 0); 2 unread blocks (total_blocks = 4), read-ahead 2" stubs="<DBFile as Seek>::seek,<DBFile as Read>::read" assume="RINV" unwind=8
hreader!(c17_reader_load_end, 1, Some(1), 0, 2, 2, 8);
// @obl harness=c17_reader_load_twice id=C17.reader_step[block;load1+1;k=1] tier=thorough funcs="WalReader::next_ref,WalReader::reload_blocks" bounds="block 4096; cursor in loaded block 0 at offset 0; 2 unread blocks (total_blocks = 4), read-ahead 1: up to two reloads in one call" stubs="<DBFile as Seek>::seek,<DBFile as Read>::read" assume="RINV" unwind=9
hreader!(c17_reader_load_twice, 1, Some(0), 0, 1, 2, 9);

// --- reload_blocks alone, symbolic geometry: never reads at or beyond total_blocks ----------------------------------
fn reload_case(k: usize) {
    let bs = BS as u64;
    let tb: u64 = kani::any();
    let fo_blocks: u64 = kani::any();
    kani::assume(tb <= 1000 && fo_blocks >= 1 && fo_blocks <= 1001);
    let header = BlockZero::alloc(0, BS);
    let mut f = fake_dbfile();
    // built field by field on zeroed memory, not with a struct literal: a field added to WalReader by a change under
    // test (zero = its natural initial value) must not stop the harness from compiling
    let mut reader_mem = std::mem::MaybeUninit::<WalReader>::zeroed();
    unsafe {
        let p = reader_mem.as_mut_ptr();
        std::ptr::addr_of_mut!((*p).file).write(&mut f);
        std::ptr::addr_of_mut!((*p).header).write(header);
        std::ptr::addr_of_mut!((*p).block_queue).write(Vec::with_capacity(2));
        std::ptr::addr_of_mut!((*p).read_ahead_size).write(k * BS);
        std::ptr::addr_of_mut!((*p).current_block_offset).write(0);
        std::ptr::addr_of_mut!((*p).current_block_index).write(Some(0));
        std::ptr::addr_of_mut!((*p).file_offset).write(fo_blocks * bs);
        std::ptr::addr_of_mut!((*p).total_blocks).write(tb);
        std::ptr::addr_of_mut!((*p).block_size).write(BS);
    }
    let mut reader = unsafe { reader_mem.assume_init() };
    kani::cover!(true, "reach");
    let r = okf(reader.reload_blocks());
    let nread = n_ev();
    let left = if tb > fo_blocks { tb.wrapping_sub(fo_blocks) } else { 0 };
    let expect = if left < k as u64 { left as usize } else { k };
    let mut reads_ok = unsafe { !TR.overflow && !TR.bad_seek };
    let mut i = 0;
    while i < nread {
        let e = ev(i);
        reads_ok = reads_ok && e.kind == 3 && e.len == BS && e.off == (fo_blocks.wrapping_add(i as u64)).wrapping_mul(bs) && e.off.wrapping_add(bs) <= tb.wrapping_mul(bs);
        i += 1;
    }
    assert!(r.is_some(), "reload_succeeds_when_io_succeeds");
    assert!(reads_ok, "reads_whole_blocks_sequentially_below_total_blocks");
    assert!(nread == expect, "reload_reads_min_of_read_ahead_and_remaining_blocks");
    assert!(r == Some(expect > 0), "reload_reports_whether_blocks_were_loaded");
    assert!(reader.file_offset == (fo_blocks.wrapping_add(nread as u64)).wrapping_mul(bs), "file_offset_counts_blocks_read");
    assert!(reader.block_queue.len() == nread, "loaded_blocks_are_exactly_the_blocks_read");
    std::mem::forget(reader);
    std::mem::forget(f);
}
// @obl harness=c17_reader_reload_k1 id=C17.reader_reload[k=1] tier=thorough funcs="WalReader::reload_blocks" bounds="block 4096; total_blocks in 0..=1000 and file_offset/4096 in 1..=1001 symbolic; read-ahead 1 block" stubs="<DBFile as Seek>::seek,<DBFile as Read>::read" assume="file_offset block aligned and >= one block" unwind=5
#[kani::proof]
#[kani::unwind(5)]
#[kani::stub(<DBFile as std::io::Seek>::seek, stub_seek)]
#[kani::stub(<DBFile as std::io::Read>::read, stub_read)]
fn c17_reader_reload_k1() {
    reload_case(1);
}
// @obl harness=c17_reader_reload_k2 id=C17.reader_reload[k=2] tier=quick also=C08 funcs="WalReader::reload_blocks" bounds="block 4096; total_blocks in 0..=1000 and file_offset/4096 in 1..=1001 symbolic; read-ahead 2 blocks" stubs="<DBFile as Seek>::seek,<DBFile as Read>::read" assume="file_offset block aligned and >= one block" unwind=5
#[kani::proof]
#[kani::unwind(5)]
#[kani::stub(<DBFile as std::io::Seek>::seek, stub_seek)]
#[kani::stub(<DBFile as std::io::Read>::read, stub_read)]
fn c17_reader_reload_k2() {
    reload_case(2);
}

// --- WalReader::new establishes RINV and only touches blocks below total_blocks ---------------------------------------
fn reader_new_case(tb: u64, read_ahead: usize, k: usize) {
    let bs = BS as u64;
    let mut f = fake_dbfile();
    kani::cover!(true, "reach");
    let r = okf(WalReader::new(&mut f, read_ahead, BS, tb));
    let nread = n_ev();
    let left = if tb > 1 { tb.wrapping_sub(1) } else { 0 };
    let expect = if left < k as u64 { left as usize } else { k };
    let mut reads_ok = unsafe { !TR.overflow && !TR.bad_seek } && nread >= 1 && ev(0).kind == 3 && ev(0).off == 0 && ev(0).len == BS;
    let mut i = 1;
    while i < nread {
        let e = ev(i);
        reads_ok = reads_ok && e.kind == 3 && e.len == BS && e.off == (i as u64).wrapping_mul(bs) && e.off.wrapping_add(bs) <= tb.wrapping_mul(bs);
        i += 1;
    }
    assert!(reads_ok, "reads_whole_blocks_sequentially_below_total_blocks");
    assert!(nread == expect.wrapping_add(1), "new_reads_block_zero_and_min_of_read_ahead_and_remaining_blocks");
    match r {
        None => assert!(false, "new_succeeds_when_io_succeeds"),
        Some(rd) => {
            let inv = rd.current_block_index.is_none()
                && rd.current_block_offset == 0
                && rd.block_queue.len() == expect
                && rd.read_ahead_size == k * BS
                && rd.file_offset == (1 + expect as u64).wrapping_mul(bs)
                && rd.total_blocks == tb
                && rd.block_size == BS;
            assert!(inv, "new_establishes_reader_invariant");
            std::mem::forget(rd);
        }
    }
    std::mem::forget(f);
}
macro_rules! hreader_new {
    ($name:ident, $tb:expr, $ra:expr, $k:expr) => {
        #[kani::proof]
        #[kani::unwind(5)]
        #[kani::stub(<DBFile as std::io::Seek>::seek, stub_seek)]
        #[kani::stub(<DBFile as std::io::Read>::read, stub_read)]
        fn $name() {
            reader_new_case($tb, $ra, $k);
        }
    };
}
// @obl harness=c17_reader_new_tb0 id=C17.reader_new[total_blocks=0] tier=thorough funcs="WalReader::new" bounds="block 4096; total_blocks 0; read-ahead 4097 bytes (rounded up to 2 blocks)" stubs="<DBFile as Seek>::seek,<DBFile as Read>::read" unwind=5
hreader_new!(c17_reader_new_tb0, 0, BS + 1, 2);
// @obl harness=c17_reader_new_tb1 id=C17.reader_new[total_blocks=1] tier=thorough funcs="WalReader::new" bounds="block 4096; total_blocks 1; read-ahead 2 blocks" stubs="<DBFile as Seek>::seek,<DBFile as Read>::read" unwind=5
hreader_new!(c17_reader_new_tb1, 1, 2 * BS, 2);
// @obl harness=c17_reader_new_tb2 id=C17.reader_new[total_blocks=2] tier=quick also=C08 funcs="WalReader::new" bounds="block 4096; total_blocks 2; read-ahead 2 blocks" stubs="<DBFile as Seek>::seek,<DBFile as Read>::read" unwind=5
hreader_new!(c17_reader_new_tb2, 2, 2 * BS, 2);
// @obl harness=c17_reader_new_tb5 id=C17.reader_new[total_blocks=5] tier=thorough funcs="WalReader::new" bounds="block 4096; total_blocks 5; read-ahead 4097 bytes (rounded up to 2 blocks)" stubs="<DBFile as Seek>::seek,<DBFile as Read>::read" unwind=5
hreader_new!(c17_reader_new_tb5, 5, BS + 1, 2);

// =============================================================================================================
// C17.truncate_step : one call of WriteAheadLog::truncate
// =============================================================================================================
static mut TRUNCATES: usize = 0;
pub(crate) fn stub_truncate(_f: &mut DBFile) -> io::Result<()> {
    unsafe { TRUNCATES += 1 };
    Ok(())
}
// @obl harness=c17_truncate_step id=C17.truncate_step tier=quick also=C08 funcs="WriteAheadLog::truncate" bounds="block 4096; T in 1..=1000; 1 queued block + current block, any fill; header counters symbolic" stubs="<DBFile as FileOperations>::truncate" assume="INV"
#[kani::proof]
#[kani::unwind(6)]
#[kani::stub(<DBFile as FileOperations>::truncate, stub_truncate)]
fn c17_truncate_step() {
    let mut s = flush_pre(1, 1, 1000);
    kani::cover!(true, "reach");
    let ok = okf(s.wal.truncate()).is_some();
    let m = *s.wal.header.metadata();
    assert!(ok && unsafe { TRUNCATES } == 1, "file_truncated_once");
    // the state is that of a freshly created log: T = 1, nothing pending, no record, no lsn
    assert!(s.wal.flush_queue.is_empty() && s.wal.current_block.is_none(), "nothing_pending_after_truncate");
    assert!(m.block_header.used_bytes == 0 && m.block_header.block_first_lsn.is_none() && m.block_header.block_last_lsn.is_none(), "block_zero_empty_after_truncate");
    assert!(m.wal_header.total_blocks == 1 && m.wal_header.total_entries == 0 && m.wal_header.global_start_lsn.is_none() && m.wal_header.global_last_lsn.is_none(), "counters_reset_after_truncate");
    assert!(m.wal_header.block_size as usize == BS && s.wal.block_size == BS, "block_size_kept");
    std::mem::forget(s);
}
