// host: lib.rs
// Native scenario for C15.drop_without_a_target_touches_nothing: DROP TABLE IF EXISTS of a name that does not exist is a
// no-op - on an empty database and next to existing tables (the first table created has object id 0).
use crate::{DBConfig, Database};

#[test]
fn drop_if_exists_of_a_missing_table_leaves_the_other_tables_alone() {
    let dir = tempfile::TempDir::new().unwrap();
    let db = Database::create(dir.path().join("t.db"), DBConfig::default()).unwrap();
    db.execute("DROP TABLE IF EXISTS nosuch").expect("IF EXISTS on an empty database");
    db.execute("CREATE TABLE t1 (id BIGINT, x BIGINT)").unwrap();
    db.execute("INSERT INTO t1 VALUES (1, 10), (2, 20)").unwrap();
    db.execute("CREATE TABLE t2 (id BIGINT)").unwrap();
    db.execute("INSERT INTO t2 VALUES (7)").unwrap();
    db.execute("DROP TABLE IF EXISTS nosuch").expect("IF EXISTS next to other tables");
    assert!(db.execute("DROP TABLE nosuch").is_err(), "DROP of a missing table without IF EXISTS must fail");
    let n1 = db.execute("SELECT id FROM t1").expect("t1 must still exist after DROP TABLE IF EXISTS nosuch").into_rows().unwrap().len();
    let n2 = db.execute("SELECT id FROM t2").expect("t2 must still exist").into_rows().unwrap().len();
    assert_eq!((n1, n2), (2, 1), "rows of the other tables");
    // the real thing still works, and only on its target
    db.execute("DROP TABLE IF EXISTS t2").unwrap();
    assert!(db.execute("SELECT id FROM t2").is_err(), "t2 dropped");
    assert_eq!(db.execute("SELECT id FROM t1").unwrap().into_rows().unwrap().len(), 2, "t1 untouched by DROP t2");
}
