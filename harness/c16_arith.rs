// Kani harnesses (child module of crates/axmos-db/src/types/mod.rs).  See /verif/HARNESS_GUIDE.md
// C16 (never a panic): DataType::{add,sub,mul,div,rem} and DataType::abs at full width.
//
// How the 36 ordered numeric type pairs are partitioned (types/numeric.rs `promote_symmetric!`):
//   * a pair with a Float/Double operand is computed in f64               -> "float pairs" (20 ordered pairs)
//   * {UInt,BigUInt} x {UInt,BigUInt} is computed in u64                  -> "U pairs"     (4)
//   * every other integer pair is computed in i64 (`x.0 as i64`)          -> "I pairs"     (12)
// Regions (decided on the operands *as promoted by the code*):
//   exact     : no BigUInt operand >= 2^63 inside an I pair (otherwise `as i64` already changed the value)
//   overflow  : the i64 / u64 operation on the promoted operands is not representable (checked_* is None)
//   zero      : promoted divisor == 0            min_neg1 : i64::MIN / -1  (resp. %)
// `*_ok` harnesses assume exact && !overflow && !zero && !min_neg1 and must pass; every other region has its own
// harness (expected to be violated on the pinned tree: Rust's overflow / division checks fire => panic).
#![allow(unused_imports, dead_code, clippy::all)]
use super::*;

fn okf<T, E>(r: Result<T, E>) -> Option<T> {
    match r {
        Ok(v) => Some(v),
        Err(e) => {
            std::mem::forget(e);
            None
        }
    }
}
fn v_int() -> DataType {
    DataType::Int(Int32(kani::any()))
}
fn v_bigint() -> DataType {
    DataType::BigInt(Int64(kani::any()))
}
fn v_uint() -> DataType {
    DataType::UInt(UInt32(kani::any()))
}
fn v_biguint() -> DataType {
    DataType::BigUInt(UInt64(kani::any()))
}
fn v_float() -> DataType {
    DataType::Float(Float32(kani::any()))
}
fn v_double() -> DataType {
    DataType::Double(Float64(kani::any()))
}

const ADD: u8 = 0;
const SUB: u8 = 1;
const MUL: u8 = 2;
const DIV: u8 = 3;
const REM: u8 = 4;

/// the call under test; never lets the Result drop
fn arith(op: u8, a: &DataType, b: &DataType) -> Option<DataType> {
    okf(match op {
        ADD => a.add(b),
        SUB => a.sub(b),
        MUL => a.mul(b),
        DIV => a.div(b),
        _ => a.rem(b),
    })
}

/// operands as promoted by the code for an integer pair
enum P {
    I(i64, i64),
    U(u64, u64),
}
fn is_unsigned(d: &DataType) -> bool {
    matches!(d, DataType::UInt(_) | DataType::BigUInt(_))
}
fn as_i64_like_code(d: &DataType) -> i64 {
    match d {
        DataType::Int(v) => v.0 as i64,
        DataType::BigInt(v) => v.0,
        DataType::UInt(v) => v.0 as i64,
        DataType::BigUInt(v) => v.0 as i64, // wraps for >= 2^63 exactly like `promote_pair!`
        _ => unreachable!(),
    }
}
fn as_u64(d: &DataType) -> u64 {
    match d {
        DataType::UInt(v) => v.0 as u64,
        DataType::BigUInt(v) => v.0,
        _ => unreachable!(),
    }
}
fn prom(a: &DataType, b: &DataType) -> P {
    if is_unsigned(a) && is_unsigned(b) {
        P::U(as_u64(a), as_u64(b))
    } else {
        P::I(as_i64_like_code(a), as_i64_like_code(b))
    }
}
/// false iff an I pair holds a BigUInt >= 2^63 (value already changed by the promotion)
fn exact(a: &DataType, b: &DataType) -> bool {
    if is_unsigned(a) && is_unsigned(b) {
        return true;
    }
    let big = |d: &DataType| matches!(d, DataType::BigUInt(v) if v.0 > i64::MAX as u64);
    !big(a) && !big(b)
}
fn zero_div(op: u8, p: &P) -> bool {
    (op == DIV || op == REM)
        && match p {
            P::I(_, y) => *y == 0,
            P::U(_, y) => *y == 0,
        }
}
fn min_neg1(op: u8, p: &P) -> bool {
    (op == DIV || op == REM) && matches!(p, P::I(x, y) if *x == i64::MIN && *y == -1)
}
fn overflow(op: u8, p: &P) -> bool {
    match (op, p) {
        (ADD, P::I(x, y)) => x.checked_add(*y).is_none(),
        (SUB, P::I(x, y)) => x.checked_sub(*y).is_none(),
        (MUL, P::I(x, y)) => x.checked_mul(*y).is_none(),
        (ADD, P::U(x, y)) => x.checked_add(*y).is_none(),
        (SUB, P::U(x, y)) => x.checked_sub(*y).is_none(),
        (MUL, P::U(x, y)) => x.checked_mul(*y).is_none(),
        _ => false,
    }
}

const R_OK: u8 = 0; // exact && !overflow && !zero && !min_neg1
const R_OVERFLOW: u8 = 1; // exact && overflow
const R_ZERO: u8 = 2; // divisor == 0
const R_MIN_NEG1: u8 = 3; // exact && i64::MIN op -1
const R_INEXACT: u8 = 4; // BigUInt >= 2^63 in an I pair (divisor != 0)

fn in_region(region: u8, op: u8, a: &DataType, b: &DataType) -> bool {
    let p = prom(a, b);
    let ex = exact(a, b);
    match region {
        R_OK => ex && !overflow(op, &p) && !zero_div(op, &p) && !min_neg1(op, &p),
        R_OVERFLOW => ex && overflow(op, &p),
        R_ZERO => zero_div(op, &p),
        R_MIN_NEG1 => ex && min_neg1(op, &p),
        _ => !ex && !zero_div(op, &p),
    }
}
/// one pair: call the operation iff the operands are in the region (no global assume: pairs are independent)
fn one(region: u8, op: u8, a: DataType, b: DataType) {
    let hit = in_region(region, op, &a, &b);
    // reachability witness: some pair has operands in the region (placed before the call: a panic ends the path)
    kani::cover!(hit, "reach");
    if hit {
        let r = arith(op, &a, &b);
        if region == R_OK {
            assert!(r.is_some(), "int_arith_in_range_returns_value");
        }
        std::mem::forget(r);
    }
}
/// the 4 ordered pairs with two 32-bit operands (i64 / u64 arithmetic on them can only overflow for sub in u64)
fn narrow_int_pairs(region: u8, op: u8) {
    one(region, op, v_int(), v_int());
    one(region, op, v_int(), v_uint());
    one(region, op, v_uint(), v_int());
    one(region, op, v_uint(), v_uint());
}
/// the 12 ordered pairs with at least one 64-bit operand
fn wide_int_pairs(region: u8, op: u8) {
    one(region, op, v_int(), v_bigint());
    one(region, op, v_bigint(), v_int());
    one(region, op, v_bigint(), v_bigint());
    one(region, op, v_int(), v_biguint());
    one(region, op, v_biguint(), v_int());
    one(region, op, v_bigint(), v_uint());
    one(region, op, v_uint(), v_bigint());
    one(region, op, v_bigint(), v_biguint());
    one(region, op, v_biguint(), v_bigint());
    one(region, op, v_uint(), v_biguint());
    one(region, op, v_biguint(), v_uint());
    one(region, op, v_biguint(), v_biguint());
}
/// all 16 ordered integer pairs, fresh symbolic operands for each
fn all_int_pairs(region: u8, op: u8) {
    narrow_int_pairs(region, op);
    wide_int_pairs(region, op);
}
macro_rules! hregion {
    ($name:ident, $region:expr, $op:expr) => {
        #[kani::proof]
        #[kani::unwind(4)]
        fn $name() {
            all_int_pairs($region, $op);
        }
    };
}

// ---- complement region: must pass ------------------------------------------------------------------------
// @obl harness=c16_arith_add_ok id=C16.arith[add][int_pairs/in_range] tier=quick funcs="DataType::add,PromotedAdd::promoted_add" bounds="all 16 ordered pairs of {Int,BigInt,UInt,BigUInt}, full width" assume="promoted operands exact and promoted sum representable"
hregion!(c16_arith_add_ok, R_OK, ADD);
// @obl harness=c16_arith_sub_ok id=C16.arith[sub][int_pairs/in_range] tier=quick funcs="DataType::sub,PromotedSub::promoted_sub" bounds="all 16 ordered pairs of {Int,BigInt,UInt,BigUInt}, full width" assume="promoted operands exact and promoted difference representable"
hregion!(c16_arith_sub_ok, R_OK, SUB);
// mul is split: CBMC has to decide a 64x64-bit multiplier-overflow query per pair (14 - 80 s each), one SAT instance
// holding all 12 wide pairs does not finish in 300 s.
macro_rules! hmul_ok {
    ($name:ident, $( ($a:ident, $b:ident) ),+) => {
        #[kani::proof]
        #[kani::unwind(4)]
        fn $name() {
            $( one(R_OK, MUL, $a(), $b()); )+
        }
    };
}
// @obl harness=c16_arith_mul_ok_narrow id=C16.arith[mul][Int|UInt_x_Int|UInt] tier=quick funcs="DataType::mul,PromotedMul::promoted_mul" bounds="the 4 ordered pairs of {Int,UInt}, every value (product always fits i64 / u64)"
hmul_ok!(c16_arith_mul_ok_narrow, (v_int, v_int), (v_int, v_uint), (v_uint, v_int), (v_uint, v_uint));
// @obl harness=c16_arith_mul_ok_signed id=C16.arith[mul][Int,BigInt|BigInt,Int|BigInt,BigInt/in_range] tier=thorough funcs="DataType::mul,PromotedMul::promoted_mul" bounds="full width" assume="i64 product representable"
hmul_ok!(c16_arith_mul_ok_signed, (v_int, v_bigint), (v_bigint, v_int), (v_bigint, v_bigint));
// @obl harness=c16_arith_mul_ok_mixed32 id=C16.arith[mul][BigInt,UInt|UInt,BigInt|Int,BigUInt|BigUInt,Int/in_range] tier=thorough funcs="DataType::mul,PromotedMul::promoted_mul" bounds="full width" assume="BigUInt operand < 2^63, i64 product representable"
hmul_ok!(c16_arith_mul_ok_mixed32, (v_bigint, v_uint), (v_uint, v_bigint), (v_int, v_biguint), (v_biguint, v_int));
// @obl harness=c16_arith_mul_ok_mixed64 id=C16.arith[mul][BigInt,BigUInt|BigUInt,BigInt/in_range] tier=thorough funcs="DataType::mul,PromotedMul::promoted_mul" bounds="full width" assume="BigUInt operand < 2^63, i64 product representable"
hmul_ok!(c16_arith_mul_ok_mixed64, (v_bigint, v_biguint), (v_biguint, v_bigint));
// @obl harness=c16_arith_mul_ok_uint_biguint id=C16.arith[mul][UInt,BigUInt/in_range] tier=thorough funcs="DataType::mul,PromotedMul::promoted_mul" bounds="full width" assume="u64 product representable"
hmul_ok!(c16_arith_mul_ok_uint_biguint, (v_uint, v_biguint));
// @obl harness=c16_arith_mul_ok_biguint_uint id=C16.arith[mul][BigUInt,UInt/in_range] tier=thorough funcs="DataType::mul,PromotedMul::promoted_mul" bounds="full width" assume="u64 product representable"
hmul_ok!(c16_arith_mul_ok_biguint_uint, (v_biguint, v_uint));
// @obl harness=c16_arith_mul_ok_unsigned64 id=C16.arith[mul][BigUInt,BigUInt/in_range] tier=thorough funcs="DataType::mul,PromotedMul::promoted_mul" bounds="full width" assume="u64 product representable"
hmul_ok!(c16_arith_mul_ok_unsigned64, (v_biguint, v_biguint));
// @obl harness=c16_arith_div_ok id=C16.arith[div][int_pairs/in_range] tier=quick funcs="DataType::div,PromotedDiv::promoted_div" bounds="all 16 ordered pairs of {Int,BigInt,UInt,BigUInt}, full width" assume="promoted operands exact, divisor != 0, not i64::MIN / -1"
hregion!(c16_arith_div_ok, R_OK, DIV);
// @obl harness=c16_arith_rem_ok id=C16.arith[rem][int_pairs/in_range] tier=quick funcs="DataType::rem,PromotedRem::promoted_rem" bounds="all 16 ordered pairs of {Int,BigInt,UInt,BigUInt}, full width" assume="promoted operands exact, divisor != 0, not i64::MIN % -1"
hregion!(c16_arith_rem_ok, R_OK, REM);

// ---- failing regions (each isolates one panic cause) ------------------------------------------------------
// @obl harness=c16_arith_add_overflow id=C16.arith[add][int_pairs/overflow] tier=quick funcs="DataType::add,PromotedAdd::promoted_add" bounds="all 16 ordered integer pairs restricted to: promoted sum not representable in i64 / u64"
hregion!(c16_arith_add_overflow, R_OVERFLOW, ADD);
// @obl harness=c16_arith_sub_overflow id=C16.arith[sub][int_pairs/overflow] tier=quick funcs="DataType::sub,PromotedSub::promoted_sub" bounds="all 16 ordered integer pairs restricted to: promoted difference not representable in i64 / u64 (includes UInt a - UInt b with a < b)"
hregion!(c16_arith_sub_overflow, R_OVERFLOW, SUB);
// @obl harness=c16_arith_mul_overflow id=C16.arith[mul][int_pairs/overflow] tier=quick funcs="DataType::mul,PromotedMul::promoted_mul" bounds="all 16 ordered integer pairs restricted to: promoted product not representable in i64 / u64"
hregion!(c16_arith_mul_overflow, R_OVERFLOW, MUL);
// @obl harness=c16_arith_div_zero id=C16.arith[div][int_pairs/divisor_0] tier=quick funcs="DataType::div,PromotedDiv::promoted_div" bounds="all 16 ordered integer pairs restricted to divisor == 0"
hregion!(c16_arith_div_zero, R_ZERO, DIV);
// @obl harness=c16_arith_rem_zero id=C16.arith[rem][int_pairs/divisor_0] tier=quick funcs="DataType::rem,PromotedRem::promoted_rem" bounds="all 16 ordered integer pairs restricted to divisor == 0"
hregion!(c16_arith_rem_zero, R_ZERO, REM);
// @obl harness=c16_arith_div_min_neg1 id=C16.arith[div][int_pairs/MIN,-1] tier=quick funcs="DataType::div,PromotedDiv::promoted_div" bounds="the i64-promoted pairs restricted to i64::MIN / -1"
hregion!(c16_arith_div_min_neg1, R_MIN_NEG1, DIV);
// @obl harness=c16_arith_rem_min_neg1 id=C16.arith[rem][int_pairs/MIN,-1] tier=quick funcs="DataType::rem,PromotedRem::promoted_rem" bounds="the i64-promoted pairs restricted to i64::MIN % -1"
hregion!(c16_arith_rem_min_neg1, R_MIN_NEG1, REM);

// BigUInt >= 2^63 next to a signed operand: `as i64` turns it negative, after which the i64 operation can overflow
// although the mathematical result is representable (e.g. BigInt(-1) + BigUInt(2^63) = 2^63 - 1).
fn inexact_pairs(op: u8) {
    one(R_INEXACT, op, v_int(), v_biguint());
    one(R_INEXACT, op, v_biguint(), v_int());
    one(R_INEXACT, op, v_bigint(), v_biguint());
    one(R_INEXACT, op, v_biguint(), v_bigint());
}
// @obl harness=c16_arith_biguint_wrap id=C16.arith[add,sub,mul,div,rem][signed_x_BigUInt>=2^63] tier=quick funcs="DataType::add,DataType::sub,DataType::mul,DataType::div,DataType::rem,Promote::promote_rhs" bounds="{Int,BigInt} x BigUInt both orders, BigUInt operand >= 2^63, divisor != 0, all five operations"
#[kani::proof]
#[kani::unwind(4)]
fn c16_arith_biguint_wrap() {
    inexact_pairs(ADD);
    inexact_pairs(SUB);
    inexact_pairs(MUL);
    inexact_pairs(DIV);
    inexact_pairs(REM);
}

// ---- float pairs: IEEE arithmetic never traps ----------------------------------------------------------------
// (CBMC's `--nan-check` failures "NaN on addition ..." are not Rust panics; the driver ignores that category.)
fn fl(op: u8, a: DataType, b: DataType) {
    let r = arith(op, &a, &b);
    assert!(matches!(r, Some(DataType::Double(_))), "float_arith_returns_double");
    std::mem::forget(r);
}
fn all_float_pairs(op: u8) {
    fl(op, v_double(), v_double());
    fl(op, v_double(), v_float());
    fl(op, v_float(), v_double());
    fl(op, v_float(), v_float());
    fl(op, v_double(), v_int());
    fl(op, v_int(), v_double());
    fl(op, v_double(), v_bigint());
    fl(op, v_bigint(), v_double());
    fl(op, v_double(), v_uint());
    fl(op, v_uint(), v_double());
    fl(op, v_double(), v_biguint());
    fl(op, v_biguint(), v_double());
    fl(op, v_float(), v_int());
    fl(op, v_int(), v_float());
    fl(op, v_float(), v_bigint());
    fl(op, v_bigint(), v_float());
    fl(op, v_float(), v_uint());
    fl(op, v_uint(), v_float());
    fl(op, v_float(), v_biguint());
    fl(op, v_biguint(), v_float());
}
// @obl harness=c16_arith_float_total id=C16.arith[add,sub,mul,div,rem][float_pairs] tier=quick funcs="DataType::add,DataType::sub,DataType::mul,DataType::div,DataType::rem" bounds="all 20 ordered pairs with a Float/Double operand, every bit pattern (NaN, inf, 0.0 divisor included)"
#[kani::proof]
#[kani::unwind(4)]
fn c16_arith_float_total() {
    kani::cover!(true, "reach");
    all_float_pairs(ADD);
    all_float_pairs(SUB);
    all_float_pairs(MUL);
    all_float_pairs(DIV);
    all_float_pairs(REM);
}

// ---- non-numeric operands: Err, never a panic -------------------------------------------------------------------
fn v_bool() -> DataType {
    DataType::Bool(Bool(kani::any()))
}
fn v_blob2() -> DataType {
    let d: [u8; 2] = kani::any();
    let mut v: Vec<u8> = Vec::with_capacity(3);
    v.push(4);
    v.push(d[0]);
    v.push(d[1]);
    DataType::Blob(Blob::from(v.into_boxed_slice()))
}
fn nn(op: u8, a: &DataType, b: &DataType) {
    let r = arith(op, a, b);
    assert!(r.is_none(), "non_numeric_operand_is_error");
    std::mem::forget(r);
}
fn non_numeric(op: u8) {
    let (n, bo, bl, i, d) = (DataType::Null, v_bool(), v_blob2(), v_bigint(), v_double());
    nn(op, &n, &n);
    nn(op, &n, &i);
    nn(op, &i, &n);
    nn(op, &d, &n);
    nn(op, &bo, &bo);
    nn(op, &bo, &i);
    nn(op, &i, &bo);
    nn(op, &bl, &bl);
    nn(op, &bl, &d);
    nn(op, &i, &bl);
    std::mem::forget((n, bo, bl, i, d));
}
// @obl harness=c16_arith_non_numeric id=C16.arith[add,sub,mul,div,rem][Null|Bool|Blob_operand] tier=quick funcs="DataType::add,DataType::sub,DataType::mul,DataType::div,DataType::rem" bounds="Null, Bool, 2-byte Blob against each other and against BigInt / Double (zero divisors included)" unwind=6
#[kani::proof]
#[kani::unwind(6)]
fn c16_arith_non_numeric() {
    kani::cover!(true, "reach");
    non_numeric(ADD);
    non_numeric(SUB);
    non_numeric(MUL);
    non_numeric(DIV);
    non_numeric(REM);
}

// ---- abs ----------------------------------------------------------------------------------------------------------
// @obl harness=c16_abs_ok id=C16.abs[all_kinds/not_MIN] tier=quick funcs="DataType::abs,NumericOps::abs,NumericAbs::numeric_abs" bounds="every Int/BigInt except MIN, every UInt/BigUInt/Float/Double, Null, Bool"
#[kani::proof]
#[kani::unwind(4)]
fn c16_abs_ok() {
    let (i, b): (i32, i64) = (kani::any(), kani::any());
    kani::assume(i != i32::MIN && b != i64::MIN);
    kani::cover!(true, "reach");
    match DataType::Int(Int32(i)).abs() {
        DataType::Int(r) => assert!(r.0 >= 0 && (r.0 == i || r.0 == -i), "abs_value"),
        _ => assert!(false, "abs_kind"),
    }
    match DataType::BigInt(Int64(b)).abs() {
        DataType::BigInt(r) => assert!(r.0 >= 0 && (r.0 == b || r.0 == -b), "abs_value"),
        _ => assert!(false, "abs_kind"),
    }
    let (u, bu, f, d) = (v_uint(), v_biguint(), v_float(), v_double());
    assert!(matches!((u.abs(), &u), (DataType::UInt(r), DataType::UInt(x)) if r.0 == x.0), "abs_value");
    assert!(matches!((bu.abs(), &bu), (DataType::BigUInt(r), DataType::BigUInt(x)) if r.0 == x.0), "abs_value");
    assert!(matches!((f.abs(), &f), (DataType::Float(r), DataType::Float(x)) if r.0.to_bits() == (x.0.to_bits() & 0x7fff_ffff)), "abs_value");
    assert!(matches!((d.abs(), &d), (DataType::Double(r), DataType::Double(x)) if r.0.to_bits() == (x.0.to_bits() & 0x7fff_ffff_ffff_ffff)), "abs_value");
    assert!(matches!(DataType::Null.abs(), DataType::Null), "abs_of_null_is_null");
    assert!(matches!(v_bool().abs(), DataType::Null), "abs_of_non_numeric_is_null");
}
// @obl harness=c16_abs_int_min id=C16.abs[Int/MIN] tier=quick funcs="DataType::abs,NumericAbs::numeric_abs" bounds="Int(i32::MIN)"
#[kani::proof]
#[kani::unwind(4)]
fn c16_abs_int_min() {
    kani::cover!(true, "reach");
    let r = DataType::Int(Int32(i32::MIN)).abs();
    std::mem::forget(r);
}
// @obl harness=c16_abs_bigint_min id=C16.abs[BigInt/MIN] tier=quick funcs="DataType::abs,NumericAbs::numeric_abs" bounds="BigInt(i64::MIN)"
#[kani::proof]
#[kani::unwind(4)]
fn c16_abs_bigint_min() {
    kani::cover!(true, "reach");
    let r = DataType::BigInt(Int64(i64::MIN)).abs();
    std::mem::forget(r);
}

