// host: lib.rs
// Native scenario for C13.vacuum_order: a transaction that rolled back right before VACUUM (it is the newest one, no
// commit in between) stays invisible after the VACUUM and after closing and reopening the database: VACUUM may forget
// an aborted id only when every row that transaction wrote has been reclaimed.
use crate::{DBConfig, Database};

fn ids(db: &Database) -> Vec<i64> {
    let mut v: Vec<i64> = db.execute("SELECT id FROM t").unwrap().into_rows().unwrap().iterrows().map(|r| r[0].as_big_int().unwrap().value()).collect();
    v.sort();
    v
}

#[test]
fn rollback_right_before_vacuum_stays_invisible_after_reopen() {
    let dir = tempfile::TempDir::new().unwrap();
    let path = dir.path().join("t.db");
    {
        let db = Database::create(&path, DBConfig::default()).unwrap();
        db.execute("CREATE TABLE t (id BIGINT, name TEXT, v INT)").unwrap();
        db.execute("CREATE UNIQUE INDEX t_name ON t (name)").unwrap();
        for i in 0..4 {
            db.execute(&format!("INSERT INTO t VALUES ({i}, 'n{i}', {})", i * 10)).unwrap();
        }
        {
            let mut s = db.session().unwrap();
            s.execute("INSERT INTO t VALUES (100, 'rolled', 1)").unwrap();
            s.execute("INSERT INTO t VALUES (101, 'back', 2)").unwrap();
            s.abort_transaction().unwrap();
        }
        db.vacuum().unwrap();
        assert_eq!(ids(&db), vec![0, 1, 2, 3], "right after VACUUM");
    }
    let db = Database::open(&path, DBConfig::default()).unwrap();
    assert_eq!(ids(&db), vec![0, 1, 2, 3], "rolled-back rows became visible after VACUUM + reopen");
    assert!(db.execute("INSERT INTO t VALUES (102, 'rolled', 3)").is_ok(), "key of a rolled-back row is still taken after VACUUM + reopen");
}
