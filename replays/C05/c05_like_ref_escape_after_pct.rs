// replay for obligation C05.like_ref[escape_after_%] (harness c05_like_ref_escape_after_pct)
// harness-file: c16_blob.rs
// failed: like_matches_reference
// native outcome when recorded: panicked: thread 'types::blob::__verif_c16_blob::kani_concrete_playback_c05_like_ref_escape_after_pct_5466901233683767653' (29118) panicked at /var/tmp/axv-c05-c4oe8d76/src/crates/axmos-db/src/__verif/c16_blob.rs:124:5: | like_matches_reference
// re-run: /verif/bin/check --replay /verif/replays/C05/c05_like_ref_escape_after_pct.rs
#[test]
fn kani_concrete_playback_c05_like_ref_escape_after_pct_4880555177702030742() {
    let concrete_vals: Vec<Vec<u8>> = vec![
        // 92
        vec![92],
        // 93
        vec![93],
        // 93
        vec![93],
        // 93
        vec![93],
        // 4ul
        vec![4, 0, 0, 0, 0, 0, 0, 0],
        // 37
        vec![37],
        // 92
        vec![92],
        // 92
        vec![92],
        // 3ul
        vec![3, 0, 0, 0, 0, 0, 0, 0],
    ];
    kani::concrete_playback_run(concrete_vals, c05_like_ref_escape_after_pct);
}

#[test]
fn kani_concrete_playback_c05_like_ref_escape_after_pct_5466901233683767653() {
    let concrete_vals: Vec<Vec<u8>> = vec![
        // 95
        vec![95],
        // 92
        vec![92],
        // 37
        vec![37],
        // 165
        vec![165],
        // 4ul
        vec![4, 0, 0, 0, 0, 0, 0, 0],
        // 37
        vec![37],
        // 92
        vec![92],
        // 37
        vec![37],
        // 3ul
        vec![3, 0, 0, 0, 0, 0, 0, 0],
    ];
    kani::concrete_playback_run(concrete_vals, c05_like_ref_escape_after_pct);
}

