// host: storage/page.rs
// Native replay for C09.aborted_reload_range: every id the bitmap remembers is returned by the reload scan.
use super::*;

#[test]
fn every_tracked_aborted_id_is_reloaded() {
    for t in [0u64, 1, 7, 8, 1023, 1024, 4095, 5000, (MAX_TRACKED_ABORTED_TXS as u64) - 1] {
        let mut h: PageZeroHeader = unsafe { std::mem::zeroed() };
        h.mark_transaction_aborted(t);
        assert!(h.is_transaction_aborted(t), "id {} not remembered by the bitmap", t);
        let got = h.get_aborted_transactions();
        assert!(got.contains(&t), "aborted id {} is in the bitmap but not returned by get_aborted_transactions (reload at open would lose it)", t);
    }
}

#[test]
fn ids_marked_together_are_all_reloaded() {
    // the same ids the Kani harness marks: first / last bit of a byte, neighbours in one byte, first / last byte
    let ids = [0u64, 7, 8, 1023, 4095, 8191];
    let mut h: PageZeroHeader = unsafe { std::mem::zeroed() };
    for t in ids {
        h.mark_transaction_aborted(t);
    }
    assert_eq!(h.get_aborted_transactions(), ids.to_vec(), "ids marked one after the other, reloaded in ascending order");
    for t in ids {
        assert!(h.is_transaction_aborted(t), "id {t} forgotten after a later id of the same byte was marked");
    }
    assert!(!h.is_transaction_aborted(1) && !h.is_transaction_aborted(9), "ids never marked");
}
