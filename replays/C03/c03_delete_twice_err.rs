// replay for obligation C03.delete_stamp[already_deleted/err] (harness c03_delete_twice_err)
// harness-file: c18_tuple.rs
// failed: delete_of_deleted_tuple_is_err
// native outcome when recorded: panicked: thread 'storage::tuple::__verif_c18_tuple::kani_concrete_playback_c03_delete_twice_err_12876056708839175693' (15886) panicked at /var/tmp/axv-c03-fijmuf3u/src/crates/axmos-db/src/__verif/c18_tuple.rs:204:5: | delete_of_deleted_tuple_is_err
// re-run: /verif/bin/check --replay /verif/replays/C03/c03_delete_twice_err.rs
#[test]
fn kani_concrete_playback_c03_delete_twice_err_12876056708839175693() {
    let concrete_vals: Vec<Vec<u8>> = vec![
        // 0
        vec![0],
        // 0
        vec![0],
        // 0
        vec![0],
        // 0
        vec![0],
        // 0
        vec![0],
        // 0
        vec![0],
        // 0
        vec![0],
        // 0
        vec![0],
        // 0
        vec![0],
        // 0
        vec![0],
        // 0
        vec![0],
        // 0
        vec![0],
        // 0
        vec![0],
        // 0
        vec![0],
        // 0
        vec![0],
        // 0
        vec![0],
        // 0
        vec![0],
        // 0
        vec![0],
        // 0
        vec![0],
        // 0
        vec![0],
        // 0
        vec![0],
        // 0
        vec![0],
        // 0
        vec![0],
        // 0
        vec![0],
        // 0
        vec![0],
        // 0
        vec![0],
        // 0
        vec![0],
        // 0
        vec![0],
        // 0
        vec![0],
        // 0
        vec![0],
        // 0
        vec![0],
        // 0
        vec![0],
        // 0
        vec![0],
        // 0
        vec![0],
        // 0
        vec![0],
        // 0
        vec![0],
        // 0
        vec![0],
        // 0
        vec![0],
        // 0
        vec![0],
        // 0
        vec![0],
        // 0ul
        vec![0, 0, 0, 0, 0, 0, 0, 0],
    ];
    kani::concrete_playback_run(concrete_vals, c03_delete_twice_err);
}

