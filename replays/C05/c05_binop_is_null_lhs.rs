// replay for obligation C05.binop[Is,IsNot][Null,Bool] (harness c05_binop_is_null_lhs)
// harness-file: c05_eval.rs
// failed: null_is_bool_is_false
// native outcome when recorded: panicked: thread 'runtime::eval::__verif_c05_eval::kani_concrete_playback_c05_binop_is_null_lhs_3573064864916959049' (29113) panicked at /var/tmp/axv-c05-c4oe8d76/src/crates/axmos-db/src/__verif/c05_eval.rs:373:9: | null_is_bool_is_false | note: run with `RUST_BACKTRACE=1` environment variable to display a backtrace
// re-run: /verif/bin/check --replay /verif/replays/C05/c05_binop_is_null_lhs.rs
#[test]
fn kani_concrete_playback_c05_binop_is_null_lhs_3573064864916959049() {
    let concrete_vals: Vec<Vec<u8>> = vec![
        // 0
        vec![0],
    ];
    kani::concrete_playback_run(concrete_vals, c05_binop_is_null_lhs);
}

