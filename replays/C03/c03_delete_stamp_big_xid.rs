// replay for obligation C03.delete_stamp[xid>=2^63] (harness c03_delete_stamp_big_xid)
// harness-file: c18_tuple.rs
// failed: delete_sets_xmax
// native outcome when recorded: panicked: thread 'storage::tuple::__verif_c18_tuple::kani_concrete_playback_c03_delete_stamp_big_xid_12367138913182331703' (15885) panicked at /var/tmp/axv-c03-fijmuf3u/src/crates/axmos-db/src/__verif/c18_tuple.rs:192:5: | delete_sets_xmax | note: run with `RUST_BACKTRACE=1` environment variable to display a backtrace
// re-run: /verif/bin/check --replay /verif/replays/C03/c03_delete_stamp_big_xid.rs
#[test]
fn kani_concrete_playback_c03_delete_stamp_big_xid_12367138913182331703() {
    let concrete_vals: Vec<Vec<u8>> = vec![
        // 255
        vec![255],
        // 255
        vec![255],
        // 255
        vec![255],
        // 255
        vec![255],
        // 255
        vec![255],
        // 255
        vec![255],
        // 255
        vec![255],
        // 255
        vec![255],
        // 255
        vec![255],
        // 255
        vec![255],
        // 255
        vec![255],
        // 255
        vec![255],
        // 255
        vec![255],
        // 255
        vec![255],
        // 255
        vec![255],
        // 255
        vec![255],
        // 255
        vec![255],
        // 255
        vec![255],
        // 255
        vec![255],
        // 255
        vec![255],
        // 255
        vec![255],
        // 255
        vec![255],
        // 255
        vec![255],
        // 255
        vec![255],
        // 255
        vec![255],
        // 255
        vec![255],
        // 255
        vec![255],
        // 255
        vec![255],
        // 255
        vec![255],
        // 255
        vec![255],
        // 255
        vec![255],
        // 255
        vec![255],
        // 255
        vec![255],
        // 255
        vec![255],
        // 255
        vec![255],
        // 255
        vec![255],
        // 255
        vec![255],
        // 255
        vec![255],
        // 255
        vec![255],
        // 255
        vec![255],
        // 18446744073709551615ul
        vec![255, 255, 255, 255, 255, 255, 255, 255],
    ];
    kani::concrete_playback_run(concrete_vals, c03_delete_stamp_big_xid);
}

