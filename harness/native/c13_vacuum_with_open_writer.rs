// host: lib.rs
// Native scenario for C13.force_aborted_sessions_stay_known: a session with uncommitted INSERTs is still open when
// VACUUM runs; its rows stay invisible to everybody afterwards.
use crate::{DBConfig, Database};

#[test]
fn rows_of_a_session_open_during_vacuum_stay_invisible() {
    let dir = tempfile::TempDir::new().unwrap();
    let db = Database::create(dir.path().join("t.db"), DBConfig::default()).unwrap();
    db.execute("CREATE TABLE t (id BIGINT, v INT)").unwrap();
    db.execute("INSERT INTO t VALUES (1, 10)").unwrap();
    let mut w = db.session().unwrap();
    w.execute("INSERT INTO t VALUES (2, 20)").unwrap();
    w.execute("INSERT INTO t VALUES (3, 30)").unwrap();
    db.vacuum().unwrap();
    let n = db.execute("SELECT id FROM t").unwrap().into_rows().unwrap().len();
    assert_eq!(n, 1, "uncommitted rows of a session that was open during VACUUM are visible");
    std::mem::forget(w);
}
