// replay for obligation C19.cast_value[Double->BigUInt] (harness c19_cast_double_biguint)
// harness-file: c19_types.rs
// failed: cast_is_truncation
// native outcome when recorded: playback build failed
// re-run: /verif/bin/check --replay /verif/replays/C19/c19_cast_double_biguint.rs
#[test]
fn kani_concrete_playback_c19_cast_double_biguint_2437587238046728272() {
    let concrete_vals: Vec<Vec<u8>> = vec![
        // 0
        vec![0, 0, 0, 0, 0, 0, 0, 0],
    ];
    kani::concrete_playback_run(concrete_vals, c19_cast_double_biguint);
}

#[test]
fn kani_concrete_playback_c19_cast_double_biguint_6750418591006287273() {
    let concrete_vals: Vec<Vec<u8>> = vec![
        // 1.844674e+19
        vec![0, 0, 0, 0, 0, 0, 240, 67],
    ];
    kani::concrete_playback_run(concrete_vals, c19_cast_double_biguint);
}

