// Kani harnesses (child module of crates/axmos-db/src/io/cache.rs).  See /verif/HARNESS_GUIDE.md
// C12.cache_step: one `evict` on a full PageCache of capacity 2, one `insert` into a cache with room, one
// `remove` from a cache of 2 -- frames with symbolic pin states, eviction cursor symbolic or enumerated.
//
// Cost notes (measured): the IndexMap inside PageCache is the whole cost.  hashbrown's SSE2 group operations do not
// constant-fold in CBMC, so every probe loop is unrolled up to the harness unwind bound even for concrete keys:
// 2 inserts + 2 gets on IndexMap<u64,u64> = 92 s at unwind 3, > 300 s at unwind 6.  Therefore: page ids are
// concrete, the IndexMap gets a fixed hasher state (RandomState::new() reaches getrandom), presence is checked by
// scanning the entries by index (no hashing), the unwind bound is the smallest one the evict loop allows, and the
// harnesses that build a 2-frame cache are tier=thorough (200-430 s each).  z3 cannot be used here (CBMC exits with
// status 6 or z3 never returns).
#![allow(unused_imports, dead_code, clippy::all)]
use super::*;
use crate::multithreading::frames::Frame;
use crate::storage::core::buffer::MemBlock;
use crate::storage::page::{OverflowPage, OverflowPageHeader};
use std::collections::hash_map::RandomState;

fn fixed_state() -> RandomState {
    // RandomState is two u64 SipHash keys; any fixed key is a legal state
    unsafe { std::mem::transmute::<[u64; 2], RandomState>([0, 0]) }
}
const NEW_ID: PageId = 77;
fn old_id(i: usize) -> PageId {
    10 * (i as u64 + 1)
}
/// a frame for page `id` (64-byte overflow page: the cache never looks at the content)
fn mk_frame(id: PageId) -> MemFrame {
    let mut p: OverflowPage = MemBlock::new(64);
    p.metadata_mut().page_number = id;
    MemFrame::Overflow(Frame::new(p))
}
/// "pinned" = somebody outside the cache holds another handle to the frame (Frame::is_free looks at the Arc count)
fn pin(f: &MemFrame) {
    std::mem::forget(f.clone());
}
/// full cache: frames old_id(0..N) at map indices 0..N, pin state per frame, eviction cursor as given
fn mk_cache<const N: usize>(pins: &[bool; N], cursor: usize) -> PageCache {
    let mut frames: IndexMap<PageId, MemFrame> = IndexMap::with_capacity_and_hasher(N + 1, fixed_state());
    let mut i = 0;
    while i < N {
        let f = mk_frame(old_id(i));
        if pins[i] {
            pin(&f);
        }
        std::mem::forget(frames.insert(old_id(i), f));
        i += 1;
    }
    PageCache { capacity: N, frames, cursor, stats: MemoryStats::default() }
}
/// is a frame for page `id` stored under key `id`?  (scan of the first `n` entries by index; no hashing)
fn has_key(c: &PageCache, id: PageId, n: usize) -> bool {
    let mut i = 0;
    while i < n {
        if let Some((k, f)) = c.frames.get_index(i) {
            if *k == id && f.page_number() == id {
                return true;
            }
        }
        i += 1;
    }
    false
}
/// symbolic pre-state; `stale` selects the region where some frame is evictable but every evictable frame sits
/// BELOW the cursor (the pinned tree never rewinds the cursor); !stale = the complement.  Returns (pins, cursor, any_free)
fn pre_state<const N: usize>(stale: bool, clo: usize, chi: usize) -> ([bool; N], usize, bool) {
    let pins: [bool; N] = kani::any();
    let cursor: usize = if clo == chi { clo } else { kani::any() };
    kani::assume(cursor >= clo && cursor <= chi); // evict() never moves the cursor past len + 1
    let mut any_free = false;
    let mut free_at_or_after_cursor = false;
    let mut i = 0;
    while i < N {
        if !pins[i] {
            any_free = true;
            if i >= cursor {
                free_at_or_after_cursor = true;
            }
        }
        i += 1;
    }
    kani::assume((any_free && !free_at_or_after_cursor) == stale);
    (pins, cursor, any_free)
}
/// laws (b) and (c) for a victim handed out by evict/insert; `n` = entries to scan
fn victim_laws<const N: usize>(cache: &PageCache, v: &MemFrame, pins: &[bool; N], n: usize) {
    let vid = v.page_number();
    let mut k = N;
    let mut i = 0;
    while i < N {
        if vid == old_id(i) {
            k = i;
        }
        i += 1;
    }
    assert!(k < N, "evicted_was_cached");
    if k < N {
        assert!(!pins[k], "evicted_was_unpinned");
    }
    assert!(v.is_free(), "evicted_has_no_other_holder");
    let mut i = 0;
    while i < N {
        if i == k {
            assert!(!has_key(cache, old_id(i), n), "evicted_no_longer_cached");
        } else {
            assert!(has_key(cache, old_id(i), n), "others_still_cached");
        }
        i += 1;
    }
}
fn all_kept<const N: usize>(cache: &PageCache, n: usize) -> bool {
    let mut ok = true;
    let mut i = 0;
    while i < N {
        if !has_key(cache, old_id(i), n) {
            ok = false;
        }
        i += 1;
    }
    ok
}

// ---- evict on a full cache of N frames ---------------------------------------------------------------------------
fn evict_step<const N: usize>(stale: bool, clo: usize, chi: usize) {
    let (pins, cursor, any_free) = pre_state::<N>(stale, clo, chi);
    let mut cache = mk_cache::<N>(&pins, cursor);
    kani::cover!(true, "reach");
    match cache.evict() {
        Err(e) => {
            std::mem::forget(e);
            // (a) the out-of-memory error is only permitted when the cache cannot hold the operation
            assert!(!any_free, "oom_only_if_no_frame_evictable");
            assert!(all_kept::<N>(&cache, N), "oom_keeps_all_frames");
        }
        Ok(None) => {
            assert!(all_kept::<N>(&cache, N), "no_eviction_keeps_all_frames");
        }
        Ok(Some(v)) => {
            victim_laws::<N>(&cache, &v, &pins, N);
            std::mem::forget(v);
        }
    }
    std::mem::forget(cache);
}
// @obl harness=c12_cache_evict_2_c0 id=C12.cache_step[evict/cap2/cursor0] tier=thorough funcs="PageCache::evict" bounds="full cache of 2 frames (concrete page ids), symbolic pin flags, cursor = 0" unwind=4
#[kani::proof]
#[kani::unwind(4)]
fn c12_cache_evict_2_c0() {
    evict_step::<2>(false, 0, 0);
}
// @obl harness=c12_cache_evict_2_c1 id=C12.cache_step[evict/cap2/cursor1] tier=thorough funcs="PageCache::evict" bounds="full cache of 2 frames, symbolic pin flags, cursor = 1" assume="NOT(some frame unpinned and all unpinned frames below the cursor)" unwind=3
#[kani::proof]
#[kani::unwind(3)]
fn c12_cache_evict_2_c1() {
    evict_step::<2>(false, 1, 1);
}
// @obl harness=c12_cache_evict_2_c23 id=C12.cache_step[evict/cap2/cursor2-3] tier=thorough funcs="PageCache::evict" bounds="full cache of 2 frames, symbolic pin flags, symbolic cursor in 2..=3 (= len, len+1)" assume="NOT(some frame unpinned and all unpinned frames below the cursor)" unwind=3
#[kani::proof]
#[kani::unwind(3)]
fn c12_cache_evict_2_c23() {
    evict_step::<2>(false, 2, 3);
}
// @obl harness=c12_cache_evict_2_stale id=C12.cache_step[evict/cap2/stale_cursor] tier=thorough funcs="PageCache::evict" bounds="full cache of 2 frames, symbolic pin flags, symbolic cursor in 1..=3" assume="some frame unpinned and all unpinned frames below the cursor (region where the pinned tree reports OutOfMemory)" unwind=3
#[kani::proof]
#[kani::unwind(3)]
fn c12_cache_evict_2_stale() {
    evict_step::<2>(true, 1, 3);
}

// @obl harness=c12_cache_evict_1 id=C12.cache_step[evict/cap1] tier=thorough funcs="PageCache::evict" bounds="full cache of 1 frame, symbolic pin flag, symbolic cursor in 0..=2" assume="NOT(frame unpinned and cursor >= 1)" unwind=3
#[kani::proof]
#[kani::unwind(3)]
fn c12_cache_evict_1() {
    evict_step::<1>(false, 0, 2);
}

// ---- insert ---------------------------------------------------------------------------------------------------------
// `insert` into a FULL cache = contains_key + evict + IndexMap::insert.  Whenever the eviction really happens
// (swap_remove_index + insert in one harness) this does not fit even for capacity 1 and a concrete cursor: 490-570 s,
// then the 16 GB memory limit (CBMC solver error / exit 6).  Kept: the cases of a full capacity-1 cache where evict
// finds nothing (cursor = 1: pinned -> legitimate OOM; unpinned -> the stale-cursor OOM), and insert with room.
// The evicting case is covered as `evict` alone (above) + insert's glue `if capacity <= len { self.evict()? }`.
fn insert_step<const N: usize>(stale: bool, clo: usize, chi: usize) {
    let (pins, cursor, any_free) = pre_state::<N>(stale, clo, chi);
    let mut cache = mk_cache::<N>(&pins, cursor);
    let newf = mk_frame(NEW_ID);
    kani::cover!(true, "reach");
    match cache.insert(newf) {
        Err(e) => {
            std::mem::forget(e);
            assert!(!any_free, "oom_only_if_no_frame_evictable");
            assert!(all_kept::<N>(&cache, N + 1), "oom_keeps_all_frames");
        }
        Ok(None) => {
            assert!(all_kept::<N>(&cache, N + 1), "no_eviction_keeps_all_frames");
            assert!(has_key(&cache, NEW_ID, N + 1), "new_frame_cached");
        }
        Ok(Some(v)) => {
            victim_laws::<N>(&cache, &v, &pins, N + 1);
            assert!(has_key(&cache, NEW_ID, N + 1), "new_frame_cached");
            std::mem::forget(v);
        }
    }
    std::mem::forget(cache);
}
// @obl harness=c12_cache_insert_1_c1 id=C12.cache_step[insert/cap1/cursor1] tier=off funcs="PageCache::insert,PageCache::evict" bounds="full cache of capacity 1, frame pinned, cursor = 1" assume="NOT(frame unpinned and cursor >= 1)" unwind=3 reason="CBMC runs out of memory (28 GB) after ~400 s even alone; the capacity-2 harnesses cover the same evict paths"
#[kani::proof]
#[kani::unwind(3)]
fn c12_cache_insert_1_c1() {
    insert_step::<1>(false, 1, 1);
}
// @obl harness=c12_cache_insert_1_stale id=C12.cache_step[insert/cap1/stale_cursor] tier=off funcs="PageCache::insert,PageCache::evict" bounds="full cache of capacity 1, frame unpinned, cursor = 1" assume="frame unpinned and cursor = 1 (region where the pinned tree reports OutOfMemory)" unwind=3 reason="CBMC runs out of memory (28 GB) after ~400 s even alone; the capacity-2 harnesses cover the same evict paths"
#[kani::proof]
#[kani::unwind(3)]
fn c12_cache_insert_1_stale() {
    insert_step::<1>(true, 1, 1);
}
// One harness for insert's own glue (no eviction needed): capacity 2 holding 1 frame.
// @obl harness=c12_cache_insert_room id=C12.cache_step[insert/room] tier=thorough funcs="PageCache::insert" bounds="cache of capacity 2 holding 1 frame (concrete id), symbolic pin flag, symbolic cursor in 0..=2; insert of a new concrete id" unwind=3
#[kani::proof]
#[kani::unwind(3)]
fn c12_cache_insert_room() {
    let pins: [bool; 1] = kani::any();
    let cursor: usize = kani::any();
    kani::assume(cursor <= 2);
    let mut cache = mk_cache::<1>(&pins, cursor);
    cache.capacity = 2;
    let newf = mk_frame(NEW_ID);
    kani::cover!(true, "reach");
    match cache.insert(newf) {
        Err(e) => {
            std::mem::forget(e);
            assert!(false, "no_oom_when_cache_has_room");
        }
        Ok(None) => {
            assert!(has_key(&cache, old_id(0), 2), "no_eviction_keeps_all_frames");
            assert!(has_key(&cache, NEW_ID, 2), "new_frame_cached");
        }
        Ok(Some(v)) => {
            victim_laws::<1>(&cache, &v, &pins, 2);
            assert!(has_key(&cache, NEW_ID, 2), "new_frame_cached");
            std::mem::forget(v);
        }
    }
    std::mem::forget(cache);
}

// ---- (d) remove(id) ------------------------------------------------------------------------------------------------
/// remove the frame at map index `t` (concrete, so the key hashes concretely); `target_pinned` = region
fn remove_at<const N: usize>(t: usize, target_pinned: bool) {
    let pins: [bool; N] = kani::any();
    let cursor: usize = kani::any();
    kani::assume(cursor <= N + 1);
    kani::assume(pins[t] == target_pinned);
    let mut cache = mk_cache::<N>(&pins, cursor);
    kani::cover!(true, "reach");
    let r = cache.remove(old_id(t));
    match &r {
        Some(f) => {
            assert!(f.page_number() == old_id(t), "remove_returns_requested_frame");
            assert!(!pins[t], "remove_hands_out_only_unpinned_frame");
            assert!(!has_key(&cache, old_id(t), N), "removed_no_longer_cached");
        }
        None => {
            // nothing handed out: the frame (pinned by someone who may still write to it) must stay cached
            assert!(pins[t], "remove_of_unpinned_returns_it");
            assert!(has_key(&cache, old_id(t), N), "remove_keeps_pinned_frame_cached");
        }
    }
    let mut i = 0;
    while i < N {
        if i != t {
            assert!(has_key(&cache, old_id(i), N), "remove_keeps_other_frames");
        }
        i += 1;
    }
    std::mem::forget(r);
    std::mem::forget(cache);
}
// @obl harness=c12_cache_remove_free id=C12.cache_step[remove/unpinned] tier=thorough funcs="PageCache::remove" bounds="cache of 2 frames (concrete ids), symbolic pin flags and cursor, target = first cached id (swap_remove moves the last entry into the hole)" assume="target frame is unpinned" unwind=3
#[kani::proof]
#[kani::unwind(3)]
fn c12_cache_remove_free() {
    remove_at::<2>(0, false);
}
// @obl harness=c12_cache_remove_pinned id=C12.cache_step[remove/pinned] tier=off funcs="PageCache::remove" bounds="cache of 2 frames (concrete ids), symbolic pin flags and cursor, target = first cached id" assume="target frame is pinned (region where the pinned tree drops it from the map)" unwind=3
#[kani::proof]
#[kani::unwind(3)]
fn c12_cache_remove_pinned() {
    remove_at::<2>(0, true);
}
