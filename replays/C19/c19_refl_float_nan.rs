// replay for obligation C19.eq_reflexive[Float/NaN] (harness c19_refl_float_nan)
// harness-file: c19_types.rs
// failed: eq_reflexive
// native outcome when recorded: panicked: thread 'types::__verif_c19_types::kani_concrete_playback_c19_refl_float_nan_13606714859490841368' (14039) panicked at /var/tmp/axv-c19-6fdwgloi/src/crates/axmos-db/src/__verif/c19_types.rs:306:1: | eq_reflexive
// re-run: /verif/bin/check --replay /verif/replays/C19/c19_refl_float_nan.rs
#[test]
fn kani_concrete_playback_c19_refl_float_nan_13606714859490841368() {
    let concrete_vals: Vec<Vec<u8>> = vec![
        // +NaN
        vec![0, 0, 192, 127],
    ];
    kani::concrete_playback_run(concrete_vals, c19_refl_float_nan);
}

