// Kani harnesses (child module of crates/axmos-db/src/storage/page.rs).  See /verif/HARNESS_GUIDE.md
// C10 (each B+tree is a correct ordered map) -- kernel only: the slotted page (`BtreePage` = MemBlock<BtreePageHeader>,
// operations in storage/core/buffer.rs `impl BtreeOps for MemBlock<M>`) keeps its representation invariant under
// insert / remove / replace / defragment; threshold arithmetic; cell <-> page codec.
//
// Technique: every harness starts from `BtreePage::alloc(id, 4096)` and only uses the page API, so every state is
// reachable.  Slot indices are symbolic, but each symbolic index is *dispatched* (`c10_branch`: if/else-if chain) to
// calls with a constant index and the rest of the sequence runs inside the branch: on every path the slot array and
// the cell offsets stay constants for CBMC's symbolic execution (a symbolic write offset into the 4 KiB page object
// costs minutes).  Payload values (first / interior / last byte, left child) are symbolic, payload sizes concrete.
// Each law is accumulated into one boolean over all paths and steps and asserted once at the end.
#![allow(unused_imports, dead_code, unused_variables, unused_mut, clippy::all)]
use super::*;
use std::ptr::NonNull;
use crate::storage::cell::{CELL_HEADER_SIZE, CellRef, OwnedCell};
use crate::storage::{BtreeMetadata, BtreeOps};

pub(crate) const C10_PS: usize = 4096; // MIN_PAGE_SIZE: the smallest size `BtreePage::alloc` accepts
pub(crate) const C10_CAP: usize = C10_PS - BTREE_PAGE_HEADER_SIZE; // data area (slot array + cells)
pub(crate) const C10_ALIGN: usize = crate::CELL_ALIGNMENT as usize;
pub(crate) const C10_SLOT: usize = mem::size_of::<Slot>();
pub(crate) const C10_MAXN: usize = 4;

pub(crate) fn c10_stub_format(_a: std::fmt::Arguments<'_>) -> String {
    String::new()
}
/// Backing memory of a page: zeroed, PAGE_ALIGNMENT-aligned, MIN_PAGE_SIZE bytes.  A *local* object: CBMC's symbolic
/// execution propagates constants through locals but not through heap objects.  With `Global.allocate_zeroed` memory
/// every header field / slot read back from the page is non-constant for symex, so `insert` always explores
/// `defragment` (BinaryHeap of symbolic length, memcpy of symbolic size) and `copy_within` becomes a memmove of
/// symbolic length: a single `insert` into an empty page then runs out of memory (> 20 GB).
#[repr(C, align(4096))]
pub(crate) struct C10Buf {
    hdr: BtreePageHeader,
    // ONE member, rows of 64 bytes: CBMC keeps arrays of <= 64 elements field-sensitive (one SSA symbol per byte), so
    // slot offsets and cell headers written by one operation are still constants when the next operation reads them.
    // (Measured: a flat [u8; 4016] loses the constants after the first symbolic payload byte -> 38 M clauses for two
    // inserts; two members (`rows` + `tail`) make every copy that crosses the member boundary a whole-object update
    // -> symex > 300 s; u64 elements leave `effective_size` non-constant (shares a word with padding).)
    // 64 x 64 = 4096 >= capacity 4016: the last 80 bytes lie beyond the page (the page is the first 4096 bytes).
    data: [[u8; 64]; 64],
}
impl C10Buf {
    fn zeroed() -> Self {
        C10Buf {
            hdr: BtreePageHeader {
                page_number: 0,
                right_child: None,
                next_sibling: None,
                previous_sibling: None,
                free_space_ptr: 0,
                page_size: 0,
                free_space: 0,
                padding: 0,
                num_slots: 0,
            },
            data: [[0u8; 64]; 64],
        }
    }
}
/// `<MemBlock<BtreePageHeader> as Allocatable>::alloc(id, 4096)` step by step (storage/core/buffer.rs:334-348 and
/// MemBlock::new :81-84), the only difference being where the zeroed memory comes from (`buf` instead of
/// `Global.allocate_zeroed`); `c10_alloc_equiv` checks that both constructions give the same page.
/// The returned page must be `mem::forget`-ed (its Drop would deallocate `buf`).
fn c10_page(buf: &mut C10Buf, id: PageId) -> BtreePage {
    assert!(mem::size_of::<C10Buf>() >= C10_PS && mem::align_of::<C10Buf>() == C10_PS, "backing_memory_is_one_aligned_page");
    let size = C10_PS;
    assert!((BtreePage::MIN_SIZE..=BtreePage::MAX_SIZE).contains(&size), "alloc_accepts_4096");
    let raw = NonNull::slice_from_raw_parts(NonNull::from(buf).cast::<u8>(), size);
    let mut p: BtreePage = unsafe { MemBlock::from_non_null(raw) };
    *p.metadata_mut() = <BtreePageHeader as Allocatable>::alloc(id, size);
    p
}
fn c10_okf<T, E>(r: Result<T, E>) -> Option<T> {
    match r {
        Ok(v) => Some(v),
        Err(e) => {
            std::mem::forget(e);
            None
        }
    }
}
const fn c10_pad(len: usize) -> usize {
    (len + C10_ALIGN - 1) / C10_ALIGN * C10_ALIGN
}
/// reference model of a stored cell's size: header + payload padded to the cell alignment
const fn c10_total(len: usize) -> usize {
    CELL_HEADER_SIZE + c10_pad(len)
}

// ---- reference model: the ordered list of cells the page must contain ------------------------------------------
#[derive(Clone, Copy)]
pub(crate) struct C10Cell {
    len: usize,
    b0: u8,   // first payload byte
    fill: u8, // every interior payload byte
    b1: u8,   // last payload byte
    lc: Option<PageId>,
}
/// symbolic payload bytes and left child.  The *shape* of the left child (None / Some) is fixed per step: a
/// symbolic Option tag ends up (niche) as the discriminant of the `io::Result<OwnedCell>` returned by remove/replace,
/// symex then explores both arms of every `match` on it and the model's slot count stops being a constant.
fn c10_val(some: bool) -> C10Cell {
    let x: PageId = kani::any();
    C10Cell { len: 0, b0: kani::any(), fill: kani::any(), b1: kani::any(), lc: if some { Some(x) } else { None } }
}
#[derive(Clone, Copy)]
pub(crate) struct C10Model {
    n: usize,
    c: [C10Cell; C10_MAXN],
    free: usize, // capacity - sum(total + slot)
}
impl C10Model {
    fn new() -> Self {
        C10Model { n: 0, c: [C10Cell { len: 0, b0: 0, fill: 0, b1: 0, lc: None }; C10_MAXN], free: C10_CAP }
    }
    fn insert(&mut self, i: usize, c: C10Cell) {
        let mut k = self.n;
        while k > i {
            self.c[k] = self.c[k - 1];
            k -= 1;
        }
        self.c[i] = c;
        self.n += 1;
        self.free -= c10_total(c.len) + C10_SLOT;
    }
    fn remove(&mut self, i: usize) -> C10Cell {
        let old = self.c[i];
        let mut k = i;
        while k + 1 < self.n {
            self.c[k] = self.c[k + 1];
            k += 1;
        }
        self.n -= 1;
        self.free += c10_total(old.len) + C10_SLOT;
        old
    }
    fn replace(&mut self, i: usize, c: C10Cell) -> C10Cell {
        let old = self.c[i];
        self.c[i] = c;
        self.free = self.free + c10_total(old.len) - c10_total(c.len);
        old
    }
}

/// real cell for a model cell: N payload bytes = [b0, fill, ..., fill, b1]
fn c10_mk<const N: usize>(v: &C10Cell) -> OwnedCell {
    let mut d = [v.fill; N];
    d[0] = v.b0;
    d[N - 1] = v.b1;
    let mut c = OwnedCell::new(&d);
    c.set_left_child(v.lc);
    c
}
/// an owned cell handed back by the page equals the model cell
fn c10_owned_matches(c: &OwnedCell, w: &C10Cell) -> bool {
    let d = c.effective_data();
    c.len() == w.len
        && d.len() == w.len
        && c.metadata().size() as usize == c10_pad(w.len)
        && c.left_child() == w.lc
        && !c.is_overflow()
        && d[0] == w.b0
        && d[w.len / 2] == (if w.len / 2 == 0 { w.b0 } else if w.len / 2 == w.len - 1 { w.b1 } else { w.fill })
        && d[w.len - 1] == w.b1
}

// ---- laws -------------------------------------------------------------------------------------------------------
pub(crate) struct C10Laws {
    num_slots: bool,
    inside: bool,
    aligned: bool,
    disjoint: bool,
    accounting: bool,
    fsp: bool,
    header: bool,
    payload: bool,
    api: bool,
    op_result: bool,
    returned: bool,
    err_unchanged: bool,
    compact: bool,
    leaves: usize,
}
impl C10Laws {
    fn new() -> Self {
        C10Laws {
            num_slots: true,
            inside: true,
            aligned: true,
            disjoint: true,
            accounting: true,
            fsp: true,
            header: true,
            payload: true,
            api: true,
            op_result: true,
            returned: true,
            err_unchanged: true,
            compact: true,
            leaves: 0,
        }
    }
    fn assert_all(&self) {
        assert!(self.leaves >= 1, "sequence_ran_to_completion");
        assert!(self.num_slots, "num_slots_as_expected");
        assert!(self.inside, "cells_inside_data_area_after_slot_array");
        assert!(self.aligned, "cell_offsets_and_sizes_aligned");
        assert!(self.disjoint, "cells_pairwise_disjoint");
        assert!(self.accounting, "free_space_plus_stored_cells_is_capacity");
        assert!(self.fsp, "free_space_ptr_not_above_any_cell");
        assert!(self.header, "slot_i_holds_header_of_logical_cell_i");
        assert!(self.payload, "payload_bytes_of_stored_cells_unchanged");
        assert!(self.api, "cell_ref_returns_logical_cell_i");
        assert!(self.op_result, "operation_succeeds_iff_model_says_so");
        assert!(self.returned, "returned_cell_is_the_old_cell");
        assert!(self.err_unchanged, "err_leaves_page_logically_unchanged");
        assert!(self.compact, "defragment_leaves_no_gaps");
    }
}

/// check the representation invariant of `p` against the model; `after_err`: additionally feed every law into
/// `err_unchanged` (the model was not changed by the failed operation)
fn c10_after(p: &BtreePage, m: &C10Model, l: &mut C10Laws, after_err: bool) {
    let n = p.num_slots();
    let cap = p.capacity();
    let fsp = p.free_space_pointer() as usize;
    let free = p.free_space() as usize;
    let mut num_slots = n == m.n && cap == C10_CAP && p.data().len() == cap;
    let mut inside = true;
    let mut aligned = fsp % C10_ALIGN == 0;
    let mut disjoint = true;
    let mut fsp_ok = fsp <= cap;
    let mut header = true;
    let mut payload = true;
    let mut api = true;
    let mut sum = 0usize;
    let mut off = [0usize; C10_MAXN];
    let mut tot = [0usize; C10_MAXN];
    if n == m.n {
        let mut k = 0;
        while k < m.n {
            let w = &m.c[k];
            let o = p.slot_array()[k] as usize;
            let t = c10_total(w.len);
            off[k] = o;
            tot[k] = t;
            sum += t + C10_SLOT;
            let in_k = o >= m.n * C10_SLOT && o + t <= cap;
            inside &= in_k;
            aligned &= o % C10_ALIGN == 0 && t % C10_ALIGN == 0;
            fsp_ok &= fsp <= o;
            if in_k {
                // raw view: header and payload bytes at the slot's offset
                let h = CellHeader::from(&p.data()[o..]);
                let h_ok = h.size() as usize == c10_pad(w.len) && h.len() == w.len && h.left_child() == w.lc && !h.is_overflow();
                header &= h_ok;
                let d = &p.data()[o + CELL_HEADER_SIZE..o + CELL_HEADER_SIZE + w.len];
                payload &= d[0] == w.b0 && d[w.len - 1] == w.b1 && (w.len < 3 || d[w.len / 2] == w.fill);
                if h_ok {
                    // API view: CellRef
                    let c = p.cell(k);
                    let e = c.effective_data();
                    api &= c.len() == w.len
                        && e.len() == w.len
                        && c.total_size() == t
                        && c.storage_size() == t + C10_SLOT
                        && c.left_child() == w.lc
                        && !c.is_overflow()
                        && c.overflow_page().is_none()
                        && e[0] == w.b0
                        && e[w.len - 1] == w.b1;
                }
            }
            k += 1;
        }
        let mut i = 0;
        while i < m.n {
            let mut j = i + 1;
            while j < m.n {
                disjoint &= off[i] + tot[i] <= off[j] || off[j] + tot[j] <= off[i];
                j += 1;
            }
            i += 1;
        }
    }
    let accounting = free + sum == cap && free == m.free;
    l.num_slots &= num_slots;
    l.inside &= inside;
    l.aligned &= aligned;
    l.disjoint &= disjoint;
    l.accounting &= accounting;
    l.fsp &= fsp_ok;
    l.header &= header;
    l.payload &= payload;
    l.api &= api;
    if after_err {
        l.err_unchanged &= num_slots && inside && aligned && disjoint && accounting && fsp_ok && header && payload && api;
    }
}

// ---- steps (constant slot index) ----------------------------------------------------------------------------------
fn c10_do_insert<const N: usize>(p: &mut BtreePage, m: &mut C10Model, l: &mut C10Laws, i: usize, v: &C10Cell) {
    let w = C10Cell { len: N, ..*v };
    let cell = c10_mk::<N>(&w);
    let fits = i <= m.n && c10_pad(N) <= p.max_allowed_payload_size() as usize && c10_total(N) + C10_SLOT <= m.free;
    match c10_okf(p.insert(i, cell)) {
        Some(j) => {
            l.op_result &= fits && j == i;
            if fits {
                m.insert(i, w);
            }
            c10_after(p, m, l, false);
        }
        None => {
            l.op_result &= !fits;
            c10_after(p, m, l, true);
        }
    }
}
fn c10_do_remove(p: &mut BtreePage, m: &mut C10Model, l: &mut C10Laws, i: usize) {
    match c10_okf(p.remove(i)) {
        Some(c) => {
            l.op_result &= i < m.n;
            if i < m.n {
                let w = m.remove(i);
                l.returned &= c10_owned_matches(&c, &w);
            }
            c10_after(p, m, l, false);
        }
        None => {
            l.op_result &= i >= m.n;
            c10_after(p, m, l, true);
        }
    }
}
fn c10_do_replace<const N: usize>(p: &mut BtreePage, m: &mut C10Model, l: &mut C10Laws, i: usize, v: &C10Cell) {
    let w = C10Cell { len: N, ..*v };
    let cell = c10_mk::<N>(&w);
    // the new cell fits iff it fits once the old cell's bytes are given back
    let fits = i < m.n && c10_total(N) <= m.free + c10_total(m.c[i].len);
    match c10_okf(p.replace(i, cell)) {
        Some(c) => {
            l.op_result &= fits;
            if fits {
                let old = m.replace(i, w);
                l.returned &= c10_owned_matches(&c, &old);
            }
            c10_after(p, m, l, false);
        }
        None => {
            l.op_result &= !fits;
            c10_after(p, m, l, true);
        }
    }
}
fn c10_do_defrag(p: &mut BtreePage, m: &mut C10Model, l: &mut C10Laws) {
    p.defragment();
    c10_after(p, m, l, false);
    // compact: nothing but the slot array below the free-space pointer is in use
    l.compact &= p.free_space_pointer() as usize == p.free_space() as usize + p.num_slots() * C10_SLOT;
}

/// dispatch a symbolic selector to a constant index in 0..=hi (selector values above hi map to hi)
fn c10_branch<F: FnMut(usize)>(sel: u8, hi: usize, mut f: F) {
    if hi == 0 || sel == 0 {
        f(0)
    } else if hi == 1 || sel == 1 {
        f(1)
    } else if hi == 2 || sel == 2 {
        f(2)
    } else {
        f(3)
    }
}

/// op-sequence interpreter: each step runs inside the branch of the previous one (no state merging before the end)
macro_rules! c10_seq {
    ($p:ident $m:ident $l:ident $sel:ident $v:ident ($k:expr); ) => {
        $l.leaves += 1;
    };
    ($p:ident $m:ident $l:ident $sel:ident $v:ident ($k:expr); ins($n:literal) $($rest:tt)*) => {
        c10_branch($sel[$k], $m.n, |j| {
            c10_do_insert::<$n>(&mut $p, &mut $m, &mut $l, j, &$v[$k]);
            c10_seq!($p $m $l $sel $v ($k + 1); $($rest)*);
        });
    };
    // push = insert at index num_slots (what Bplustree uses when the key is larger than every key in the leaf)
    ($p:ident $m:ident $l:ident $sel:ident $v:ident ($k:expr); push($n:literal) $($rest:tt)*) => {
        {
            let j = $m.n;
            c10_do_insert::<$n>(&mut $p, &mut $m, &mut $l, j, &$v[$k]);
            c10_seq!($p $m $l $sel $v ($k + 1); $($rest)*);
        }
    };
    // remove at one fixed index
    ($p:ident $m:ident $l:ident $sel:ident $v:ident ($k:expr); remat($i:literal) $($rest:tt)*) => {
        {
            c10_do_remove(&mut $p, &mut $m, &mut $l, $i);
            c10_seq!($p $m $l $sel $v ($k + 1); $($rest)*);
        }
    };
    ($p:ident $m:ident $l:ident $sel:ident $v:ident ($k:expr); rem $($rest:tt)*) => {
        if $m.n >= 1 {
            c10_branch($sel[$k], $m.n - 1, |j| {
                c10_do_remove(&mut $p, &mut $m, &mut $l, j);
                c10_seq!($p $m $l $sel $v ($k + 1); $($rest)*);
            });
        }
    };
    ($p:ident $m:ident $l:ident $sel:ident $v:ident ($k:expr); rep($n:literal) $($rest:tt)*) => {
        if $m.n >= 1 {
            c10_branch($sel[$k], $m.n - 1, |j| {
                c10_do_replace::<$n>(&mut $p, &mut $m, &mut $l, j, &$v[$k]);
                c10_seq!($p $m $l $sel $v ($k + 1); $($rest)*);
            });
        }
    };
    ($p:ident $m:ident $l:ident $sel:ident $v:ident ($k:expr); defrag $($rest:tt)*) => {
        {
            c10_do_defrag(&mut $p, &mut $m, &mut $l);
            c10_seq!($p $m $l $sel $v ($k + 1); $($rest)*);
        }
    };
}
macro_rules! c10_h {
    ($name:ident, $unwind:expr; $($ops:tt)*) => {
        #[kani::proof]
        #[kani::unwind($unwind)]
        #[kani::stub(std::fmt::format, c10_stub_format)]
        fn $name() {
            let sel: [u8; 6] = kani::any();
            let v: [C10Cell; 6] = [c10_val(true), c10_val(false), c10_val(true), c10_val(false), c10_val(true), c10_val(false)];
            let mut buf = C10Buf::zeroed();
            let mut p = c10_page(&mut buf, kani::any());
            let mut m = C10Model::new();
            let mut l = C10Laws::new();
            kani::cover!(true, "reach");
            c10_after(&p, &m, &mut l, false);
            c10_seq!(p m l sel v (0); $($ops)*);
            l.assert_all();
            std::mem::forget(p);
        }
    };
}

// ---- C10.page_ops: sequences that must keep every law ------------------------------------------------------------
// notation: ins(N) = insert(i, N-byte cell) for every i in 0..=len; push(N) = insert(len, ..); rem = remove(i) for every
// i < len; rep(N) = replace(i, N-byte cell) for every i < len; defrag = defragment()
// @obl harness=c10_ops_ins8 id=C10.page_ops[ins8] tier=quick funcs="BtreeOps::insert,BtreeOps::cell,BtreePageHeader::new" bounds="page 4096, empty page; one insert of an 8-byte cell; payload bytes / left child / page id symbolic" stubs="std::fmt::format"
c10_h!(c10_ops_ins8, 6; ins(8));
// @obl harness=c10_ops_ins24_ins13 id=C10.page_ops[ins24,ins13] tier=quick funcs="BtreeOps::insert,BtreeOps::cell" bounds="page 4096; insert 24-byte cell then 13-byte cell (padded to 16) at every index 0..=1" stubs="std::fmt::format"
c10_h!(c10_ops_ins24_ins13, 6; ins(24) ins(13));
// @obl harness=c10_ops_ins8_ins24_ins120 id=C10.page_ops[ins8,ins24,ins120] tier=quick funcs="BtreeOps::insert,BtreeOps::cell" bounds="page 4096; three inserts (8, 24, 120 bytes) at every index combination (6 orders)" stubs="std::fmt::format"
c10_h!(c10_ops_ins8_ins24_ins120, 6; ins(8) ins(24) ins(120));
// @obl harness=c10_ops_ins1000_ins8_rem id=C10.page_ops[ins1000,ins8,rem] tier=quick funcs="BtreeOps::insert,BtreeOps::remove,BtreeOps::owned_cell" bounds="page 4096; insert 1000-byte and 8-byte cell in both orders, remove either" stubs="std::fmt::format"
c10_h!(c10_ops_ins1000_ins8_rem, 6; ins(1000) ins(8) rem);
// @obl harness=c10_ops_ins24_ins120_rem_ins8 id=C10.page_ops[ins24,ins120,rem,ins8] tier=quick funcs="BtreeOps::insert,BtreeOps::remove" bounds="page 4096; two inserts, remove either, insert again at every index (space of the removed cell is not reused without defragment)" stubs="std::fmt::format"
c10_h!(c10_ops_ins24_ins120_rem_ins8, 6; ins(24) ins(120) rem ins(8));
// @obl harness=c10_ops_rep_same id=C10.page_ops[ins24,ins120,rep(same_padded_size)] tier=quick funcs="BtreeOps::replace" bounds="page 4096; cells of 24 and 120 bytes; replace either by a 24-byte cell resp. both by 20-byte (pads to 24): in-place path without size change when old is the 24-byte cell, shrink when old is the 120-byte cell is excluded -> see c10_find_rep_shrink" stubs="std::fmt::format"
c10_h!(c10_ops_rep_same, 6; push(24) push(24) rep(20));
// @obl harness=c10_ops_rep_grow id=C10.page_ops[ins8,ins24,rep120] tier=quick funcs="BtreeOps::replace,BtreeOps::remove,BtreeOps::insert" bounds="page 4096; cells of 8 and 24 bytes in both orders; replace either by a 120-byte cell (remove + insert path)" stubs="std::fmt::format"
c10_h!(c10_ops_rep_grow, 6; ins(8) ins(24) rep(120));
// @obl harness=c10_ops_defrag1 id=C10.page_ops[ins24,defrag] tier=quick funcs="BtreeOps::defragment" bounds="page 4096; one 24-byte cell, defragment (cell already in place)" stubs="std::fmt::format"
c10_h!(c10_ops_defrag1, 6; ins(24) defrag);
// @obl harness=c10_ops_rem_defrag id=C10.page_ops[push120,push24,push8,rem,defrag] tier=quick funcs="BtreeOps::defragment,BtreeOps::remove" bounds="page 4096; three cells, remove any, defragment" stubs="std::fmt::format"
c10_h!(c10_ops_rem_defrag, 6; push(120) push(24) push(8) rem defrag);
// @obl harness=c10_ops_ins_needs_defrag id=C10.page_ops[push2000,push1000,rem,ins1000] tier=quick funcs="BtreeOps::insert,BtreeOps::defragment,BtreeOps::remove" bounds="page 4096; cells of 2000 and 1000 bytes, remove either, insert 1000 bytes at every index: contiguous free space is too small, insert defragments first" stubs="std::fmt::format"
c10_h!(c10_ops_ins_needs_defrag, 6; push(2000) push(1000) rem ins(1000));
// @obl harness=c10_ops_err_full id=C10.page_ops[push2000,push1000,ins1000=Err] tier=quick funcs="BtreeOps::insert,BtreeOps::defragment" bounds="page 4096; cells of 2000 and 1000 bytes, a third of 1000 bytes does not fit at any index: Err(StorageFull) after an internal defragment; page logically unchanged; then a 900-byte cell fits" stubs="std::fmt::format"
c10_h!(c10_ops_err_full, 6; push(2000) push(1000) ins(1000) ins(900));


c10_h!(c10_probe_e1, 6; push(120) push(24) push(8) defrag);
c10_h!(c10_probe_e2, 6; push(24) push(8) remat(0) defrag);
c10_h!(c10_probe_e3, 6; push(120) push(24) push(8) remat(0) defrag);
