// Kani harnesses (child module of crates/axmos-db/src/common/mod.rs).  See /verif/HARNESS_GUIDE.md
#![allow(unused_imports, dead_code, clippy::all)]
use super::*;
