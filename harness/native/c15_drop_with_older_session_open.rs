// host: lib.rs
// Native scenario for C15.catalog_writes_stamp_own_xid: DROP TABLE takes effect with the transaction that issued it,
// whatever an older, unrelated session that merely happens to be open does afterwards; the name can be reused.
use crate::{DBConfig, Database};

#[test]
fn drop_is_effective_while_an_older_session_is_open() {
    let dir = tempfile::TempDir::new().unwrap();
    let db = Database::create(dir.path().join("t.db"), DBConfig::default()).unwrap();
    db.execute("CREATE TABLE other (id BIGINT, v INT)").unwrap();
    db.execute("INSERT INTO other VALUES (1, 1)").unwrap();
    db.execute("CREATE TABLE t (id BIGINT, v INT)").unwrap();
    db.execute("INSERT INTO t VALUES (1, 10)").unwrap();
    let mut old = db.session().unwrap();
    old.execute("SELECT * FROM other").unwrap();
    db.execute("DROP TABLE t").unwrap();
    assert!(db.execute("SELECT * FROM t").is_err(), "dropped table still resolves for a later transaction");
    let r = db.execute("CREATE TABLE t (id BIGINT, name TEXT)");
    assert!(r.is_ok(), "name of a dropped table cannot be reused while an older session is open: {:?}", r.err().map(|e| e.to_string()));
    db.execute("INSERT INTO t VALUES (5, 'five')").unwrap();
    let n = db.execute("SELECT id FROM t").unwrap().into_rows().unwrap().len();
    assert_eq!(n, 1, "re-created table does not hold exactly its own row");
    old.abort_transaction().unwrap();
    std::mem::forget(old);
    assert!(db.execute("SELECT name FROM t").is_ok(), "re-created table lost after the older session rolled back");
}
