// replay for obligation C19.cmp_matches_math[BigInt,BigUInt/big] (harness c19_math_bigint_biguint_big)
// harness-file: c19_types.rs
// failed: cmp_matches_math
// native outcome when recorded: playback build failed
// re-run: /verif/bin/check --replay /verif/replays/C19/c19_math_bigint_biguint_big.rs
#[test]
fn kani_concrete_playback_c19_math_bigint_biguint_big_13959130859527098020() {
    let concrete_vals: Vec<Vec<u8>> = vec![
        // 72057594037927933
        vec![253, 255, 255, 255, 255, 255, 255, 0],
        // 72057594037927934ul
        vec![254, 255, 255, 255, 255, 255, 255, 0],
    ];
    kani::concrete_playback_run(concrete_vals, c19_math_bigint_biguint_big);
}

#[test]
fn kani_concrete_playback_c19_math_bigint_biguint_big_1797182851508927495() {
    let concrete_vals: Vec<Vec<u8>> = vec![
        // -9223372036854775808
        vec![0, 0, 0, 0, 0, 0, 0, 128],
        // 0ul
        vec![0, 0, 0, 0, 0, 0, 0, 0],
    ];
    kani::concrete_playback_run(concrete_vals, c19_math_bigint_biguint_big);
}

