// host: tree/tests/mod.rs
// Native scenario for C10.frontier_links_are_mirrored: keys inserted in pseudo-random order until the tree has three
// levels; after every batch the sibling links of EVERY level (leaves and interior nodes)
// mirror the left-to-right order of the pages under the root, and a forward scan returns as many entries as were inserted.
// (Removals are left out: on the pinned tree removing keys from a three-level tree of large cells loses keys - a B+tree
// defect outside every obligation, see DESIGN 9.3.)
use super::utils::{TestConfig, TestDb};
use crate::{
    schema::{Column, Schema},
    storage::{BtreeMetadata, BtreeOps, page::BtreePage, tuple::{Row, Tuple, TupleBuilder}},
    tree::{accessor::{Accessor, BtreeWriteAccessor}, bplustree::Btree},
    types::{Blob, DataType, DataTypeKind, PageId, UInt64},
};

type Tree = Btree<BtreeWriteAccessor>;

fn schema() -> Schema {
    Schema::new_index(vec![Column::new_with_defaults(DataTypeKind::BigUInt, "k"), Column::new_with_defaults(DataTypeKind::Blob, "data")], 1)
}

fn tuple(s: &Schema, k: u64) -> Tuple {
    let data: Vec<u8> = (0..(60 + (k % 7) * 10) as usize).map(|i| (k as u8).wrapping_add(i as u8)).collect();
    let row = Row::new(vec![DataType::BigUInt(UInt64(k)), DataType::Blob(Blob::from_unencoded_slice(&data))].into_boxed_slice());
    TupleBuilder::from_schema(s).build(&row, 1).unwrap()
}

fn levels(tree: &mut Tree, root: PageId) -> Vec<Vec<(PageId, Option<PageId>, Option<PageId>)>> {
    let mut out = Vec::new();
    let mut cur = vec![root];
    while !cur.is_empty() {
        let mut row = Vec::new();
        let mut next = Vec::new();
        for id in &cur {
            let (prev, nxt, children) = {
                let p = tree.get_page(*id).unwrap();
                let n = p.num_slots();
                let ch: Vec<PageId> = if p.is_leaf() { vec![] } else { (0..=n).filter_map(|i| p.child(i)).collect() };
                (p.prev_sibling(), p.next_sibling(), ch)
            };
            tree.accessor_mut().unwrap().clear();
            row.push((*id, prev, nxt));
            next.extend(children);
        }
        out.push(row);
        cur = next;
    }
    out
}

fn audit(tree: &mut Tree, root: PageId, ctx: &str) -> usize {
    let lv = levels(tree, root);
    for (d, row) in lv.iter().enumerate() {
        for (i, (id, prev, next)) in row.iter().enumerate() {
            let want_prev = if i > 0 { Some(row[i - 1].0) } else { None };
            let want_next = row.get(i + 1).map(|r| r.0);
            assert_eq!(*prev, want_prev, "{ctx}: level {d}: page {id} points back at {prev:?}, its left neighbour is {want_prev:?}");
            assert_eq!(*next, want_next, "{ctx}: level {d}: page {id} points forward at {next:?}, its right neighbour is {want_next:?}");
        }
    }
    lv.len()
}

#[test]
#[serial_test::serial]
fn sibling_links_mirror_key_order_on_every_level() {
    for siblings in [1usize, 3] {
        let mut config = TestConfig::default();
        config.siblings = siblings;
        let db = TestDb::new(&format!("c10_native_links_{siblings}"), &config).expect("test db");
        let s = schema();
        let root = db.pager.write().allocate_page::<BtreePage>().unwrap();
        let mut tree: Tree = Btree::new(root, db.pager.clone(), config.min_keys, config.siblings).with_accessor(BtreeWriteAccessor::new());
        let n: u64 = 4000;
        // a permutation of 0..n: k -> (k * 2654435761) mod 4001 style stepping with a stride coprime to n
        let keys: Vec<u64> = (0..n).map(|i| (i * 1237 + 11) % n).collect();
        let mut height = 0;
        for (c, k) in keys.iter().enumerate() {
            tree.insert(root, tuple(&s, *k), &s).unwrap();
            if c % 500 == 499 {
                height = audit(&mut tree, root, &format!("[siblings {siblings}] after {} inserts", c + 1));
            }
        }
        assert!(height >= 3, "the scenario needs a tree of three levels, got {height}");
        let scanned = tree.iter_forward().unwrap().filter(|p| p.is_ok()).count();
        assert_eq!(scanned as u64, n, "[siblings {siblings}] forward scan does not return every key once");
    }
}
