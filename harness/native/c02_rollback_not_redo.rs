// host: lib.rs
// Native scenario for C02.abort_record_kind: a rolled-back session must not be classified `needs_redo` by the
// analysis pass recovery would run after a crash.  Fails (panics) iff the defect shows.
use crate::{DBConfig, Database};

#[test]
fn rolled_back_session_is_not_redone() {
    let dir = tempfile::TempDir::new().unwrap();
    let db = Database::create(dir.path().join("t.db"), DBConfig::default()).unwrap();
    db.execute("CREATE TABLE t (id BIGINT, v INT)").unwrap();
    db.execute("INSERT INTO t VALUES (1, 10)").unwrap();
    let before = db.pager().write().run_analysis().unwrap();
    let mut s = db.session().unwrap();
    s.execute("INSERT INTO t VALUES (2, 20)").unwrap();
    s.abort_transaction().unwrap();
    let after = db.pager().write().run_analysis().unwrap();
    let newly_redo: Vec<_> = after.needs_redo.difference(&before.needs_redo).collect();
    assert!(newly_redo.is_empty(), "rolled-back transaction(s) {:?} are classified needs_redo (log holds a Commit record for them)", newly_redo);
    std::mem::forget(s);
}
