// host: storage/tuple.rs
// Native scenario for C18.assigned_columns_get_the_assigned_value: an UPDATE to a value that differs from the old one
// only beyond f64 precision (2^53 -> 2^53 + 1) or only in the sign of zero stores the new value.
use super::*;
use crate::schema::{Column, Schema};
use crate::types::{DataType, DataTypeKind, Float64, Int64, UInt64};
use std::collections::HashMap;

#[test]
fn update_stores_values_that_are_equal_as_f64() {
    let schema = Schema::new_table(vec![
        Column::new_with_defaults(DataTypeKind::BigUInt, "k"),
        Column::new_with_defaults(DataTypeKind::BigInt, "n"),
        Column::new_with_defaults(DataTypeKind::Double, "d"),
    ]);
    let big = 1i64 << 53;
    let row = Row::new(vec![DataType::BigUInt(UInt64(1)), DataType::BigInt(Int64(big)), DataType::Double(Float64(0.0))].into_boxed_slice());
    let mut t = TupleBuilder::from_schema(&schema).build(&row, 1).unwrap();
    let mut m = HashMap::new();
    m.insert(0usize, DataType::BigInt(Int64(big + 1)));
    m.insert(1usize, DataType::Double(Float64(-0.0)));
    t.add_version_with(&m, 2, &schema).unwrap();
    let r = t.as_tuple_ref_with(&schema).to_row_with(&schema).unwrap();
    match (&r[1], &r[2]) {
        (DataType::BigInt(Int64(n)), DataType::Double(Float64(d))) => {
            assert_eq!(*n, big + 1, "UPDATE to 2^53 + 1 kept 2^53");
            assert!(d.to_bits() == (-0.0f64).to_bits(), "UPDATE to -0.0 kept 0.0");
        }
        other => panic!("unexpected row {other:?}"),
    }
    assert_eq!(t.num_versions_with(&schema).unwrap(), 2, "the old values were not saved as a delta");
}
