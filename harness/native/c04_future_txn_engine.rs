// host: lib.rs
// Engine-level scenario for the C04 "future transaction counts as committed when xmax = None" finding: a session opened
// on a fresh database (nothing committed yet, so its snapshot has xmax = None) must not see rows committed later.
use crate::{DBConfig, Database};

#[test]
fn session_opened_before_first_commit_does_not_see_later_commits() {
    let dir = tempfile::TempDir::new().unwrap();
    let db = Database::create(dir.path().join("t.db"), DBConfig::default()).unwrap();
    let mut s1 = db.session().unwrap(); // snapshot taken now
    db.execute("CREATE TABLE t (id BIGINT, v INT)").unwrap();
    db.execute("INSERT INTO t VALUES (1, 10)").unwrap();
    let seen = match s1.execute("SELECT COUNT(*) FROM t") {
        Ok(r) => r.into_rows().unwrap().first().unwrap()[0].as_big_int().unwrap().value(),
        Err(_) => 0, // table unknown to the old snapshot: fine
    };
    let _ = s1.abort_transaction();
    std::mem::forget(s1);
    assert_eq!(seen, 0, "a snapshot taken before the INSERT committed sees the inserted row");
}

#[test]
fn key_of_a_rolled_back_insert_is_reusable_by_the_very_next_transaction() {
    // the aborted set of a snapshot must also hold aborted ids ABOVE the last committed id: index maintenance uses it to
    // recognise the entry left behind by the rolled-back INSERT
    let dir = tempfile::TempDir::new().unwrap();
    let db = Database::create(dir.path().join("t.db"), DBConfig::default()).unwrap();
    db.execute("CREATE TABLE u (id BIGINT, code TEXT, UNIQUE(code))").unwrap();
    db.execute("INSERT INTO u VALUES (1, 'A')").unwrap();
    {
        let mut s = db.session().unwrap();
        s.execute("INSERT INTO u VALUES (2, 'K')").unwrap();
        s.abort_transaction().unwrap();
    }
    // no other transaction in between
    db.execute("INSERT INTO u VALUES (3, 'K')").unwrap();
    let n = db.execute("SELECT id FROM u WHERE code = 'K'").unwrap().into_rows().unwrap().len();
    assert_eq!(n, 1, "the row that re-used the key of a rolled-back INSERT cannot be found by its key");
    assert!(db.execute("INSERT INTO u VALUES (4, 'K')").is_err(), "a duplicate of the re-used key is accepted");
}
