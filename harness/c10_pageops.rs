// Kani harnesses (child module of crates/axmos-db/src/storage/page.rs).  See /verif/HARNESS_GUIDE.md
// C10 (each B+tree is a correct ordered map) -- kernel only: the slotted page (`BtreePage` = MemBlock<BtreePageHeader>,
// operations in storage/core/buffer.rs `impl BtreeOps for MemBlock<M>`) keeps its representation invariant under
// insert / remove / replace / defragment; threshold arithmetic; cell <-> page codec.
//
// Technique: every harness starts from `BtreePage::alloc(id, 4096)` and only uses the page API, so every state is
// reachable.  Slot indices are symbolic, but each symbolic index is *dispatched* (`c10_branch`: if/else-if chain) to
// calls with a constant index and the rest of the sequence runs inside the branch: on every path the slot array and
// the cell offsets stay constants for CBMC's symbolic execution (a symbolic write offset into the 4 KiB page object
// costs minutes).  Payload values (first / interior / last byte, left child) are symbolic, payload sizes concrete.
// Each law is accumulated into one boolean over all paths and steps and asserted once at the end.
// @limits jobs=8 mem_gb=48 timeout_s=900
#![allow(unused_imports, dead_code, unused_variables, unused_mut, clippy::all)]
use super::*;
use std::ptr::NonNull;
use crate::storage::cell::{CELL_HEADER_SIZE, CellRef, OwnedCell};
use crate::storage::{BtreeMetadata, BtreeOps};

pub(crate) const C10_PS: usize = 4096; // MIN_PAGE_SIZE: the smallest size `BtreePage::alloc` accepts
pub(crate) const C10_CAP: usize = C10_PS - BTREE_PAGE_HEADER_SIZE; // data area (slot array + cells)
pub(crate) const C10_ALIGN: usize = crate::CELL_ALIGNMENT as usize;
pub(crate) const C10_SLOT: usize = mem::size_of::<Slot>();
pub(crate) const C10_MAXN: usize = 4;

pub(crate) fn c10_stub_format(_a: std::fmt::Arguments<'_>) -> String {
    String::new()
}
/// Backing memory of a page: zeroed, PAGE_ALIGNMENT-aligned, MIN_PAGE_SIZE bytes.  A *local* object: CBMC's symbolic
/// execution propagates constants through locals but not through heap objects.  With `Global.allocate_zeroed` memory
/// every header field / slot read back from the page is non-constant for symex, so `insert` always explores
/// `defragment` (BinaryHeap of symbolic length, memcpy of symbolic size) and `copy_within` becomes a memmove of
/// symbolic length: a single `insert` into an empty page then runs out of memory (> 20 GB).
#[repr(C, align(4096))]
pub(crate) struct C10Buf {
    hdr: BtreePageHeader,
    // ONE member, rows of 64 bytes: CBMC keeps arrays of <= 64 elements field-sensitive (one SSA symbol per byte), so
    // slot offsets and cell headers written by one operation are still constants when the next operation reads them.
    // (Measured: a flat [u8; 4016] loses the constants after the first symbolic payload byte -> 38 M clauses for two
    // inserts; two members (`rows` + `tail`) make every copy that crosses the member boundary a whole-object update
    // -> symex > 300 s; u64 elements leave `effective_size` non-constant (shares a word with padding).)
    // 64 x 64 = 4096 >= capacity 4016: the last 80 bytes lie beyond the page (the page is the first 4096 bytes).
    data: [[u8; 64]; 64],
}
impl C10Buf {
    fn zeroed() -> Self {
        C10Buf {
            hdr: BtreePageHeader {
                page_number: 0,
                right_child: None,
                next_sibling: None,
                previous_sibling: None,
                free_space_ptr: 0,
                page_size: 0,
                free_space: 0,
                padding: 0,
                num_slots: 0,
            },
            data: [[0u8; 64]; 64],
        }
    }
}
/// `<MemBlock<BtreePageHeader> as Allocatable>::alloc(id, 4096)` step by step (storage/core/buffer.rs:334-348 and
/// MemBlock::new :81-84), the only difference being where the zeroed memory comes from (`buf` instead of
/// `Global.allocate_zeroed`); `c10_alloc_equiv` checks that both constructions give the same page.
/// The returned page must be `mem::forget`-ed (its Drop would deallocate `buf`).
fn c10_page(buf: &mut C10Buf, id: PageId) -> BtreePage {
    assert!(mem::size_of::<C10Buf>() >= C10_PS && mem::align_of::<C10Buf>() == C10_PS, "backing_memory_is_one_aligned_page");
    let size = C10_PS;
    assert!((BtreePage::MIN_SIZE..=BtreePage::MAX_SIZE).contains(&size), "alloc_accepts_4096");
    let raw = NonNull::slice_from_raw_parts(NonNull::from(buf).cast::<u8>(), size);
    let mut p: BtreePage = unsafe { MemBlock::from_non_null(raw) };
    *p.metadata_mut() = <BtreePageHeader as Allocatable>::alloc(id, size);
    p
}
/// `mem::swap` as two typed moves.  std swaps byte chunks (`swap_nonoverlapping_bytes`); for `(u16, usize)` - the
/// element type of the BinaryHeap in `defragment` - a chunk mixes the u16 with 6 padding bytes (nondet for CBMC), so
/// every `BinaryHeap::pop` but the last returns a non-constant offset and symex loses all constants.
pub(crate) fn c10_swap<T>(x: &mut T, y: &mut T) {
    unsafe {
        let a = std::ptr::read(x);
        let b = std::ptr::read(y);
        std::ptr::write(x, b);
        std::ptr::write(y, a);
    }
}
fn c10_okf<T, E>(r: Result<T, E>) -> Option<T> {
    match r {
        Ok(v) => Some(v),
        Err(e) => {
            std::mem::forget(e);
            None
        }
    }
}
// NOTE on `wrapping_*` / masks in the harness code below: every quantity is < 2^17, nothing ever wraps.  Checked
// operators would each add an overflow check plus a reachability check whose counterexample trace CBMC prints
// (~4 MB each at the end of a 3-step sequence); kani-driver then needs several GB per harness to parse the output.
const fn c10_pad(len: usize) -> usize {
    len.wrapping_add(C10_ALIGN - 1) & !(C10_ALIGN - 1)
}
/// reference model of a stored cell's size: header + payload padded to the cell alignment
const fn c10_total(len: usize) -> usize {
    CELL_HEADER_SIZE.wrapping_add(c10_pad(len))
}

// ---- reference model: the ordered list of cells the page must contain ------------------------------------------
#[derive(Clone, Copy)]
pub(crate) struct C10Cell {
    len: usize,
    b0: u8,   // first payload byte
    fill: u8, // every interior payload byte
    b1: u8,   // last payload byte
    lc: Option<PageId>,
}
/// symbolic payload bytes and left child.  The *shape* of the left child (None / Some) is fixed per step: a
/// symbolic Option tag ends up (niche) as the discriminant of the `io::Result<OwnedCell>` returned by remove/replace,
/// symex then explores both arms of every `match` on it and the model's slot count stops being a constant.
fn c10_val(some: bool) -> C10Cell {
    let x: PageId = kani::any();
    C10Cell { len: 0, b0: kani::any(), fill: kani::any(), b1: kani::any(), lc: if some { Some(x) } else { None } }
}
#[derive(Clone, Copy)]
pub(crate) struct C10Model {
    n: usize,
    c: [C10Cell; C10_MAXN],
    free: usize, // capacity - sum(total + slot)
}
impl C10Model {
    fn new() -> Self {
        C10Model { n: 0, c: [C10Cell { len: 0, b0: 0, fill: 0, b1: 0, lc: None }; C10_MAXN], free: C10_CAP }
    }
    fn insert(&mut self, i: usize, c: C10Cell) {
        let mut k = self.n;
        while k > i {
            self.c[k] = self.c[k.wrapping_sub(1)];
            k = k.wrapping_sub(1);
        }
        self.c[i] = c;
        self.n = self.n.wrapping_add(1);
        self.free = self.free.wrapping_sub(c10_total(c.len).wrapping_add(C10_SLOT));
    }
    fn remove(&mut self, i: usize) -> C10Cell {
        let old = self.c[i];
        let mut k = i;
        while k.wrapping_add(1) < self.n {
            self.c[k] = self.c[k.wrapping_add(1)];
            k = k.wrapping_add(1);
        }
        self.n = self.n.wrapping_sub(1);
        self.free = self.free.wrapping_add(c10_total(old.len).wrapping_add(C10_SLOT));
        old
    }
    fn replace(&mut self, i: usize, c: C10Cell) -> C10Cell {
        let old = self.c[i];
        self.c[i] = c;
        self.free = self.free.wrapping_add(c10_total(old.len)).wrapping_sub(c10_total(c.len));
        old
    }
}

/// real cell for a model cell: N payload bytes = [b0, fill, ..., fill, b1]
fn c10_mk<const N: usize>(v: &C10Cell) -> OwnedCell {
    let mut d = [v.fill; N];
    d[0] = v.b0;
    d[N - 1] = v.b1;
    let mut c = OwnedCell::new(&d);
    c.set_left_child(v.lc);
    c
}
/// an owned cell handed back by the page equals the model cell
fn c10_owned_matches(c: &OwnedCell, w: &C10Cell) -> bool {
    let d = c.effective_data();
    c.len() == w.len
        && d.len() == w.len
        && c.metadata().size() as usize == c10_pad(w.len)
        && c.left_child() == w.lc
        && !c.is_overflow()
        && d[0] == w.b0
        && (w.len < 3 || d[w.len >> 1] == w.fill)
        && d[w.len.wrapping_sub(1)] == w.b1
}

// ---- laws -------------------------------------------------------------------------------------------------------
pub(crate) struct C10Laws {
    num_slots: bool,
    inside: bool,
    aligned: bool,
    disjoint: bool,
    accounting: bool,
    fsp: bool,
    header: bool,
    payload: bool,
    api: bool,
    op_result: bool,
    returned: bool,
    err_unchanged: bool,
    compact: bool,
    leaves: usize,
}
impl C10Laws {
    fn new() -> Self {
        C10Laws {
            num_slots: true,
            inside: true,
            aligned: true,
            disjoint: true,
            accounting: true,
            fsp: true,
            header: true,
            payload: true,
            api: true,
            op_result: true,
            returned: true,
            err_unchanged: true,
            compact: true,
            leaves: 0,
        }
    }
    /// One assert per law.  Each is reached through its own value of a symbolic selector: after a failing `assert!`
    /// the execution stops, so in a straight sequence a law that fails on every execution would hide all later ones.
    fn assert_all(&self) {
        let which: u8 = kani::any();
        match which {
            0 => assert!(self.leaves >= 1, "sequence_ran_to_completion"),
            1 => assert!(self.num_slots, "num_slots_as_expected"),
            2 => assert!(self.inside, "cells_inside_data_area_after_slot_array"),
            3 => assert!(self.aligned, "cell_offsets_and_sizes_aligned"),
            4 => assert!(self.disjoint, "cells_pairwise_disjoint"),
            5 => assert!(self.accounting, "free_space_plus_stored_cells_is_capacity"),
            6 => assert!(self.fsp, "free_space_ptr_not_above_any_cell"),
            7 => assert!(self.header, "slot_i_holds_header_of_logical_cell_i"),
            8 => assert!(self.payload, "payload_bytes_of_stored_cells_unchanged"),
            9 => assert!(self.api, "cell_ref_returns_logical_cell_i"),
            10 => assert!(self.op_result, "operation_succeeds_iff_model_says_so"),
            11 => assert!(self.returned, "returned_cell_is_the_old_cell"),
            12 => assert!(self.err_unchanged, "err_leaves_page_logically_unchanged"),
            _ => assert!(self.compact, "defragment_leaves_no_gaps"),
        }
    }
}

/// check the representation invariant of `p` against the model; `after_err`: additionally feed every law into
/// `err_unchanged` (the model was not changed by the failed operation)
fn c10_after(p: &BtreePage, m: &C10Model, l: &mut C10Laws, after_err: bool) {
    let n = p.num_slots();
    let cap = p.capacity();
    let fsp = p.free_space_pointer() as usize;
    let free = p.free_space() as usize;
    let amask = C10_ALIGN - 1;
    let num_slots = n == m.n && cap == C10_CAP && p.data().len() == cap;
    let mut inside = true;
    let mut aligned = fsp & amask == 0;
    let mut disjoint = true;
    let mut fsp_ok = fsp <= cap;
    let mut header = true;
    let mut payload = true;
    let mut api = true;
    let mut sum = 0usize;
    let mut off = [0usize; C10_MAXN];
    let mut end = [0usize; C10_MAXN];
    if n == m.n {
        let data = p.data();
        let slots = p.slot_array();
        let mut k = 0;
        while k < m.n {
            let w = &m.c[k];
            let o = slots[k] as usize;
            let t = c10_total(w.len);
            let e = o.wrapping_add(t);
            off[k] = o;
            end[k] = e;
            sum = sum.wrapping_add(t).wrapping_add(C10_SLOT);
            let in_k = o >= m.n << 1 && e <= cap;
            inside &= in_k;
            aligned &= o & amask == 0 && t & amask == 0;
            fsp_ok &= fsp <= o;
            if in_k {
                // raw view: header and payload bytes at the slot's offset
                let h = CellHeader::from(&data[o..]);
                let h_ok = h.size() as usize == c10_pad(w.len) && h.len() == w.len && h.left_child() == w.lc && !h.is_overflow();
                header &= h_ok;
                let d = &data[o.wrapping_add(CELL_HEADER_SIZE)..e];
                payload &= d[0] == w.b0 && d[w.len.wrapping_sub(1)] == w.b1 && (w.len < 3 || d[w.len >> 1] == w.fill);
                if h_ok {
                    // API view: CellRef
                    let c = p.cell(k);
                    let ed = c.effective_data();
                    api &= c.len() == w.len
                        && ed.len() == w.len
                        && c.total_size() == t
                        && c.storage_size() == t.wrapping_add(C10_SLOT)
                        && c.left_child() == w.lc
                        && !c.is_overflow()
                        && c.overflow_page().is_none()
                        && ed[0] == w.b0
                        && ed[w.len.wrapping_sub(1)] == w.b1;
                }
            }
            k = k.wrapping_add(1);
        }
        let mut i = 0;
        while i < m.n {
            let mut j = i.wrapping_add(1);
            while j < m.n {
                disjoint &= end[i] <= off[j] || end[j] <= off[i];
                j = j.wrapping_add(1);
            }
            i = i.wrapping_add(1);
        }
    }
    let accounting = free.wrapping_add(sum) == cap && free == m.free;
    l.num_slots &= num_slots;
    l.inside &= inside;
    l.aligned &= aligned;
    l.disjoint &= disjoint;
    l.accounting &= accounting;
    l.fsp &= fsp_ok;
    l.header &= header;
    l.payload &= payload;
    l.api &= api;
    if after_err {
        l.err_unchanged &= num_slots && inside && aligned && disjoint && accounting && fsp_ok && header && payload && api;
    }
}

// ---- steps (constant slot index) ----------------------------------------------------------------------------------
fn c10_do_insert<const N: usize>(p: &mut BtreePage, m: &mut C10Model, l: &mut C10Laws, i: usize, v: &C10Cell) {
    let w = C10Cell { len: N, ..*v };
    let cell = c10_mk::<N>(&w);
    let fits = i <= m.n && c10_pad(N) <= p.max_allowed_payload_size() as usize && c10_total(N).wrapping_add(C10_SLOT) <= m.free;
    match c10_okf(p.insert(i, cell)) {
        Some(j) => {
            l.op_result &= fits && j == i;
            if fits {
                m.insert(i, w);
            }
            c10_after(p, m, l, false);
        }
        None => {
            l.op_result &= !fits;
            c10_after(p, m, l, true);
        }
    }
}
fn c10_do_remove(p: &mut BtreePage, m: &mut C10Model, l: &mut C10Laws, i: usize) {
    match c10_okf(p.remove(i)) {
        Some(c) => {
            l.op_result &= i < m.n;
            if i < m.n {
                let w = m.remove(i);
                l.returned &= c10_owned_matches(&c, &w);
            }
            c10_after(p, m, l, false);
        }
        None => {
            l.op_result &= i >= m.n;
            c10_after(p, m, l, true);
        }
    }
}
fn c10_do_replace<const N: usize>(p: &mut BtreePage, m: &mut C10Model, l: &mut C10Laws, i: usize, v: &C10Cell) {
    let w = C10Cell { len: N, ..*v };
    let cell = c10_mk::<N>(&w);
    // the new cell fits iff it fits once the old cell's bytes are given back
    let fits = i < m.n && c10_total(N) <= m.free.wrapping_add(c10_total(m.c[i].len));
    match c10_okf(p.replace(i, cell)) {
        Some(c) => {
            l.op_result &= fits;
            if fits {
                let old = m.replace(i, w);
                l.returned &= c10_owned_matches(&c, &old);
            }
            c10_after(p, m, l, false);
        }
        None => {
            l.op_result &= !fits;
            c10_after(p, m, l, true);
        }
    }
}
fn c10_do_defrag(p: &mut BtreePage, m: &mut C10Model, l: &mut C10Laws) {
    p.defragment();
    c10_after(p, m, l, false);
    // compact: nothing but the slot array below the free-space pointer is in use
    l.compact &= p.free_space_pointer() as usize == (p.free_space() as usize).wrapping_add(p.num_slots() << 1);
}

/// `drain(..)` as used by Bplustree (split / merge / rebalance): yields every cell in slot order and empties the page
fn c10_do_drain(p: &mut BtreePage, m: &mut C10Model, l: &mut C10Laws) {
    let mut k = 0;
    let mut ok = true;
    {
        let mut it = p.drain(..);
        while k < m.n {
            match it.next() {
                Some(c) => ok &= c10_owned_matches(&c, &m.c[k]),
                None => ok = false,
            }
            k = k.wrapping_add(1);
        }
        ok &= it.next().is_none();
    }
    l.returned &= ok;
    while m.n > 0 {
        m.remove(m.n.wrapping_sub(1));
    }
    c10_after(p, m, l, false);
}

/// dispatch a symbolic selector to a constant index in 0..=hi (selector values above hi map to hi)
fn c10_branch<F: FnMut(usize)>(sel: u8, hi: usize, mut f: F) {
    if hi == 0 || sel == 0 {
        f(0)
    } else if hi == 1 || sel == 1 {
        f(1)
    } else if hi == 2 || sel == 2 {
        f(2)
    } else {
        f(3)
    }
}

/// op-sequence interpreter: each step runs inside the branch of the previous one (no state merging before the end)
macro_rules! c10_seq {
    ($p:ident $m:ident $l:ident $sel:ident $v:ident ($k:expr); ) => {
        $l.leaves = $l.leaves.wrapping_add(1);
    };
    ($p:ident $m:ident $l:ident $sel:ident $v:ident ($k:expr); ins($n:literal) $($rest:tt)*) => {
        c10_branch($sel[$k], $m.n, |j| {
            c10_do_insert::<$n>(&mut $p, &mut $m, &mut $l, j, &$v[$k]);
            c10_seq!($p $m $l $sel $v ($k + 1); $($rest)*);
        });
    };
    // push = insert at index num_slots (what Bplustree uses when the key is larger than every key in the leaf)
    ($p:ident $m:ident $l:ident $sel:ident $v:ident ($k:expr); push($n:literal) $($rest:tt)*) => {
        {
            let j = $m.n;
            c10_do_insert::<$n>(&mut $p, &mut $m, &mut $l, j, &$v[$k]);
            c10_seq!($p $m $l $sel $v ($k + 1); $($rest)*);
        }
    };
    // remove at one fixed index
    ($p:ident $m:ident $l:ident $sel:ident $v:ident ($k:expr); remat($i:literal) $($rest:tt)*) => {
        {
            c10_do_remove(&mut $p, &mut $m, &mut $l, $i);
            c10_seq!($p $m $l $sel $v ($k + 1); $($rest)*);
        }
    };
    ($p:ident $m:ident $l:ident $sel:ident $v:ident ($k:expr); rem $($rest:tt)*) => {
        if $m.n >= 1 {
            c10_branch($sel[$k], $m.n.wrapping_sub(1), |j| {
                c10_do_remove(&mut $p, &mut $m, &mut $l, j);
                c10_seq!($p $m $l $sel $v ($k + 1); $($rest)*);
            });
        }
    };
    ($p:ident $m:ident $l:ident $sel:ident $v:ident ($k:expr); rep($n:literal) $($rest:tt)*) => {
        if $m.n >= 1 {
            c10_branch($sel[$k], $m.n.wrapping_sub(1), |j| {
                c10_do_replace::<$n>(&mut $p, &mut $m, &mut $l, j, &$v[$k]);
                c10_seq!($p $m $l $sel $v ($k + 1); $($rest)*);
            });
        }
    };
    ($p:ident $m:ident $l:ident $sel:ident $v:ident ($k:expr); drain $($rest:tt)*) => {
        {
            c10_do_drain(&mut $p, &mut $m, &mut $l);
            c10_seq!($p $m $l $sel $v ($k + 1); $($rest)*);
        }
    };
    ($p:ident $m:ident $l:ident $sel:ident $v:ident ($k:expr); defrag $($rest:tt)*) => {
        {
            c10_do_defrag(&mut $p, &mut $m, &mut $l);
            c10_seq!($p $m $l $sel $v ($k + 1); $($rest)*);
        }
    };
}
macro_rules! c10_h {
    ($name:ident, $unwind:expr; $($ops:tt)*) => {
        #[kani::proof]
        #[kani::unwind($unwind)]
        #[kani::stub(std::fmt::format, c10_stub_format)]
        #[kani::stub(std::mem::swap, c10_swap)]
        fn $name() {
            let sel: [u8; 6] = kani::any();
            let v: [C10Cell; 6] = [c10_val(true), c10_val(false), c10_val(true), c10_val(false), c10_val(true), c10_val(false)];
            let mut buf = C10Buf::zeroed();
            let mut p = c10_page(&mut buf, kani::any());
            let mut m = C10Model::new();
            let mut l = C10Laws::new();
            kani::cover!(true, "reach");
            c10_after(&p, &m, &mut l, false);
            c10_seq!(p m l sel v (0); $($ops)*);
            l.assert_all();
            std::mem::forget(p);
        }
    };
}

// ---- C10.page_ops: sequences that must keep every law ------------------------------------------------------------
// notation: ins(N) = insert(i, N-byte cell) for every i in 0..=len; push(N) = insert(len, ..); rem = remove(i) for every
// i < len; remat(i) = remove(i); rep(N) = replace(i, N-byte cell) for every i < len; defrag = defragment(); drain = drain(..)
// Every harness: page of 4096 bytes built like BtreePage::alloc; page id, payload bytes (first / interior / last) and
// left-child values symbolic; laws checked after every step on every path.
// @obl harness=c10_ops_ins8 id=C10.page_ops[ins8] tier=quick funcs="BtreeOps::insert,BtreeOps::cell,BtreePageHeader::new" bounds="empty page; one insert of an 8-byte cell" stubs="std::fmt::format,std::mem::swap"
c10_h!(c10_ops_ins8, 6; ins(8));
// @obl harness=c10_ops_ins24_ins13 id=C10.page_ops[ins24,ins13] tier=quick funcs="BtreeOps::insert,BtreeOps::cell" bounds="insert 24-byte cell then 13-byte cell (padded to 16) at every index 0..=1" stubs="std::fmt::format,std::mem::swap"
c10_h!(c10_ops_ins24_ins13, 6; ins(24) ins(13));
// @obl harness=c10_ops_ins8_ins24_ins120 id=C10.page_ops[ins8,ins24,ins120] tier=quick funcs="BtreeOps::insert,BtreeOps::cell" bounds="three inserts (8, 24, 120 bytes) at every index combination (6 orders)" stubs="std::fmt::format,std::mem::swap"
c10_h!(c10_ops_ins8_ins24_ins120, 6; ins(8) ins(24) ins(120));
// @obl harness=c10_ops_ins1000_ins8_rem id=C10.page_ops[ins1000,ins8,rem] tier=quick funcs="BtreeOps::insert,BtreeOps::remove,BtreeOps::owned_cell" bounds="insert 1000-byte and 8-byte cell in both orders, remove either" stubs="std::fmt::format,std::mem::swap"
c10_h!(c10_ops_ins1000_ins8_rem, 6; ins(1000) ins(8) rem);
// @obl harness=c10_ops_ins24_ins120_rem_ins8 id=C10.page_ops[ins24,ins120,rem,ins8] tier=thorough funcs="BtreeOps::insert,BtreeOps::remove" bounds="two inserts in both orders, remove either, insert again at every index (8 paths)" stubs="std::fmt::format,std::mem::swap"
c10_h!(c10_ops_ins24_ins120_rem_ins8, 6; ins(24) ins(120) rem ins(8));
// @obl harness=c10_ops_rep_same id=C10.page_ops[push24,push24,rep20] tier=quick funcs="BtreeOps::replace" bounds="two 24-byte cells; replace either by a 20-byte cell (pads to 24: in-place path, stored size unchanged)" stubs="std::fmt::format,std::mem::swap"
c10_h!(c10_ops_rep_same, 6; push(24) push(24) rep(20));
// @obl harness=c10_ops_rep_grow id=C10.page_ops[ins8,ins24,rep120] tier=quick funcs="BtreeOps::replace,BtreeOps::remove,BtreeOps::insert" bounds="cells of 8 and 24 bytes in both orders; replace either by a 120-byte cell (remove + insert path)" stubs="std::fmt::format,std::mem::swap"
c10_h!(c10_ops_rep_grow, 6; ins(8) ins(24) rep(120));
// @obl harness=c10_ops_defrag_moved id=C10.page_ops[push120,push24,push8,remat0,defrag] tier=quick funcs="BtreeOps::defragment,BtreeOps::remove" bounds="three cells, remove the first inserted (highest offset, 152 bytes), defragment: both remaining cells move by more than their own size" assume="region: no cell's source and destination overlap (complement: c10_find_defrag_*)" stubs="std::fmt::format,std::mem::swap"
c10_h!(c10_ops_defrag_moved, 6; push(120) push(24) push(8) remat(0) defrag);
// @obl harness=c10_ops_ins_needs_defrag id=C10.page_ops[push2000,push1000,remat0,ins1000] tier=quick funcs="BtreeOps::insert,BtreeOps::defragment,BtreeOps::remove" bounds="cells of 2000 and 1000 bytes, remove the 2000-byte one, insert 1000 bytes at every index: contiguous free space is too small, insert defragments first (the remaining cell moves by 2032 bytes)" assume="region: no overlap of source and destination inside defragment" stubs="std::fmt::format,std::mem::swap"
c10_h!(c10_ops_ins_needs_defrag, 6; push(2000) push(1000) remat(0) ins(1000));
// @obl harness=c10_ops_err_full id=C10.page_ops[push2000,push1000,remat0,ins3000=Err,ins1000] tier=thorough funcs="BtreeOps::insert,BtreeOps::defragment" bounds="page holding one 1000-byte cell below a 2032-byte hole; a 3000-byte cell does not fit at any index: Err(StorageFull) after an internal defragment, page logically unchanged; afterwards a 1000-byte cell still fits" assume="region: no overlap inside defragment" stubs="std::fmt::format,std::mem::swap"
c10_h!(c10_ops_err_full, 6; push(2000) push(1000) remat(0) ins(3000) ins(1000));
// @obl harness=c10_ops_err_oversize id=C10.page_ops[push24,ins3984=Err,ins120] tier=quick funcs="BtreeOps::insert,BtreeOps::max_allowed_payload_size" bounds="payload of 3984 bytes (> max_allowed_payload_size = 3976) at every index: Err(InvalidInput), page unchanged; then a normal insert" stubs="std::fmt::format,std::mem::swap"
c10_h!(c10_ops_err_oversize, 6; push(24) ins(3984) ins(120));
// @obl harness=c10_ops_drain id=C10.page_ops[push24,push8,push120,rem,drain,push24] tier=quick funcs="BtreeOps::drain,BtreeOps::owned_cell,BtreeOps::insert" bounds="three cells, remove any, drain(..) returns the rest in slot order and empties the page, push works afterwards" stubs="std::fmt::format,std::mem::swap"
c10_h!(c10_ops_drain, 6; push(24) push(8) push(120) rem drain push(24));

// ---- C10.page_ops: regions where the pinned tree deviated (each isolates one defect) -----------------------------------
// (1) repaired by /repo 85a9bcb, (2) by 69ec924: the harnesses below are now plain regression obligations.
// (3) is tier=off: out-of-range slot indices are outside the precondition of remove/replace (the B+tree passes slots it
//     got from a search of the same page) and no property speaks about them.
// (1) replace with a SMALLER cell: storage/core/buffer.rs:816-833 overwrites in place and then does
//     `free_space_pointer_down(free_bytes)` (:829) = free_space_ptr += old_total - new_total, although the shrunken cell
//     still starts at its old offset.  The free-space pointer now points past cells that are alive; the next insert
//     writes [free_space_ptr - total, free_space_ptr) (:761-777) over them.
// @obl harness=c10_find_rep_shrink id=C10.page_ops[ins120,ins24,rep8/shrink] tier=quick funcs="BtreeOps::replace" bounds="cells of 120 and 24 bytes in both orders; replace either by an 8-byte cell" assume="region: new padded size < old padded size" stubs="std::fmt::format,std::mem::swap"
c10_h!(c10_find_rep_shrink, 6; ins(120) ins(24) rep(8));
// @obl harness=c10_find_rep_shrink_then_insert id=C10.page_ops[push1000,rep8,push1000/shrink] tier=quick funcs="BtreeOps::replace,BtreeOps::insert" bounds="one 1000-byte cell replaced by an 8-byte cell, then a 1000-byte cell appended: the new cell is written over the replaced one" assume="region: insert after a shrinking replace" stubs="std::fmt::format,std::mem::swap"
c10_h!(c10_find_rep_shrink_then_insert, 6; push(1000) rep(8) push(1000));
// (2) defragment copies a cell onto itself / onto an overlapping range with copy_from_slice (= ptr::copy_nonoverlapping):
//     storage/core/buffer.rs:893-897 -> traits.rs:313-317.  Undefined behaviour; a forward-copying memcpy corrupts the
//     cell when it moves up by less than its size.
// @obl harness=c10_find_defrag_in_place id=C10.page_ops[push24,defrag/in_place] tier=quick funcs="BtreeOps::defragment,Writable::write_to" bounds="one cell, already at its destination: source == destination" assume="region: a cell does not move" stubs="std::fmt::format,std::mem::swap"
c10_h!(c10_find_defrag_in_place, 6; push(24) defrag);
// @obl harness=c10_find_defrag_partial id=C10.page_ops[push120,push8,push120,remat1,defrag/partial_overlap] tier=quick funcs="BtreeOps::defragment,Writable::write_to" bounds="three cells, the middle one (40 bytes) removed: the lowest cell (152 bytes) moves up by 40 bytes" assume="region: a cell moves by less than its size" stubs="std::fmt::format,std::mem::swap"
c10_h!(c10_find_defrag_partial, 6; push(120) push(8) push(120) remat(1) defrag);
// @obl harness=c10_find_insert_defrag id=C10.page_ops[push2000,push1000,remat1,ins1000/in_place] tier=quick funcs="BtreeOps::insert,BtreeOps::defragment" bounds="cells of 2000 and 1000 bytes, the lower one removed, insert of 1000 bytes defragments internally while the 2000-byte cell is already in place" assume="region: insert needs defragment and a cell does not move" stubs="std::fmt::format,std::mem::swap"
c10_h!(c10_find_insert_defrag, 6; push(2000) push(1000) remat(1) ins(1000));
// @obl harness=c10_find_err_full_defrag id=C10.page_ops[push2000,push1000,ins1000=Err/in_place] tier=thorough funcs="BtreeOps::insert,BtreeOps::defragment" bounds="cells of 2000 and 1000 bytes, a third of 1000 bytes does not fit: Err(StorageFull) is only returned after defragment ran over cells that are in place (all other laws, incl. err_leaves_page_logically_unchanged, hold)" assume="region: StorageFull with a cell in place" stubs="std::fmt::format,std::mem::swap"
c10_h!(c10_find_err_full_defrag, 6; push(2000) push(1000) ins(1000));

// (3) slot index == num_slots is accepted by the bounds test of remove (`index > self.num_slots()`, buffer.rs:848) and
//     replace has no bounds test at all (buffer.rs:801-802): both then index the slot array out of range and panic.
/// page with `n` 8-byte cells (n = 0, 1, 2 chosen by a symbolic selector); runs `f` on it with the matching model
fn c10_with_n_cells<F: FnMut(&mut BtreePage, &mut C10Model, &mut C10Laws)>(mut f: F) {
    let sel: u8 = kani::any();
    let v = [c10_val(true), c10_val(false)];
    let mut buf = C10Buf::zeroed();
    let mut p = c10_page(&mut buf, 7);
    let mut m = C10Model::new();
    let mut l = C10Laws::new();
    c10_branch(sel, 2, |n| {
        if n >= 1 {
            c10_do_insert::<8>(&mut p, &mut m, &mut l, 0, &v[0]);
        }
        if n >= 2 {
            c10_do_insert::<8>(&mut p, &mut m, &mut l, 1, &v[1]);
        }
        f(&mut p, &mut m, &mut l);
        l.leaves = l.leaves.wrapping_add(1);
    });
    l.assert_all();
    std::mem::forget(p);
}
// Representative out-of-range indices instead of a symbolic one: with a symbolic index symex also runs the
// (infeasible) rest of insert/remove - a symbolic-length memmove in `copy_within` and a symbolic slot write - and times
// out.  The index is only ever compared with num_slots (buffer.rs:725, :848), as usize.
const C10_OOB: [usize; 4] = [1, 65_536, u32::MAX as usize + 1, usize::MAX];
// @obl harness=c10_oob_insert_remove id=C10.page_ops[oob:insert>len,remove>len] tier=quick funcs="BtreeOps::insert,BtreeOps::remove" bounds="pages with 0, 1, 2 cells; indices len+1, len+65536, len+2^32, usize::MAX: insert and remove return Err and leave the page unchanged" stubs="std::fmt::format,std::mem::swap"
#[kani::proof]
#[kani::unwind(8)]
#[kani::stub(std::fmt::format, c10_stub_format)]
#[kani::stub(std::mem::swap, c10_swap)]
fn c10_oob_insert_remove() {
    let w = C10Cell { len: 8, ..c10_val(true) };
    kani::cover!(true, "reach");
    c10_with_n_cells(|p, m, l| {
        let mut k = 0;
        while k < C10_OOB.len() {
            let idx = if C10_OOB[k] == usize::MAX { usize::MAX } else { m.n + C10_OOB[k] };
            let r = c10_okf(p.insert(idx, c10_mk::<8>(&w)));
            l.op_result &= r.is_none();
            let r = c10_okf(p.remove(idx));
            l.op_result &= r.is_none();
            k += 1;
        }
        c10_after(p, m, l, true);
    });
}
// @obl harness=c10_find_oob_remove_len id=C10.page_ops[oob:remove==len] tier=off funcs="BtreeOps::remove,BtreeOps::get_cell_at" bounds="pages with 0, 1, 2 cells; remove(len)" assume="region: index == num_slots" stubs="std::fmt::format,std::mem::swap"
#[kani::proof]
#[kani::unwind(6)]
#[kani::stub(std::fmt::format, c10_stub_format)]
#[kani::stub(std::mem::swap, c10_swap)]
fn c10_find_oob_remove_len() {
    kani::cover!(true, "reach");
    c10_with_n_cells(|p, m, l| {
        let idx = m.n;
        let r = c10_okf(p.remove(idx));
        l.op_result &= r.is_none();
        c10_after(p, m, l, true);
    });
}
// @obl harness=c10_find_oob_replace id=C10.page_ops[oob:replace>=len] tier=off funcs="BtreeOps::replace,BtreeOps::get_cell_at" bounds="pages with 0, 1, 2 cells; replace(len, 8-byte cell) and replace(len + 1, ..)" assume="region: index >= num_slots" stubs="std::fmt::format,std::mem::swap"
#[kani::proof]
#[kani::unwind(6)]
#[kani::stub(std::fmt::format, c10_stub_format)]
#[kani::stub(std::mem::swap, c10_swap)]
fn c10_find_oob_replace() {
    let beyond: bool = kani::any();
    let w = C10Cell { len: 8, ..c10_val(true) };
    kani::cover!(true, "reach");
    c10_with_n_cells(|p, m, l| {
        let r = if beyond { c10_okf(p.replace(m.n + 1, c10_mk::<8>(&w))) } else { c10_okf(p.replace(m.n, c10_mk::<8>(&w))) };
        l.op_result &= r.is_none();
        c10_after(p, m, l, true);
    });
}

// ---- the harness page is the page BtreePage::alloc builds ---------------------------------------------------------------
// @obl harness=c10_alloc_equiv id=C10.page_ops[alloc] tier=quick funcs="<MemBlock<BtreePageHeader> as Allocatable>::alloc,MemBlock::new,MemBlock::from_non_null,BtreePageHeader::new" bounds="page size 4096, every page id; heap page vs the local-backed page used by all C10 harnesses: same header, size, capacity, data offset, zeroed data (symbolic probe index)"
#[kani::proof]
#[kani::unwind(4)]
fn c10_alloc_equiv() {
    let id: PageId = kani::any();
    let j: usize = kani::any();
    kani::assume(j < C10_CAP);
    let a = BtreePage::alloc(id, C10_PS);
    let mut buf = C10Buf::zeroed();
    let b = c10_page(&mut buf, id);
    kani::cover!(true, "reach");
    let (ha, hb) = (a.metadata(), b.metadata());
    assert!(
        ha.page_number == id
            && ha.num_slots == 0
            && ha.page_size as usize == C10_PS
            && ha.padding == 0
            && ha.free_space as usize == C10_CAP
            && ha.free_space_ptr as usize == C10_CAP
            && ha.right_child.is_none()
            && ha.next_sibling.is_none()
            && ha.previous_sibling.is_none(),
        "alloc_header_is_empty_page"
    );
    assert!(
        ha.page_number == hb.page_number
            && ha.num_slots == hb.num_slots
            && ha.page_size == hb.page_size
            && ha.padding == hb.padding
            && ha.free_space == hb.free_space
            && ha.free_space_ptr == hb.free_space_ptr
            && ha.right_child == hb.right_child
            && ha.next_sibling == hb.next_sibling
            && ha.previous_sibling == hb.previous_sibling,
        "harness_page_header_equals_alloc_header"
    );
    assert!(a.size() == C10_PS && b.size() == C10_PS && a.capacity() == C10_CAP && b.capacity() == C10_CAP, "harness_page_size_equals_alloc_size");
    assert!(a.data().len() == C10_CAP && b.data().len() == C10_CAP, "data_area_is_page_minus_header");
    let da = a.data().as_ptr() as usize - a.metadata() as *const BtreePageHeader as usize;
    let db = b.data().as_ptr() as usize - b.metadata() as *const BtreePageHeader as usize;
    assert!(da == BTREE_PAGE_HEADER_SIZE && db == BTREE_PAGE_HEADER_SIZE, "data_starts_right_after_header");
    assert!(a.data()[j] == 0 && b.data()[j] == 0, "fresh_page_data_is_zero");
    assert!(a.num_slots() == 0 && b.is_empty() && a.max_allowed_payload_size() == b.max_allowed_payload_size(), "fresh_page_has_no_slots");
    std::mem::forget(a);
    std::mem::forget(b);
}

// ---- C11: a released tree node becomes a well-formed free page ------------------------------------------------------
// `Pager::dealloc_page` appends the page to the free list and relies on the page itself arriving with `next == None`
// (the tail of the list must end it) and with its own id; `Pager::allocate_page` later reads `next` of the head.
// @obl harness=c11_btree_dealloc_header id=C11.released_node_is_a_free_page[BtreePage] tier=quick funcs="BtreePage::dealloc,MemBlock::cast,OverflowPageHeader::new" bounds="page 4096; EVERY BtreePageHeader (page id, right child, sibling links, counters symbolic: leaf or interior node in any state); data area of the released page probed at a symbolic position" stubs="std::fmt::format,std::mem::swap"
#[kani::proof]
#[kani::unwind(2)]
#[kani::stub(std::fmt::format, c10_stub_format)]
#[kani::stub(std::mem::swap, c10_swap)]
fn c11_btree_dealloc_header() {
    let id: PageId = kani::any();
    let mut buf = C10Buf::zeroed();
    let mut p = c10_page(&mut buf, id);
    {
        let h = p.metadata_mut();
        h.right_child = kani::any();
        h.next_sibling = kani::any();
        h.previous_sibling = kani::any();
        h.free_space_ptr = kani::any();
        h.free_space = kani::any();
        h.num_slots = kani::any();
    }
    let j: usize = kani::any();
    kani::assume(j < C10_PS - OVERFLOW_HEADER_SIZE);
    kani::cover!(true, "reach");
    let o = p.dealloc();
    let h = o.metadata();
    assert!(h.page_number == id, "released_page_keeps_its_id");
    assert!(h.next.is_none(), "released_page_has_no_successor");
    assert!(o.next().is_none(), "released_page_has_no_successor");
    assert!(o.size() == C10_PS, "released_page_keeps_its_size");
    assert!(o.data()[j] == 0, "released_page_data_is_zeroed");
    std::mem::forget(o);
}

// ---- C10.thresholds ---------------------------------------------------------------------------------------------------
// @obl harness=c10_thresholds id=C10.thresholds tier=quick funcs="BtreeOps::overflow_threshold,BtreeOps::underflow_threshold,BtreeOps::max_payload_size_in,BtreeOps::ideal_max_payload_size,MemBlock::usable_space" bounds="page size = k * 4096 for k in 1..=16 (4096..=65536), min_cells in 3..=16" assume="documented configuration ranges (DBConfig clamps page size to [4096, 65536]; Btree::new requires min_keys >= 3)"
#[kani::proof]
#[kani::unwind(2)]
fn c10_thresholds() {
    let k: usize = kani::any();
    let mc: usize = kani::any();
    kani::assume(k >= 1 && k <= 16);
    kani::assume(mc >= 3 && mc <= 16);
    let ps = k * 4096;
    kani::cover!(true, "reach");
    // (built-in checks: no arithmetic overflow / underflow, the debug_asserts of ideal_max_payload_size)
    let us = BtreePage::usable_space(ps);
    let ot = BtreePage::overflow_threshold(ps);
    let ut = BtreePage::underflow_threshold(ps);
    let mp = BtreePage::max_payload_size_in(us);
    let ideal = BtreePage::ideal_max_payload_size(ps, mc);
    let per_cell = CELL_HEADER_SIZE + C10_SLOT; // bytes a cell costs on top of its padded payload
    assert!(us == ps - BTREE_PAGE_HEADER_SIZE, "usable_space_is_page_minus_header");
    assert!(ut < ot && ot <= us && ut > 0, "thresholds_ordered");
    assert!(4 * ot >= 3 * us && 4 * ot < 3 * us + 4 && 4 * ut >= us && 4 * ut < us + 4, "thresholds_are_three_quarters_and_one_quarter");
    assert!(mp % C10_ALIGN == 0 && mp + per_cell <= us && mp + C10_ALIGN + per_cell > us, "max_payload_is_largest_aligned_payload_that_fits");
    assert!(mp <= u16::MAX as usize, "max_allowed_payload_fits_u16");
    assert!(ideal > 0 && ideal % C10_ALIGN == 0 && ideal <= mp, "ideal_payload_positive_aligned_not_above_max");
    assert!(mc * (ideal + per_cell) <= us, "ideal_payload_fits_min_cells_times_in_empty_page");
    assert!(ideal >= CELL_HEADER_SIZE, "ideal_payload_not_smaller_than_a_cell_header");
}

// The tree inserts first and balances afterwards (`Btree::insert_cell`: push / insert, then `balance`), and rebalancing
// pushes separator cells - copies of leaf cells, overflow pointer included - into the parent without consulting its free
// space.  That protocol needs: a page that is NOT in overflow state still has room for the largest cell the tree stores,
// i.e. header + ideal payload + the 8-byte overflow page id (`CellBuilder::build_cell`: `new_overflow(&payload[..max], id)`)
// + slot.  Otherwise the insert fails with StorageFull before the split that would have made room.
fn c10_room_law(mc_lo: usize, mc_hi: usize) {
    let k: usize = kani::any();
    let mc: usize = kani::any();
    kani::assume(k >= 1 && k <= 16);
    kani::assume(mc >= mc_lo && mc <= mc_hi);
    let ps = k * 4096;
    kani::cover!(true, "reach");
    let us = BtreePage::usable_space(ps);
    let ot = BtreePage::overflow_threshold(ps);
    let ideal = BtreePage::ideal_max_payload_size(ps, mc);
    let largest_cell = CELL_HEADER_SIZE + ideal + mem::size_of::<PageId>() + C10_SLOT;
    assert!(ot + largest_cell <= us, "page_below_overflow_threshold_has_room_for_the_largest_cell");
}
// @obl harness=c10_room_for_largest_cell id=C10.thresholds[room_for_largest_cell/min_keys>=5] tier=quick native=c10_large_rows_insert funcs="BtreeOps::overflow_threshold,BtreeOps::ideal_max_payload_size,MemBlock::usable_space" bounds="page size = k * 4096 for k in 1..=16, min_cells in 5..=16"
#[kani::proof]
#[kani::unwind(2)]
fn c10_room_for_largest_cell() {
    c10_room_law(5, 16);
}
// @obl harness=c10_find_room_for_largest_cell id=C10.thresholds[room_for_largest_cell/min_keys<=4] tier=quick native=c10_large_rows_insert funcs="BtreeOps::overflow_threshold,BtreeOps::ideal_max_payload_size,MemBlock::usable_space" bounds="page size = k * 4096 for k in 1..=16, min_cells in 2..=4 (2 is what DBConfig clamps to, 3 the default)" assume="region: min_keys <= 4"
#[kani::proof]
#[kani::unwind(2)]
fn c10_find_room_for_largest_cell() {
    c10_room_law(2, 4);
}

// ---- C10.cell_codec ---------------------------------------------------------------------------------------------------
fn c10_bytes_eq(a: &[u8], b: &[u8]) -> bool {
    if a.len() != b.len() {
        return false;
    }
    let mut i = 0;
    let mut ok = true;
    while i < a.len() {
        ok &= a[i] == b[i];
        i += 1;
    }
    ok
}
macro_rules! c10_codec {
    ($name:ident, $n:literal, $unwind:expr) => {
        #[kani::proof]
        #[kani::unwind($unwind)]
        #[kani::stub(std::fmt::format, c10_stub_format)]
        #[kani::stub(std::mem::swap, c10_swap)]
        fn $name() {
            let d: [u8; $n] = kani::any();
            let lcv: PageId = kani::any();
            let ovf: PageId = kani::any();
            let mut buf = C10Buf::zeroed();
            let mut p = c10_page(&mut buf, 7);
            kani::cover!(true, "reach");
            // plain cell with a left child
            let mut c = OwnedCell::new(&d);
            c.set_left_child(Some(lcv));
            assert!(
                c.len() == $n && c.metadata().size() as usize == c10_pad($n) && c.total_size() == c10_total($n) && c.storage_size() == c10_total($n) + C10_SLOT && !c.is_overflow() && c.overflow_page().is_none(),
                "owned_cell_sizes"
            );
            assert!(c10_bytes_eq(c.effective_data(), &d), "owned_cell_payload");
            assert!(c10_okf(p.push(c)).is_some(), "push_ok");
            // overflow cell: payload followed by the big-endian overflow page id, no left child
            let o = OwnedCell::new_overflow(&d, ovf);
            assert!(o.len() == $n + 8 && o.metadata().size() as usize == c10_pad($n + 8) && o.is_overflow() && o.overflow_page() == Some(ovf) && o.left_child().is_none(), "owned_overflow_cell_metadata");
            assert!(c10_okf(p.push(o)).is_some(), "push_ok");
            {
                let r = p.cell(0);
                let h = r.metadata();
                assert!(
                    h.left_child() == Some(lcv) && !h.is_overflow() && h.len() == $n && h.size() as usize == c10_pad($n) && r.left_child() == Some(lcv) && !r.is_overflow() && r.overflow_page().is_none(),
                    "cell_ref_metadata_roundtrip"
                );
                assert!(r.len() == $n && r.total_size() == c10_total($n) && r.storage_size() == c10_total($n) + C10_SLOT && r.full_data().len() == c10_pad($n), "cell_ref_sizes_roundtrip");
                assert!(c10_bytes_eq(r.effective_data(), &d), "cell_ref_payload_roundtrip");
            }
            {
                let r = p.cell(1);
                assert!(r.is_overflow() && r.overflow_page() == Some(ovf) && r.left_child().is_none() && r.len() == $n + 8, "overflow_cell_ref_metadata_roundtrip");
                assert!(c10_bytes_eq(&r.effective_data()[..$n], &d), "overflow_cell_ref_payload_roundtrip");
            }
            {
                let oc = p.owned_cell(0);
                assert!(oc.left_child() == Some(lcv) && !oc.is_overflow() && oc.len() == $n && oc.metadata().size() as usize == c10_pad($n), "owned_copy_metadata_roundtrip");
                assert!(c10_bytes_eq(oc.effective_data(), &d), "owned_copy_payload_roundtrip");
                let oo = p.owned_cell(1);
                assert!(oo.is_overflow() && oo.overflow_page() == Some(ovf) && oo.len() == $n + 8, "owned_copy_overflow_roundtrip");
            }
            {
                let mut cm = p.cell_mut(0);
                cm.set_left_child(None);
            }
            assert!(p.cell(0).left_child().is_none() && p.child(0).is_none() && c10_bytes_eq(p.cell(0).effective_data(), &d), "cell_mut_set_left_child_only_changes_left_child");
            std::mem::forget(p);
        }
    };
}
// @obl harness=c10_codec_8 id=C10.cell_codec[8] tier=quick funcs="OwnedCell::new,OwnedCell::new_overflow,BtreeOps::push,BtreeOps::cell,BtreeOps::owned_cell,BtreeOps::cell_mut,CellRef::from_raw,CellRef::overflow_page" bounds="payload of 8 fully symbolic bytes; every left child / overflow page id" stubs="std::fmt::format,std::mem::swap"
c10_codec!(c10_codec_8, 8, 20);
// @obl harness=c10_codec_13 id=C10.cell_codec[13] tier=quick funcs="OwnedCell::new,OwnedCell::new_overflow,BtreeOps::push,BtreeOps::cell,BtreeOps::owned_cell,BtreeOps::cell_mut,CellRef::from_raw,CellRef::overflow_page" bounds="payload of 13 fully symbolic bytes (3 padding bytes; overflow variant 21 -> 24); every left child / overflow page id" stubs="std::fmt::format,std::mem::swap"
c10_codec!(c10_codec_13, 13, 20);
// @obl harness=c10_codec_24 id=C10.cell_codec[24] tier=quick funcs="OwnedCell::new,OwnedCell::new_overflow,BtreeOps::push,BtreeOps::cell,BtreeOps::owned_cell,BtreeOps::cell_mut,CellRef::from_raw,CellRef::overflow_page" bounds="payload of 24 fully symbolic bytes; every left child / overflow page id" stubs="std::fmt::format,std::mem::swap"
c10_codec!(c10_codec_24, 24, 30);
