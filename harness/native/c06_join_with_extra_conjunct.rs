// host: lib.rs
// Native scenario for C06.key_only_joins_need_pure_equi_conditions: a join whose ON clause holds a key equality AND another
// conjunct returns the same rows as the same predicate written with the extra conjunct in WHERE.
use crate::{DBConfig, Database};

fn count(db: &Database, q: &str) -> usize {
    db.execute(q).unwrap().into_rows().map(|r| r.len()).unwrap_or(0)
}

#[test]
fn extra_conjunct_in_on_is_evaluated() {
    let dir = tempfile::TempDir::new().unwrap();
    let db = Database::create(dir.path().join("t.db"), DBConfig::default()).unwrap();
    db.execute("CREATE TABLE a (id BIGINT, x INT)").unwrap();
    db.execute("CREATE TABLE b (id BIGINT, aid BIGINT, y INT)").unwrap();
    for i in 1..=4 {
        db.execute(&format!("INSERT INTO a VALUES ({i}, {})", i * 10)).unwrap();
    }
    let mut k = 0;
    for aid in 1..=4 {
        for y in [5, 25, 45] {
            k += 1;
            db.execute(&format!("INSERT INTO b VALUES ({k}, {aid}, {y})")).unwrap();
        }
    }
    // pairs with b.y > a.x: a.x = 10 -> {25,45}, 20 -> {25,45}, 30 -> {45}, 40 -> {45} = 6
    let in_where = count(&db, "SELECT a.id, b.id FROM a JOIN b ON a.id = b.aid WHERE b.y > a.x");
    let in_on = count(&db, "SELECT a.id, b.id FROM a JOIN b ON a.id = b.aid AND b.y > a.x");
    assert_eq!(in_where, 6, "reference query");
    assert_eq!(in_on, in_where, "the conjunct `b.y > a.x` in the ON clause was not evaluated");
}
