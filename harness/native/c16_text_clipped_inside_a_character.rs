// host: lib.rs
// Native scenario for C16.client_text_is_cut_at_character_boundaries: statements whose identifiers / literals hold
// multi-byte characters at every byte offset, through execute (error messages echo tokens) and explain (the plan
// printer clips predicates).  Each call must return; the worker must survive.
use crate::{DBConfig, Database};

fn survives<T>(what: &str, f: impl FnOnce() -> Result<T, crate::DatabaseError>) {
    let r = std::panic::catch_unwind(std::panic::AssertUnwindSafe(|| f().map(|_| ())));
    match r {
        Err(_) => panic!("`{what}` panicked in the caller"),
        Ok(Err(e)) => {
            let m = format!("{}", e);
            assert!(!m.contains("channel closed") && !m.contains("panicked"), "`{what}` killed the worker: {m}");
        }
        Ok(Ok(())) => {}
    }
}

#[test]
fn multibyte_text_at_every_offset_does_not_kill_the_worker() {
    let dir = tempfile::TempDir::new().unwrap();
    let db = Database::create(dir.path().join("t.db"), DBConfig::default()).unwrap();
    db.execute("CREATE TABLE t (id BIGINT, name TEXT)").unwrap();
    db.execute("INSERT INTO t VALUES (1, 'a')").unwrap();
    for pad in 0..8usize {
        for ch in ["é", "€", "𝄞"] {
            let body = format!("{}{}", "x".repeat(pad), ch.repeat(80));
            // a literal / identifier where a keyword is expected: the error message echoes the token
            for q in [format!("SELECT * FROM t WHERE '{body}'  '{body}'"), format!("SELECT '{body}' '{body}' FROM t"),
                      format!("SELECT * FROM '{body}'"), format!("INSERT INTO t '{body}'"), format!("{body} {body}"),
                      format!("SELECT * FROM t {body} {body} {body}"), format!("SELECT * FROM t WHERE name = '{body}'"),
                      format!("SELECT {body} FROM t"), format!("DROP '{body}'"), format!("SELECT * FROM t WHERE name = '{body}' AND id = 1")] {
                survives(&q, || db.execute(&q));
                survives(&q, || db.explain(&q));
            }
        }
    }
    survives("liveness", || db.execute("SELECT * FROM t"));
}
