// host: lib.rs
// Native scenario for C05.precedence: NOT binds tighter than AND ("NOT a AND b" is "(NOT a) AND b").
use crate::{DBConfig, Database};

#[test]
fn not_binds_tighter_than_and() {
    let dir = tempfile::TempDir::new().unwrap();
    let db = Database::create(dir.path().join("t.db"), DBConfig::default()).unwrap();
    db.execute("CREATE TABLE t (id BIGINT, v INT)").unwrap();
    for i in 1..=3 {
        db.execute(&format!("INSERT INTO t VALUES ({}, {})", i, i * 10)).unwrap();
    }
    let r = db.execute("SELECT COUNT(*) FROM t WHERE NOT id = 1 AND id = 2").unwrap();
    let n = r.into_rows().unwrap().first().unwrap()[0].as_big_int().unwrap().value();
    assert_eq!(n, 1, "NOT id = 1 AND id = 2 must select only id 2 ((NOT a) AND b); got {} rows (parsed as NOT (a AND b))", n);
}
