// Kani harnesses (child module of crates/axmos-db/src/common/mod.rs).  See /verif/HARNESS_GUIDE.md
// C12.config_clamp: DBConfig::new and the builder setters normalise every usize input as the doc comments say
// (page size -> power of two in [4096, 65536]; pool_size >= 1; min_keys >= 2; cache size / siblings stored as given)
// and never panic.  `usize::next_power_of_two` overflows for inputs > 2^63: that region is isolated.
#![allow(unused_imports, dead_code, clippy::all)]
use super::*;

const TOP: usize = 1usize << (usize::BITS - 1); // largest input for which next_power_of_two is representable

fn is_pow2(x: usize) -> bool {
    x != 0 && x & (x - 1) == 0
}
/// reference: smallest power of two >= requested, clamped into [MIN_PAGE_SIZE, MAX_PAGE_SIZE]
fn page_size_laws(requested: usize, got: usize) {
    assert!(is_pow2(got), "page_size_power_of_two");
    assert!(got >= MIN_PAGE_SIZE && got <= MAX_PAGE_SIZE, "page_size_in_range");
    if requested <= MIN_PAGE_SIZE {
        assert!(got == MIN_PAGE_SIZE, "page_size_small_request_gets_min");
    } else if requested > MAX_PAGE_SIZE / 2 {
        assert!(got == MAX_PAGE_SIZE, "page_size_large_request_gets_max");
    } else {
        assert!(got >= requested && got / 2 < requested, "page_size_rounds_up_to_next_power");
    }
    if is_pow2(requested) && requested >= MIN_PAGE_SIZE && requested <= MAX_PAGE_SIZE {
        assert!(got == requested, "page_size_valid_request_kept");
    }
}
fn new_laws(ps: usize) {
    let cs: usize = kani::any();
    let pool: usize = kani::any();
    let mk: usize = kani::any();
    let sib: usize = kani::any();
    kani::cover!(true, "reach");
    let c = DBConfig::new(ps, cs, pool, mk, sib);
    page_size_laws(ps, c.page_size);
    assert!(c.cache_size == cs, "new_cache_size_as_given");
    assert!(c.pool_size == pool, "new_pool_size_as_given");
    assert!(c.min_keys_per_page == mk, "new_min_keys_as_given");
    assert!(c.num_siblings_per_side == sib, "new_siblings_as_given");
}
// @obl harness=c12_config_new id=C12.config_clamp[new] tier=quick funcs="DBConfig::new" bounds="all five usize arguments, page_size <= 2^63" assume="page_size <= 2^63 (complement of the next_power_of_two overflow region)"
#[kani::proof]
#[kani::unwind(2)]
fn c12_config_new() {
    let ps: usize = kani::any();
    kani::assume(ps <= TOP);
    new_laws(ps);
}
// @obl harness=c12_config_new_huge id=C12.config_clamp[new/huge] tier=off funcs="DBConfig::new" bounds="all five usize arguments, page_size > 2^63" assume="page_size > 2^63 (region where next_power_of_two overflows)"
#[kani::proof]
#[kani::unwind(2)]
fn c12_config_new_huge() {
    let ps: usize = kani::any();
    kani::assume(ps > TOP);
    new_laws(ps);
}

/// builder whose starting config is arbitrary (DBConfig::default() calls thread::available_parallelism, an OS query
/// that is not the subject; the setters must not depend on the starting values)
fn any_builder() -> DBConfigBuilder {
    DBConfigBuilder {
        config: DBConfig {
            page_size: kani::any(),
            cache_size: kani::any(),
            pool_size: kani::any(),
            num_siblings_per_side: kani::any(),
            min_keys_per_page: kani::any(),
        },
    }
}
fn builder_laws(ps: usize) {
    let cs: usize = kani::any();
    let pool: usize = kani::any();
    let mk: usize = kani::any();
    let sib: usize = kani::any();
    let order: bool = kani::any();
    kani::cover!(true, "reach");
    let c = if order {
        any_builder().page_size(ps).cache_size(cs).pool_size(pool).min_keys_per_page(mk).num_siblings_per_side(sib).build()
    } else {
        any_builder().num_siblings_per_side(sib).min_keys_per_page(mk).pool_size(pool).cache_size(cs).page_size(ps).build()
    };
    page_size_laws(ps, c.page_size);
    assert!(c.cache_size == cs, "builder_cache_size_as_given");
    assert!(c.pool_size == if pool == 0 { 1 } else { pool }, "builder_pool_size_at_least_one");
    assert!(c.min_keys_per_page == if mk < 2 { 2 } else { mk }, "builder_min_keys_at_least_two");
    assert!(c.num_siblings_per_side == sib, "builder_siblings_as_given");
}
// @obl harness=c12_config_builder id=C12.config_clamp[builder] tier=quick funcs="DBConfigBuilder::page_size,DBConfigBuilder::cache_size,DBConfigBuilder::pool_size,DBConfigBuilder::min_keys_per_page,DBConfigBuilder::num_siblings_per_side,DBConfigBuilder::build" bounds="arbitrary starting config, all usize setter arguments (page_size <= 2^63), both setter orders" assume="page_size <= 2^63"
#[kani::proof]
#[kani::unwind(2)]
fn c12_config_builder() {
    let ps: usize = kani::any();
    kani::assume(ps <= TOP);
    builder_laws(ps);
}
// @obl harness=c12_config_builder_huge id=C12.config_clamp[builder/huge] tier=off funcs="DBConfigBuilder::page_size" bounds="arbitrary starting config, page_size > 2^63" assume="page_size > 2^63 (region where next_power_of_two overflows)"
#[kani::proof]
#[kani::unwind(2)]
fn c12_config_builder_huge() {
    let ps: usize = kani::any();
    kani::assume(ps > TOP);
    builder_laws(ps);
}
