// host: lib.rs
// Native scenario for C05.null_operands[BETWEEN] / [IN list]: three-valued logic of BETWEEN / IN and their negations
// when the probe, a bound or a list item is NULL.  A WHERE clause keeps a row only when the predicate is TRUE.
use crate::{DBConfig, Database};

fn ids(db: &Database, q: &str) -> Vec<i64> {
    let rows = db.execute(q).unwrap_or_else(|e| panic!("`{q}` failed: {e}")).into_rows().unwrap();
    let mut out: Vec<i64> = rows.iterrows().map(|r| r[0].as_big_int().unwrap().value()).collect();
    out.sort();
    out
}

#[test]
fn between_and_in_follow_three_valued_logic() {
    let dir = tempfile::TempDir::new().unwrap();
    let db = Database::create(dir.path().join("t.db"), DBConfig::default()).unwrap();
    db.execute("CREATE TABLE t (id BIGINT, v BIGINT, lo BIGINT, hi BIGINT)").unwrap();
    db.execute("INSERT INTO t VALUES (1, 1, 0, 5), (2, 3, NULL, 5), (3, 7, NULL, 5), (4, NULL, 0, 5), (5, 9, 0, NULL), (6, -4, 0, NULL), (7, 2, 0, 5)").unwrap();
    // probe NULL: unknown both ways
    assert_eq!(ids(&db, "SELECT id FROM t WHERE v IN (1, 2)"), vec![1, 7], "IN");
    assert_eq!(ids(&db, "SELECT id FROM t WHERE v NOT IN (1, 2)"), vec![2, 3, 5, 6], "NOT IN must not keep the row whose probe is NULL");
    assert_eq!(ids(&db, "SELECT id FROM t WHERE v BETWEEN 0 AND 5"), vec![1, 2, 7], "BETWEEN");
    assert_eq!(ids(&db, "SELECT id FROM t WHERE v NOT BETWEEN 0 AND 5"), vec![3, 5, 6], "NOT BETWEEN must not keep the row whose probe is NULL");
    // a NULL bound: decided only when the other comparison fails
    assert_eq!(ids(&db, "SELECT id FROM t WHERE v BETWEEN lo AND hi"), vec![1, 7], "BETWEEN with NULL bounds");
    assert_eq!(ids(&db, "SELECT id FROM t WHERE v NOT BETWEEN lo AND hi"), vec![3, 6], "NOT BETWEEN with NULL bounds: 7 > hi and -4 < lo are decided, the rest is unknown");
    // a NULL in the list: a hit is a hit, a miss is unknown
    assert_eq!(ids(&db, "SELECT id FROM t WHERE v IN (1, lo)"), vec![1], "IN with a NULL item");
    assert_eq!(ids(&db, "SELECT id FROM t WHERE v NOT IN (1, lo)"), vec![5, 6, 7], "NOT IN with a NULL item: rows 2 and 3 (lo NULL, v not 1) are unknown");
}
