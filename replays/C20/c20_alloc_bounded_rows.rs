// replay for obligation C20.alloc_bounded[Rows/row_count] (harness c20_alloc_bounded_rows)
// harness-file: c20_tcp.rs
// failed: alloc_bounded; double free; free argument has offset zero; free argument must be NULL or valid pointer; free argument must be dynamic object; memcpy source region readable; rust_dealloc must be called on an object whose allocated size matches its layout
// native outcome when recorded: did not fail
// re-run: /verif/bin/check --replay /verif/replays/C20/c20_alloc_bounded_rows.rs
#[test]
fn kani_concrete_playback_c20_alloc_bounded_rows_15391665137487012389() {
    let concrete_vals: Vec<Vec<u8>> = vec![
        // 2147483648
        vec![0, 0, 0, 128],
    ];
    kani::concrete_playback_run(concrete_vals, c20_alloc_bounded_rows);
}

#[test]
fn kani_concrete_playback_c20_alloc_bounded_rows_17704380819206284927() {
    let concrete_vals: Vec<Vec<u8>> = vec![
        // 15
        vec![15, 0, 0, 0],
    ];
    kani::concrete_playback_run(concrete_vals, c20_alloc_bounded_rows);
}

#[test]
fn kani_concrete_playback_c20_alloc_bounded_rows_18222996911356703426() {
    let concrete_vals: Vec<Vec<u8>> = vec![
        // 1
        vec![1, 0, 0, 0],
    ];
    kani::concrete_playback_run(concrete_vals, c20_alloc_bounded_rows);
}

#[test]
fn kani_concrete_playback_c20_alloc_bounded_rows_2803748267929176986() {
    let concrete_vals: Vec<Vec<u8>> = vec![
        // 16
        vec![16, 0, 0, 0],
    ];
    kani::concrete_playback_run(concrete_vals, c20_alloc_bounded_rows);
}

