// host: lib.rs
// Native scenario for C05.merge_join_keeps_unmatched_right_rows (also C06): LEFT / RIGHT / FULL joins keep the rows
// without a partner, padded with NULLs, whichever join algorithm runs.  `a.id = b.aid` is a pure equi condition (hash /
// merge join are candidates), `a.id + 0 = b.aid` is not (nested loop join): both must give the same rows.
use crate::{DBConfig, Database};

type Pair = (Option<i64>, Option<i64>);

fn pairs(db: &Database, q: &str) -> Vec<Pair> {
    let rows = db.execute(q).unwrap_or_else(|e| panic!("`{q}` failed: {e}")).into_rows().unwrap();
    let get = |d: &crate::types::DataType| if matches!(d, crate::types::DataType::Null) { None } else { d.to_f64().map(|x| x as i64) };
    let mut out: Vec<Pair> = rows.iterrows().map(|r| (get(&r[0]), get(&r[1]))).collect();
    out.sort();
    out
}

fn check(db: &Database, kind: &str, want: &[Pair]) {
    let mut want = want.to_vec();
    want.sort();
    for cond in ["a.id = b.aid", "a.id + 0 = b.aid"] {
        let q = format!("SELECT a.id, b.bid FROM a {kind} JOIN b ON {cond}");
        assert_eq!(pairs(db, &q), want, "{q}");
    }
}

#[test]
fn outer_joins_keep_rows_without_a_partner() {
    let dir = tempfile::TempDir::new().unwrap();
    let db = Database::create(dir.path().join("t.db"), DBConfig::default()).unwrap();
    db.execute("CREATE TABLE a (id BIGINT, x BIGINT)").unwrap();
    db.execute("CREATE TABLE b (bid BIGINT, aid BIGINT)").unwrap();
    // both inputs empty, then only the right one filled
    check(&db, "FULL", &[]);
    db.execute("INSERT INTO b VALUES (100, 1), (101, 1), (102, 7), (103, NULL), (104, 0)").unwrap();
    let all_right = [(None, Some(100)), (None, Some(101)), (None, Some(102)), (None, Some(103)), (None, Some(104))];
    check(&db, "RIGHT", &all_right);
    check(&db, "FULL", &all_right);
    check(&db, "LEFT", &[]);
    db.execute("INSERT INTO a VALUES (1, 10), (2, 20), (3, 30), (7, 70), (7, 71), (9, 90)").unwrap();
    let matched = [(Some(1), Some(100)), (Some(1), Some(101)), (Some(7), Some(102)), (Some(7), Some(102))];
    let left_only = [(Some(2), None), (Some(3), None), (Some(9), None)];
    let right_only = [(None, Some(103)), (None, Some(104))];
    check(&db, "INNER", &matched);
    check(&db, "LEFT", &[&matched[..], &left_only[..]].concat());
    check(&db, "RIGHT", &[&matched[..], &right_only[..]].concat());
    check(&db, "FULL", &[&matched[..], &left_only[..], &right_only[..]].concat());
}
