// replay for obligation C19.cmp_matches_math[BigUInt,Double/big] (harness c19_find_math_biguint_double)
// harness-file: c19_types.rs
// failed: cmp_matches_math
// native outcome when recorded: panicked: thread 'types::__verif_c19_types::kani_concrete_playback_c19_find_math_biguint_double_12334915695779769955' (14035) panicked at /var/tmp/axv-c19-6fdwgloi/src/crates/axmos-db/src/__verif/c19_types.rs:427:1: | cmp_matches_math
// re-run: /verif/bin/check --replay /verif/replays/C19/c19_find_math_biguint_double.rs
#[test]
fn kani_concrete_playback_c19_find_math_biguint_double_12334915695779769955() {
    let concrete_vals: Vec<Vec<u8>> = vec![
        // 18446744073709550592ul
        vec![0, 252, 255, 255, 255, 255, 255, 255],
        // 1.844674e+19
        vec![0, 0, 0, 0, 0, 0, 240, 67],
    ];
    kani::concrete_playback_run(concrete_vals, c19_find_math_biguint_double);
}

#[test]
fn kani_concrete_playback_c19_find_math_biguint_double_4700438481507028219() {
    let concrete_vals: Vec<Vec<u8>> = vec![
        // 4611686018427387904ul
        vec![0, 0, 0, 0, 0, 0, 0, 64],
        // 0
        vec![0, 0, 0, 0, 0, 0, 0, 0],
    ];
    kani::concrete_playback_run(concrete_vals, c19_find_math_biguint_double);
}

