// host: types/blob.rs
// Native scenario for C16.like_matcher_makes_progress: LIKE over every data string of length <= 5 and every pattern of
// length <= 5 over {a, b, %, _, \} must return (and agree with a plain recursive matcher); a watchdog turns a hang
// into a failure.
use super::*;
use std::sync::mpsc;
use std::time::Duration;

fn reference(d: &[u8], p: &[u8]) -> bool {
    if p.is_empty() {
        return d.is_empty();
    }
    match p[0] {
        b'%' => (0..=d.len()).any(|k| reference(&d[k..], &p[1..])),
        b'_' => !d.is_empty() && reference(&d[1..], &p[1..]),
        b'\\' if p.len() > 1 => !d.is_empty() && d[0] == p[1] && reference(&d[1..], &p[2..]),
        c => !d.is_empty() && d[0] == c && reference(&d[1..], &p[1..]),
    }
}

fn strings(alpha: &[u8], max: usize) -> Vec<Vec<u8>> {
    let mut out = vec![vec![]];
    let mut last = vec![vec![]];
    for _ in 0..max {
        let mut next = Vec::new();
        for s in &last {
            for &c in alpha {
                let mut t: Vec<u8> = s.clone();
                t.push(c);
                next.push(t);
            }
        }
        out.extend(next.iter().cloned());
        last = next;
    }
    out
}

#[test]
fn like_returns_for_every_small_pattern() {
    let (tx, rx) = mpsc::channel();
    std::thread::spawn(move || {
        let mut wrong: Option<(Vec<u8>, Vec<u8>, bool)> = None;
        for d in strings(b"ab", 5) {
            let mut enc = vec![(2 * d.len()) as u8];      // length prefix of a short blob, as the Kani harness builds it
            enc.extend_from_slice(&d);
            let blob = BlobRef::from(&enc[..]);
            for p in strings(b"ab%_\\", 5) {
                let got = blob.like_bytes(&p).unwrap();
                // a trailing lone backslash has no agreed meaning: only termination is demanded there
                let lone = { let mut k = 0; let mut esc = false; while k < p.len() { if !esc && p[k] == b'\\' { esc = true } else { esc = false } k += 1 } esc };
                if !lone && got != reference(&d, &p) && wrong.is_none() {
                    wrong = Some((d.clone(), p.clone(), got));
                }
            }
        }
        let _ = tx.send(wrong);
    });
    match rx.recv_timeout(Duration::from_secs(60)) {
        Err(_) => panic!("LIKE does not return for some data/pattern of length <= 5"),
        Ok(Some((d, p, got))) => panic!("LIKE({:?}, {:?}) = {got}, the reference says otherwise", String::from_utf8_lossy(&d), String::from_utf8_lossy(&p)),
        Ok(None) => {}
    }
}
