// host: multithreading/coordinator.rs
// Native replay for C04.committed_before[xmax=None,future id]: a transaction id allocated AFTER the snapshot was
// taken must never count as "committed before the snapshot", also when nothing had committed yet (xmax = None).
use super::*;
use std::collections::HashSet;

#[test]
fn future_transaction_is_not_committed_before_snapshot() {
    let snap = Snapshot::new(5, 5, None, HashSet::new(), HashSet::new());
    assert!(!snap.is_committed_before_snapshot(9), "id 9 > own id 5 was not even started when the snapshot was taken, yet counts as committed");
}
