// replay for obligation C09.config_persist[big_min_keys] (harness c09_config_persist_big_min_keys)
// harness-file: c09_page.rs
// failed: persist_min_keys
// native outcome when recorded: panicked: thread 'storage::page::__verif_c09_page::kani_concrete_playback_c09_config_persist_big_min_keys_10682155325993519110' (1815) panicked at /var/tmp/axv-c09-jtz3qqvh/src/crates/axmos-db/src/__verif/c09_page.rs:270:5: | persist_min_keys
// re-run: /verif/bin/check --replay /verif/replays/C09/c09_config_persist_big_min_keys.rs
#[test]
fn kani_concrete_playback_c09_config_persist_big_min_keys_10682155325993519110() {
    let concrete_vals: Vec<Vec<u8>> = vec![
        // 16
        vec![16, 0, 0, 0],
        // 65535ul
        vec![255, 255, 0, 0, 0, 0, 0, 0],
        // 18446744073709551615ul
        vec![255, 255, 255, 255, 255, 255, 255, 255],
        // 255ul
        vec![255, 0, 0, 0, 0, 0, 0, 0],
        // 18446744073709551615ul
        vec![255, 255, 255, 255, 255, 255, 255, 255],
    ];
    kani::concrete_playback_run(concrete_vals, c09_config_persist_big_min_keys);
}

