"""Engine M: obligations decided by z3 (cross-checked by cvc5) over paths extracted from the rustc MIR of the real
functions (mirsmt.py).  The MIR is dumped from the scratch copy of /repo's working tree on every run."""
import json, os, re, subprocess, sys, time, traceback, shutil
from . import mirsmt
from .mirsmt import Unsupported, Leaf, Agg, Ref, Cell, Unit, bvconst, fold
from .common import HARNESS_DIR, REPLAY_DIR, VERIF, Scratch, base_env, log, run, tier_rank, CRATE_REL

Z3 = "/usr/bin/z3"
CVC5 = shutil.which("cvc5") or "cvc5"
NATIVE_DIR = os.path.join(HARNESS_DIR, "native")


# =====================================================================================================================
# infrastructure
# =====================================================================================================================
class Env:
    def __init__(self, mirpath, srcdir):
        self.mir = mirsmt.MirFile(mirpath)
        self.src = srcdir  # crate src dir of the scratch copy
        self.queries = 0
        self.solver_s = 0.0
        self.log = []

    # ---- source helpers (field order / enum variant order are read from the source, never hard-coded) ----------------
    def read(self, rel):
        return open(os.path.join(self.src, rel), errors="replace").read()

    def struct_fields(self, rel, name):
        txt = strip_comments(self.read(rel))
        m = re.search(r"struct\s+" + re.escape(name) + r"\s*(?:<[^>{]*>)?\s*\{", txt)
        if not m:
            raise Unsupported(f"struct {name} not found in {rel}")
        body = balanced_block(txt, m.end() - 1)
        fields = []
        for part in mirsmt.split_top(body):
            part = re.sub(r"#\[[^\]]*\]", "", part).strip()
            mm = re.match(r"^(?:pub(?:\([^)]*\))?\s+)?(\w+)\s*:", part)
            if mm:
                fields.append(mm.group(1))
        return fields

    def const_value(self, rel, name, _depth=0):
        """integer value of `const NAME: ty = <expr>;` in a source file (expr over literals and other consts of that file)"""
        txt = strip_comments(self.read(rel))
        m = re.search(r"const\s+" + re.escape(name) + r"\s*:\s*[\w:]+\s*=\s*([^;]+);", txt)
        if not m or _depth > 6:
            raise Unsupported(f"const {name} not found in {rel}")
        expr = re.sub(r"\bas\s+\w+", "", m.group(1))
        expr = re.sub(r"(\d)_(?=\d)", r"\1", expr)
        expr = re.sub(r"(\d)(?:_?(?:u|i)(?:8|16|32|64|size))\b", r"\1", expr)

        def repl(mm):
            return str(self.const_value(rel, mm.group(0), _depth + 1))
        expr = re.sub(r"\b[A-Z][A-Z0-9_]+\b", repl, expr)
        if not re.match(r"^[\d\s+*/()<>-]+$", expr):
            raise Unsupported(f"const {name}: expression not understood: {expr}")
        return int(eval(expr.replace("/", "//"), {"__builtins__": {}}))

    def enum_variants(self, rel, name):
        txt = strip_comments(self.read(rel))
        m = re.search(r"enum\s+" + re.escape(name) + r"\s*(?:<[^>{]*>)?\s*\{", txt)
        if not m:
            raise Unsupported(f"enum {name} not found in {rel}")
        body = balanced_block(txt, m.end() - 1)
        out = {}
        i = 0
        for part in mirsmt.split_top(body):
            part = re.sub(r"#\[[^\]]*\]", "", part).strip()
            mm = re.match(r"^(\w+)", part)
            if mm:
                md = re.search(r"=\s*(0x[0-9a-fA-F]+|\d+)\s*$", part)
                if md:
                    i = int(md.group(1), 0)
                out[mm.group(1)] = i
                i += 1
        return out

    # ---- solver ------------------------------------------------------------------------------------------------------
    def check(self, ctx, assertions, want_values=None, extra_decls=""):
        """assertions: list of SMT Bool terms, each checked on its own (push/pop).  Returns list of dicts
        {z3, cvc5, verdict, model} ; verdict in sat/unsat/inconclusive."""
        pre = ctx.preamble() + "\n" + extra_decls + "\n"
        script = pre
        for a in assertions:
            script += f"(push 1)\n(assert {a})\n(check-sat)\n(pop 1)\n"
        t0 = time.time()
        rz = run_solver([Z3, "-in", "-T:120"], script)
        rc = run_solver([CVC5, "--lang", "smt2", "--incremental", "--tlimit=120000"], script)
        self.solver_s += time.time() - t0
        self.queries += len(assertions)
        out = []
        for i, a in enumerate(assertions):
            z = rz[i] if i < len(rz) else "missing"
            c = rc[i] if i < len(rc) else "missing"
            if z in ("sat", "unsat") and z == c:
                v = z
            elif z in ("sat", "unsat") and c in ("unknown", "timeout", "missing"):
                v = "inconclusive:cvc5=" + c  # one solver alone is not accepted
            else:
                v = f"inconclusive:z3={z},cvc5={c}"
            d = {"z3": z, "cvc5": c, "verdict": v, "model": None}
            if v == "sat" and want_values:
                vals = " ".join(want_values)
                s2 = pre + f"(assert {a})\n(check-sat)\n(get-value ({vals}))\n"
                txt = run_solver_raw([Z3, "-in", "-T:120"], s2)
                d["model"] = parse_get_value(txt, want_values)
            out.append(d)
        return out


class OnlineZ3:
    """one `z3 -in` process kept alive for branch-feasibility questions during path exploration (push / check-sat / pop).
    `unknown` counts as feasible.  Every branch it rules out is recorded by the executor and re-checked by cvc5."""

    def __init__(self, ctx, pre):
        self.ctx, self.sent, self.n, self.t = ctx, set(), 0, 0.0
        self.p = subprocess.Popen([Z3, "-in"], stdin=subprocess.PIPE, stdout=subprocess.PIPE, stderr=subprocess.STDOUT, text=True)
        self._w("(set-logic ALL)\n(set-option :timeout 20000)\n")
        self.pre = pre

    def _w(self, txt):
        self.p.stdin.write(txt)

    def _decls(self):
        out = []
        for n, s_ in self.ctx.decls.items():
            if n not in self.sent:
                self.sent.add(n)
                out.append(f"(declare-const {n} {s_})")
        for n, (a, r) in self.ctx.ufs.items():
            if n not in self.sent:
                self.sent.add(n)
                out.append(f"(declare-fun {n} ({' '.join(a)}) {r})")
        return "\n".join(out) + "\n"

    def __call__(self, pc):
        t0 = time.time()
        self.n += 1
        self._w(self._decls() + "(push 1)\n" + "".join(f"(assert {t})\n" for t in self.pre + list(pc) if t != "true")
                + "(check-sat)\n(pop 1)\n")
        self.p.stdin.flush()
        while True:
            ln = self.p.stdout.readline()
            if not ln:
                raise Unsupported("online z3 died")
            ln = ln.strip()
            if ln in ("sat", "unsat", "unknown", "timeout"):
                break
            if ln.startswith("(error"):
                raise Unsupported("online z3: " + ln[:200])
        self.t += time.time() - t0
        return ln != "unsat"

    def close(self):
        try:
            self.p.stdin.close()
            self.p.kill()
        except Exception:  # noqa
            pass


def cvc5_all_unsat(env, ctx, assertions):
    """cross-check by the second solver of branches the first one ruled out online: every assertion must be unsat.
    One incremental cvc5 session; returns the list of verdicts that are not `unsat` (empty = agreement)."""
    if not assertions:
        return []
    script = ctx.preamble() + "\n" + "".join(f"(push 1)\n(assert {a})\n(check-sat)\n(pop 1)\n" for a in assertions)
    t0 = time.time()
    r = run_solver([CVC5, "--lang", "smt2", "--incremental", "--tlimit-per=20000"], script)
    env.solver_s += time.time() - t0
    env.queries += len(assertions)
    bad = [v for v in r[:len(assertions)] if v != "unsat"]
    if len(r) < len(assertions):
        bad.append("missing answers: %d of %d" % (len(r), len(assertions)))
    return bad


def run_solver_raw(cmd, script):
    try:
        p = subprocess.run(cmd, input=script, capture_output=True, text=True, timeout=300)
        return p.stdout + p.stderr
    except subprocess.TimeoutExpired:
        return "timeout"


def run_solver(cmd, script):
    txt = run_solver_raw(cmd, script)
    if "(error" in txt:
        return ["error:" + txt[txt.index("(error"):][:160]] * 1000
    return [l.strip() for l in txt.splitlines() if l.strip() in ("sat", "unsat", "unknown", "timeout")]


def _sexps(txt):
    """top-level s-expressions of txt as strings"""
    out, d, cur, inbar = [], 0, "", False
    for ch in txt:
        if ch == "|":
            inbar = not inbar
        if not inbar:
            if ch == "(":
                d += 1
            elif ch == ")":
                d -= 1
        if d == 0 and not inbar and ch.isspace():
            if cur.strip():
                out.append(cur.strip())
            cur = ""
        else:
            cur += ch
            if d == 0 and not inbar and ch == ")":
                out.append(cur.strip())
                cur = ""
    if cur.strip():
        out.append(cur.strip())
    return out


def _val(v):
    v = v.strip()
    if v.startswith("#x"):
        return int(v[2:], 16)
    if v.startswith("#b"):
        return int(v[2:], 2)
    if v in ("true", "false"):
        return v == "true"
    m = re.match(r"\(_ bv(\d+)", v)
    if m:
        return int(m.group(1))
    return v


def parse_get_value(txt, wanted=None):
    """z3 answers `((t1 v1) (t2 v2) ...)` in the order asked: map the requested term strings to python values"""
    i = txt.find("((")
    if i < 0:
        return {}
    body = _sexps(txt[i:])
    if not body:
        return {}
    pairs = _sexps(body[0][1:-1])
    m = {}
    for k, pr in enumerate(pairs):
        parts = _sexps(pr[1:-1])
        if len(parts) >= 2:
            key = wanted[k] if wanted and k < len(wanted) else parts[0]
            m[key] = _val(parts[-1])
    return m


def strip_comments(txt):
    txt = re.sub(r"//[^\n]*", "", txt)
    return re.sub(r"/\*.*?\*/", "", txt, flags=re.S)


def balanced_block(txt, open_idx):
    d = 0
    for i in range(open_idx, len(txt)):
        if txt[i] == "{":
            d += 1
        elif txt[i] == "}":
            d -= 1
            if d == 0:
                return txt[open_idx + 1:i]
    raise Unsupported("unbalanced block")


def conj(terms):
    terms = [t for t in terms if t != "true"]
    if not terms:
        return "true"
    if len(terms) == 1:
        return terms[0]
    return "(and " + " ".join(terms) + ")"


def disj(terms):
    if not terms:
        return "false"
    if len(terms) == 1:
        return terms[0]
    return "(or " + " ".join(terms) + ")"


# ---- call models shared by obligations ---------------------------------------------------------------------------------
def model_try_branch(ex, path, frame, callee, args, dest_ty):
    """<Result<T,E> as Try>::branch(r) / <Option<T> as Try>::branch : Continue(payload) | Break(residual)"""
    r = args[0]
    if not isinstance(r, Agg):
        return NotImplemented
    is_opt = re.match(r"^<(std::option::|core::option::)?Option<", callee.strip()) is not None
    out = Agg(ex.ctx, None, dest_ty)
    d = r.get_disc()
    cont_idx, brk_idx = (1, 0) if is_opt else (0, 1)   # Option: Some=1 continues; Result: Ok=0 continues
    one, zero = bvconst(1, 64), bvconst(0, 64)
    out.disc = Leaf(fold(f"(ite (= {d.term} {bvconst(cont_idx, 64)}) {zero} {one})"), "isize")
    cv = mirsmt.const_of(d.term)
    if cv is not None:
        out.disc = Leaf(zero if cv == cont_idx else one, "isize")
    cont = Agg(ex.ctx, None, "Continue")
    okname = "Some" if is_opt else "Ok"
    okv = r.variant_cell(okname).val
    if isinstance(okv, Agg) and "0" in okv.fields:
        cont.fields["0"] = Cell(okv.fields["0"].val)
    elif isinstance(okv, Agg) and okv.name is not None:
        # payload type = generic arg of ControlFlow<.., T>
        pty = mirsmt.split_top(dest_ty[dest_ty.index("<") + 1:-1])[-1].strip() if "<" in dest_ty else "()"
        cont.fields["0"] = okv.field_cell("0", pty)
    out.variants["Continue"] = Cell(cont)
    brk = Agg(ex.ctx, None, "Break")
    resid = Agg(ex.ctx, None, "residual")
    resid.disc = Leaf(bvconst(0 if is_opt else 1, 64), "isize")
    if not is_opt:
        resid.variants["Err"] = r.variant_cell("Err")
    brk.fields["0"] = Cell(resid)
    out.variants["Break"] = Cell(brk)
    return out


def model_from_residual(ex, path, frame, callee, args, dest_ty):
    out = Agg(ex.ctx, None, dest_ty)
    is_opt = dest_ty.strip().startswith(("Option<", "std::option::Option<"))
    out.disc = Leaf(bvconst(0 if is_opt else 1, 64), "isize")
    out.from_residual = True
    if not is_opt:
        e = Agg(ex.ctx, ex.ctx.fresh("converted_err"), "Err")
        out.variants["Err"] = Cell(e)
    return out


def model_hashset_contains(ex, path, frame, callee, args, dest_ty):
    s, k = args[0], args[1]
    if not (isinstance(s, Ref) and isinstance(s.cell.val, Agg) and s.cell.val.name):
        return NotImplemented
    key = k.cell.val if isinstance(k, Ref) else k
    if not isinstance(key, Leaf):
        return NotImplemented
    uf = ex.ctx.uf("in:" + s.cell.val.name, [mirsmt.sort_of(key.ty)], "Bool")
    return Leaf(f"({uf} {key.term})", "bool")


def model_map_err(ex, path, frame, callee, args, dest_ty):
    """Result::map_err / Result::map / Option::ok_or(_else): the discriminant is preserved, the mapped payload is fresh"""
    r = args[0]
    if not isinstance(r, Agg):
        return NotImplemented
    out = Agg(ex.ctx, ex.ctx.fresh("mapped"), dest_ty)
    d = r.get_disc()
    if re.search(r"Option::<.*>::ok_or", callee):   # Some(1) -> Ok(0), None(0) -> Err(1)
        out.disc = Leaf(fold(f"(ite (= {d.term} {bvconst(1, 64)}) {bvconst(0, 64)} {bvconst(1, 64)})"), "isize")
    else:
        out.disc = d
    if "::map_err" in callee and "Ok" in r.variants:
        out.variants["Ok"] = r.variants["Ok"]
    path.events.append({"callee": callee, "args": args, "ret": out, "fn": frame.func.name.split("::")[-1],
                        "argdesc": [mirsmt.describe(a) for a in args], "modelled": True})
    return out


def model_min_max(ex, path, frame, callee, args, dest_ty):
    if len(args) != 2:
        return NotImplemented
    a, b = args[0], args[1]
    if not (isinstance(a, Leaf) and isinstance(b, Leaf) and a.ty in mirsmt.INT_W):
        return NotImplemented
    sg = a.ty in mirsmt.SIGNED
    lt = "bvslt" if sg else "bvult"
    ca, cb = mirsmt.const_of(a.term), mirsmt.const_of(b.term)
    if isinstance(ca, int) and isinstance(cb, int) and not sg and not isinstance(ca, bool):
        is_min = re.search(r"::min(::<.*>)?$", callee) is not None
        return Leaf(bvconst(min(ca, cb) if is_min else max(ca, cb), mirsmt.INT_W[a.ty]), a.ty)
    if re.search(r"::min(::<.*>)?$", callee):
        return Leaf(f"(ite ({lt} {a.term} {b.term}) {a.term} {b.term})", a.ty)
    return Leaf(f"(ite ({lt} {a.term} {b.term}) {b.term} {a.term})", a.ty)


def model_slice_len(ex, path, frame, callee, args, dest_ty):
    return ex.ctx.sym(ex.ctx.fresh("len"), "usize")


def model_opt_is(ex, path, frame, callee, args, dest_ty):
    o = args[0].cell.val if isinstance(args[0], Ref) else args[0]
    if not isinstance(o, Agg):
        return NotImplemented
    want = 0 if callee.endswith("is_none") else 1
    return Leaf(fold(f"(= {o.get_disc().term} {bvconst(want, 64)})"), "bool")


COMMON_MODELS = {
    r"^Option::<[^()]*>::is_(none|some)$": model_opt_is,
    r"(^|::)(min|max)(::<.*>)?$": model_min_max,
    r"(<impl \[T\]>|slice::<impl \[.*\]>|^core::slice::<impl \[.*\]>)::len$": model_slice_len,
    r"^Result::<.*>::map_err::<": model_map_err,
    r"^Result::<.*>::map::<": model_map_err,
    r"^Option::<.*>::ok_or(_else)?::<": model_map_err,
    r" as Try>::branch$": model_try_branch,
    r" as FromResidual<.*>>::from_residual$": model_from_residual,
    r"^HashSet::<u64>::contains::<u64>$": model_hashset_contains,
}


def callee_is(ev, rx):
    return re.search(rx, ev["callee"]) is not None


def ret_is_ok(rv):
    """SMT condition (term) that a Result/Option-like return value is Ok / Some-free success (disc == 0)"""
    if isinstance(rv, Agg):
        return f"(= {rv.get_disc().term} {bvconst(0, 64)})"
    raise Unsupported("return value is not a Result aggregate: " + repr(rv))


def explore(env, file_hint, name, sig=None, inline=None, pure=None, enums=None, models=None, args=None,
            loop_bound=2):
    key = None
    if args is None and models is None:
        key = (file_hint, name, sig, json.dumps(sorted((inline or {}).keys())), json.dumps(sorted(pure or [])), loop_bound)
        cache = env.__dict__.setdefault("_explore_cache", {})
        if key in cache:
            return cache[key]
    out = _explore(env, file_hint, name, sig, inline, pure, enums, models, args, loop_bound)
    if key is not None:
        env._explore_cache[key] = out
    return out


def _explore(env, file_hint, name, sig, inline, pure, enums, models, args, loop_bound):
    ctx = mirsmt.Ctx()
    f = env.mir.find(file_hint, name, sig)
    mdl = dict(COMMON_MODELS)
    mdl.update(models or {})
    ex = mirsmt.Executor(env.mir, ctx, inline=inline or {}, models=mdl, enums=enums or {}, pure=pure or [],
                         loop_bound=loop_bound, max_paths=30000)
    a = args(ctx, f) if args else [ctx.sym("p%d" % i if not n.startswith("_") else n, t) for i, (n, t) in enumerate(f.params)]
    res = ex.run(f, a)
    return ctx, f, a, res


def result(ob, status, **kw):
    r = {"id": ob["id"], "engine": "mirsmt", "status": status, "failed": [], "solver_s": 0.0,
         "bounds": ob.get("bounds", ""), "funcs": ob.get("funcs", ""), "tier": ob.get("tier", "quick"),
         "assume": ob.get("assume", ""), "native": ob.get("native")}
    r.update(kw)
    return r


def trace_obligation(env, ob, ctx, res, violated_fn, what, cuts_ok=False):
    """Generic 'every feasible path satisfies P(events, ret)' obligation.  violated_fn(path, rv) -> None | (msg, extra_cond)
    extra_cond is an SMT term that must hold together with the path condition for the violation to be real."""
    cands, cuts = [], []
    n_paths = 0
    for path, rv in res:
        n_paths += 1
        if path.cut:
            if not cuts_ok:      # cuts_ok: the loop bound is part of the stated claim, longer iterations are outside it
                cuts.append(path)
            continue
        v = violated_fn(path, rv)
        if v:
            cands.append((path, rv, v))
    # feasibility of each candidate path (and of cut paths) is a solver question
    asserts = [conj(p.pc + ([v[1]] if v[1] else [])) for (p, rv, v) in cands] + [conj(p.pc) for p in cuts]
    # vacuity witness: at least one non-violating complete path is feasible
    good = [conj(p.pc) for (p, rv) in res if not p.cut and not p.panics and not violated_fn(p, rv)][:1]
    chk = env.check(ctx, asserts + good) if (asserts or good) else []
    msgs, incon = [], []
    for (p, rv, v), c in zip(cands, chk[:len(cands)]):
        if c["verdict"] == "sat":
            msgs.append((v[0], p))
        elif c["verdict"] != "unsat":
            incon.append(c["verdict"])
    for p, c in zip(cuts, chk[len(cands):len(cands) + len(cuts)]):
        if c["verdict"] != "unsat":
            incon.append("feasible path cut: " + p.cut)
    if good and chk[-1]["verdict"] != "sat":
        incon.append("vacuity: no feasible conforming path")
    if not good and not cands:
        incon.append("vacuity: no complete path")
    kw = dict(paths=n_paths, queries=len(asserts) + len(good))
    if msgs:
        ev = [short_events(p) for (_, p) in msgs[:3]]
        return result(ob, "violated", failed=sorted({m for m, _ in msgs}), cex={"events": ev, "what": what}, **kw)
    if incon:
        return result(ob, "inconclusive", reason="; ".join(sorted(set(incon)))[:300], **kw)
    return result(ob, "discharged", **kw)


def short_events(p):
    return [mirsmt.short(e["callee"]) for e in p.events]


# =====================================================================================================================
# obligations
# =====================================================================================================================
OBLS = []


def obligation(**meta):
    def deco(fn):
        meta["run"] = fn
        meta.setdefault("tier", "quick")
        meta["props"] = [meta["id"].split(".")[0]] + [p for p in meta.get("also", "").split(",") if p]
        OBLS.append(meta)
        return fn
    return deco


# ---------------------------------------------------------------------------------------------------------------------
# C04: visibility predicate  (world model: st(t) in {NOTSTARTED, ACTIVE, COMMITTED, ABORTED} at snapshot time)
# ---------------------------------------------------------------------------------------------------------------------
NOTSTARTED, ACTIVE, COMMITTED, ABORTED = "#b000", "#b001", "#b011", "#b100"
COORD = "multithreading/coordinator.rs"


def snapshot_world(env, ctx, snap, probes):
    """Assumptions tying a symbolic Snapshot to the abstract world state at the instant the snapshot was taken
    (what TransactionCoordinator::snapshot documents; its construction loop is assumed, not encoded here)."""
    names = env.struct_fields(COORD, "Snapshot")
    ix = {n: str(i) for i, n in enumerate(names)}
    xid = snap.field_cell(ix["xid"], "u64").val.term
    xmax = snap.field_cell(ix["xmax"], "std::option::Option<u64>").val
    xmax_d = xmax.get_disc().term
    m = xmax.variant_cell("Some").val.field_cell("0", "u64").val.term
    xmin = snap.field_cell(ix["xmin"], "u64").val.term
    act = ctx.uf("in:" + snap.field_cell(ix["active_txs"], "std::collections::HashSet<u64>").val.name, ["(_ BitVec 64)"], "Bool")
    abo = ctx.uf("in:" + snap.field_cell(ix["aborted_txs"], "std::collections::HashSet<u64>").val.name, ["(_ BitVec 64)"], "Bool")
    decl = "(declare-fun st ((_ BitVec 64)) (_ BitVec 3))\n"
    some = f"(= {xmax_d} {bvconst(1, 64)})"
    none = f"(= {xmax_d} {bvconst(0, 64)})"
    A = [f"(or {some} {none})", f"(bvule {xmin} {xid})",
         f"(= (st {xid}) {ACTIVE})", f"(not ({act} {xid}))", f"(not ({abo} {xid}))",
         f"(=> {some} (and (= (st {m}) {COMMITTED}) (bvult {m} {xid})))"]
    for u in probes + [m]:
        A += [f"(or (= (st {u}) {NOTSTARTED}) (= (st {u}) {ACTIVE}) (= (st {u}) {COMMITTED}) (= (st {u}) {ABORTED}))",
              f"(=> (not (= {u} {xid})) (= ({act} {u}) (= (st {u}) {ACTIVE})))",
              f"(=> (not (= {u} {xid})) (= ({abo} {u}) (= (st {u}) {ABORTED})))",
              f"(= (= (st {u}) {NOTSTARTED}) (bvugt {u} {xid}))",
              f"(=> (= (st {u}) {ACTIVE}) (bvule {xmin} {u}))",   # xmin = smallest active id (own id if none)
              f"(=> (and {some} (= (st {u}) {COMMITTED})) (bvule {u} {m}))",
              f"(=> {none} (not (= (st {u}) {COMMITTED})))"]
    return dict(xid=xid, some=some, none=none, m=m, decl=decl, A=A, act=act, abo=abo)


def run_visibility(env, ob, fn_name, file_hint, region, spec_builder, finding_region=False):
    inline = {r"^Snapshot::is_committed_before_snapshot$": (COORD, "is_committed_before_snapshot", None),
              r"^Snapshot::xid$": (COORD, "xid", r"&Snapshot\) -> u64")}
    ctx, f, args, res = explore(env, file_hint, fn_name, inline=inline)
    W = spec_builder(env, ctx, args)
    rets = []
    for path, rv in res:
        if path.cut or path.panics or not isinstance(rv, Leaf):
            raise Unsupported(f"unexpected path outcome in {fn_name}: cut={path.cut} panics={path.panics} rv={rv!r}")
        rets.append((path, rv))
    pre = conj(W["A"] + [region(W)])
    bad = disj([conj(p.pc + [f"(not (= {rv.term} {W['spec']}))"]) for p, rv in rets])
    witness = conj([pre, disj([conj(p.pc) for p, rv in rets])])
    r = env.check(ctx, [conj([pre, bad]), witness], want_values=W["values"], extra_decls=W["decl"])
    kw = dict(paths=len(rets), queries=2)
    if r[1]["verdict"] != "sat":
        return result(ob, "inconclusive", reason="vacuity: assumptions unsatisfiable or solver: " + r[1]["verdict"], **kw)
    if r[0]["verdict"] == "unsat":
        return result(ob, "discharged", **kw)
    if r[0]["verdict"] == "sat":
        res_ = result(ob, "violated", failed=[ob["assert"]], cex={"model": r[0]["model"], "fn": fn_name}, **kw)
        try:
            res_["native_code"] = W["gen"](ob, r[0]["model"] or {})
        except Exception as e:  # noqa
            res_["cex"]["gen_error"] = repr(e)
        return res_
    return result(ob, "inconclusive", reason=r[0]["verdict"], **kw)


def spec_committed_before(env, ctx, args):
    snap = args[0].cell.val
    t = args[1].term
    W = snapshot_world(env, ctx, snap, [t])
    W["t"] = t
    W["spec"] = f"(= (st {t}) {COMMITTED})"
    W["values"] = [W["xid"], t, W["m"], W["some"], W["spec"], f"({W['act']} {t})", f"({W['abo']} {t})"]
    W["gen"] = gen_committed_before(W)
    return W


def _sets_code(model, W, ids):
    """Rust statements filling `active` / `aborted` HashSets consistently with the model for the probed ids"""
    out = []
    for u in ids:
        uv = model.get(u)
        if uv is None:
            continue
        if model.get(f"({W['act']} {u})"):
            out.append(f"active.insert({uv}u64);")
        if model.get(f"({W['abo']} {u})"):
            out.append(f"aborted.insert({uv}u64);")
    return "\n    ".join(out)


def gen_committed_before(W):
    def gen(ob, model):
        t, xid = model[W["t"]], model[W["xid"]]
        xmax = f"Some({model[W['m']]}u64)" if model.get(W["some"]) else "None"
        expect = "true" if model.get(W["spec"]) else "false"
        name = "gen_" + re.sub(r"\W+", "_", ob["id"]).strip("_").lower()
        code = f"""// host: multithreading/coordinator.rs
// generated from the solver model of obligation {ob['id']}
use super::*;
use std::collections::HashSet;

#[test]
fn replay_model() {{
    let mut active: HashSet<u64> = HashSet::new();
    let mut aborted: HashSet<u64> = HashSet::new();
    {_sets_code(model, W, [W['t']])}
    let snap = Snapshot::new({xid}u64, {xid}u64, {xmax}, active, aborted);
    assert_eq!(snap.is_committed_before_snapshot({t}u64), {expect}, "reference world model says committed-before = {expect} for id {t} (own id {xid}, xmax {xmax})");
}}
"""
        return {"name": name, "code": code}
    return gen


def gen_valid_for_snapshot(env, W):
    lay = env.struct_fields("storage/tuple.rs", "TupleLayout")

    def gen(ob, model):
        xid, cx = model[W["xid"]], model[W["cx"]]
        xmax = f"Some({model[W['m']]}u64)" if model.get(W["some"]) else "None"
        dele = f"Some({model[W['d']]}u64)" if model.get(W["has_del"]) else "None"
        expect = "true" if model.get(W["spec"]) else "false"
        defaults = {"version_xmin": f"{cx}u64", "version_xmax": dele, "null_bitmap_start": "0", "key_offsets": "vec![0]",
                    "value_offsets": "vec![]", "data_end": "0", "version": "0"}
        fields = ", ".join(f"{f}: {defaults.get(f, 'Default::default()')}" for f in lay)
        name = "gen_" + re.sub(r"\W+", "_", ob["id"]).strip("_").lower()
        code = f"""// host: storage/tuple.rs
// generated from the solver model of obligation {ob['id']}
use super::*;
use std::collections::HashSet;

#[test]
fn replay_model() {{
    let mut active: HashSet<u64> = HashSet::new();
    let mut aborted: HashSet<u64> = HashSet::new();
    {_sets_code(model, W, [W['cx'], W['d']])}
    let snap = Snapshot::new({xid}u64, {xid}u64, {xmax}, active, aborted);
    let layout = TupleLayout {{ {fields} }};
    assert_eq!(layout.is_valid_for_snapshot(&snap), {expect}, "reference: version created by {cx} deleted by {dele} must be visible={expect} to transaction {xid} (snapshot xmax {xmax})");
}}
"""
        return {"name": name, "code": code}
    return gen


VIS_FUNCS = "Snapshot::is_committed_before_snapshot"
VIS_ASSUME = ("snapshot fields relate to the world state at snapshot time as TransactionCoordinator::snapshot documents "
              "(xmax = highest committed id, active/aborted sets exact, ids allocated monotonically, own id not in the "
              "sets); no transaction is mid-commit at that instant (see C04.snapshot_sets)")


@obligation(id="C04.committed_before[xmax=Some]", also="C18", funcs=VIS_FUNCS, bounds="all u64 ids, any snapshot with xmax = Some(m)",
            assume=VIS_ASSUME, **{"assert": "committed_before_matches_world"})
def c04_cb_some(env, ob):
    return run_visibility(env, ob, "is_committed_before_snapshot", COORD,
                          lambda W: conj([W["some"], f"(not (= {W['t']} {W['xid']}))"]), spec_committed_before)


@obligation(id="C04.committed_before[xmax=None,past id]", also="C18", funcs=VIS_FUNCS, bounds="all u64 ids t < xid, snapshot with xmax = None",
            assume=VIS_ASSUME, **{"assert": "committed_before_matches_world"})
def c04_cb_none_past(env, ob):
    return run_visibility(env, ob, "is_committed_before_snapshot", COORD,
                          lambda W: conj([W["none"], f"(bvult {W['t']} {W['xid']})"]), spec_committed_before)


def spec_valid_for_snapshot(env, ctx, args):
    lay = args[0].cell.val
    snap = args[1].cell.val
    names = env.struct_fields("storage/tuple.rs", "TupleLayout")
    ix = {n: str(i) for i, n in enumerate(names)}
    cx = lay.field_cell(ix["version_xmin"], "u64").val.term
    xo = lay.field_cell(ix["version_xmax"], "std::option::Option<u64>").val
    xo_d = xo.get_disc().term
    d = xo.variant_cell("Some").val.field_cell("0", "u64").val.term
    W = snapshot_world(env, ctx, snap, [cx, d])
    has_del = f"(= {xo_d} {bvconst(1, 64)})"
    W["A"].append(f"(or {has_del} (= {xo_d} {bvconst(0, 64)}))")
    creator_ok = f"(or (= {cx} {W['xid']}) (= (st {cx}) {COMMITTED}))"
    deleted = f"(and {has_del} (or (= {d} {W['xid']}) (= (st {d}) {COMMITTED})))"
    W["spec"] = f"(and {creator_ok} (not {deleted}))"
    W["cx"], W["d"], W["has_del"] = cx, d, has_del
    W["values"] = [W["xid"], cx, d, has_del, W["m"], W["some"], W["spec"], f"({W['act']} {cx})", f"({W['abo']} {cx})",
                   f"({W['act']} {d})", f"({W['abo']} {d})"]
    W["gen"] = gen_valid_for_snapshot(env, W)
    return W


VFS = "TupleLayout::is_valid_for_snapshot,Snapshot::is_committed_before_snapshot,Snapshot::xid"


def NOT_OWN_DELETE(W):
    """is_valid_for_snapshot's only caller (parse_for_snapshot) returns None before calling it when the newest version
    was deleted by the reader itself - that filter is obligation C04.own_delete_hides_older_versions - so versions with
    xmax == own xid are not a reachable input of this kernel."""
    return f"(not (and {W['has_del']} (= {W['d']} {W['xid']})))"


@obligation(id="C04.valid_for_snapshot[xmax=Some]", also="C18", funcs=VFS, assume=VIS_ASSUME,
            bounds="all u64 creator/deleter ids, deleter optional (deleter != reader: filtered by the caller), any snapshot with xmax = Some(m)",
            **{"assert": "version_visible_iff_creator_visible_and_not_deleted"})
def c04_vfs_some(env, ob):
    return run_visibility(env, ob, "is_valid_for_snapshot", "storage/tuple.rs",
                          lambda W: conj([W["some"], NOT_OWN_DELETE(W)]), spec_valid_for_snapshot)


@obligation(id="C04.valid_for_snapshot[xmax=None,no future id]", also="C18", funcs=VFS, assume=VIS_ASSUME,
            bounds="all creator/deleter ids <= xid, snapshot with xmax = None",
            **{"assert": "version_visible_iff_creator_visible_and_not_deleted"})
def c04_vfs_none_past(env, ob):
    return run_visibility(env, ob, "is_valid_for_snapshot", "storage/tuple.rs",
                          lambda W: conj([W["none"], f"(bvule {W['cx']} {W['xid']})", NOT_OWN_DELETE(W),
                                          f"(=> {W['has_del']} (bvule {W['d']} {W['xid']}))"]), spec_valid_for_snapshot)


@obligation(id="C04.snapshot_xmax_is_a_bound", also="C03", funcs="TransactionCoordinator::snapshot",
            bounds="every path of TransactionCoordinator::snapshot; callees uninterpreted",
            native="c04_future_txn_engine")
def c04_snapshot_xmax(env, ob):
    """The visibility predicate can only exclude transactions that start after the snapshot if the snapshot carries an
    upper bound: with xmax = None every id that is neither active nor aborted counts as committed (the kernel
    obligations above are stated for xmax = Some and for xmax = None with ids <= xid; ids above xid with xmax = None
    is exactly the state this obligation shows unreachable)."""
    ctx, f, args, res = explore(env, COORD, "snapshot", sig=r"TransactionCoordinator")

    def bad(path, rv):
        if path.panics or rv is None:
            return None
        news = [e for e in path.events if callee_is(e, r"^Snapshot::new$")]
        if not news:
            return ("snapshot_not_built_by_Snapshot_new", ret_is_ok(rv))
        xm = news[-1]["args"][2]
        if not isinstance(xm, Agg):
            return ("snapshot_xmax_not_an_option", None)
        d = xm.get_disc().term
        return ("snapshot_without_upper_bound", f"(= {d} {bvconst(0, 64)})")
    a = trace_obligation(env, ob, ctx, res, bad, "snapshot() can return a Snapshot whose xmax is None")

    # the active / aborted sets handed to the snapshot are the coordinator's WHOLE sets: the aborted set is also what the
    # index maintenance consults to recognise entries left by rolled-back transactions - ids above xmax included
    def bad_sets(path, rv):
        if path.panics or rv is None:
            return None
        news = [e for e in path.events if callee_is(e, r"^Snapshot::new$")]
        sets = [e for e in path.events if callee_is(e, r"TransactionCoordinator::transaction_set$")]
        if not news:
            return None
        got = {mirsmt.describe(e["ret"]) for e in sets}
        for k, what in ((3, "active"), (4, "aborted")):
            if k < len(news[-1]["argdesc"]) and news[-1]["argdesc"][k] not in got:
                return (f"{what}_set_of_the_snapshot_is_not_the_coordinators_whole_{what}_set", ret_is_ok(rv))
        return None
    b = trace_obligation(env, ob, ctx, res, bad_sets, "snapshot() filters or rebuilds the active / aborted set")
    return merge(a, b)


@obligation(id="C04.own_delete_hides_older_versions", also="C18", funcs="TupleReader::parse_for_snapshot,TupleLayout::is_valid_for_snapshot,Snapshot::is_committed_before_snapshot",
            bounds="every path of parse_for_snapshot with the version-chain loop unrolled once (newest version + one delta); "
                   "parse_last_version / DeltaHeader::read_from / value decoding uninterpreted",
            native="c04_own_delete_after_update")
def c04_own_delete(env, ob):
    """If the newest version carries xmax = the reader's own transaction (the reader deleted the row), the reader must
    get nothing - in particular not an older version dug out of the delta chain."""
    inline = {r"^Snapshot::is_committed_before_snapshot$": (COORD, "is_committed_before_snapshot", None),
              r"^Snapshot::xid$": (COORD, "xid", r"&Snapshot\) -> u64"),
              r"TupleLayout::is_valid_for_snapshot$": ("storage/tuple.rs", "is_valid_for_snapshot", None)}
    ctx, f, args, res = explore(env, "storage/tuple.rs", "parse_for_snapshot", inline=inline, loop_bound=1,
                                pure=[r"DeltaHeader::xmin$", r"DeltaHeader::version$"])
    lay_names = env.struct_fields("storage/tuple.rs", "TupleLayout")
    ixl = {n: str(i) for i, n in enumerate(lay_names)}
    sn = env.struct_fields(COORD, "Snapshot")
    spi = [i for i, (pn, pt) in enumerate(f.params) if "Snapshot" in pt][0]
    xid = args[spi].cell.val.field_cell(str(sn.index("xid")), "u64").val.term
    cands, witness = [], []
    for path, rv in res:
        if path.cut or path.panics or not isinstance(rv, Agg):
            continue
        pl = [e for e in path.events if callee_is(e, r"parse_last_version$")]
        if not pl or not isinstance(pl[0]["ret"], Agg):
            continue
        base = pl[0]["ret"].name + "@Ok.0"
        d0 = ctx.smtname(f"{base}.{ixl['version_xmax']}#d")
        x0 = ctx.smtname(f"{base}.{ixl['version_xmax']}@Some.0")
        if d0 not in ctx.decls or x0 not in ctx.decls:
            continue
        okd = mirsmt.const_of(rv.get_disc().term)
        if okd != 0:
            continue
        opt = rv.variants["Ok"].val.fields["0"].val
        od = opt.get_disc().term if isinstance(opt, Agg) else None
        if od is None:
            continue
        returned_some = f"(= {od} {bvconst(1, 64)})"
        own_delete = f"(and (= {d0} {bvconst(1, 64)}) (= {x0} {xid}))"
        witness.append(conj(path.pc + [own_delete]))
        cands.append(conj(path.pc + [own_delete, returned_some]))
    if not cands:
        return result(ob, "inconclusive", reason="vacuity: no completed path reads the newest version's xmax", paths=len(res))
    chk = env.check(ctx, [disj(cands), disj(witness)])
    kw = dict(paths=len(res), queries=2)
    if chk[1]["verdict"] != "sat":
        return result(ob, "inconclusive", reason="vacuity: own-delete state unreachable: " + chk[1]["verdict"], **kw)
    if chk[0]["verdict"] == "unsat":
        return result(ob, "discharged", **kw)
    if chk[0]["verdict"] == "sat":
        return result(ob, "violated", failed=["own_delete_returns_a_version"],
                      cex={"what": "newest version deleted by the reader itself, yet parse_for_snapshot returns Some(version)"}, **kw)
    return result(ob, "inconclusive", reason=chk[0]["verdict"], **kw)


# ---------------------------------------------------------------------------------------------------------------------
# C02 / C01 / C03: what the commit / rollback paths write to the log, and in which order
# ---------------------------------------------------------------------------------------------------------------------
CTXRS = "runtime/context.rs"
LOG_INLINE = {r"^TransactionLogger::log_commit$": (CTXRS, "log_commit", None),
              r"^TransactionLogger::log_abort$": (CTXRS, "log_abort", None),
              r"^TransactionLogger::log_end$": (CTXRS, "log_end", None)}
RX_COMMIT_REC = r"log_operation::<(\w+::)*Commit>"
RX_ABORT_REC = r"log_operation::<(\w+::)*Abort>"
RX_END_REC = r"log_operation::<(\w+::)*End>"


def idx(path, rx):
    return [i for i, e in enumerate(path.events) if callee_is(e, rx)]


@obligation(id="C02.abort_record_kind", funcs="TransactionLogger::log_abort,Session::abort_transaction", also="C03",
            bounds="every path of log_abort / Session::abort_transaction; callees uninterpreted (may fail)",
            native="c02_rollback_not_redo")
def c02_abort_kind(env, ob):
    ctx, f, args, res = explore(env, "tcp/session.rs", "abort_transaction", inline=LOG_INLINE)

    def bad(path, rv):
        if path.panics or rv is None:
            return None
        okc = ret_is_ok(rv)
        if idx(path, RX_COMMIT_REC):
            return ("rollback_logs_commit_record", None)
        if not idx(path, RX_ABORT_REC):
            # the only rollback that may return Ok without a record is the one that found the transaction already ended
            ended = [e for e in path.events if callee_is(e, r"(can_commit|is_active|is_open|is_finished|has_ended)$")
                     and isinstance(e["ret"], Leaf) and (f"(not {e['ret'].term})" in path.pc or e["ret"].term in path.pc)]
            if ended and not idx(path, RX_ABORT_TXN):
                return None
            return ("rollback_ok_without_abort_record", okc)
        return None
    return trace_obligation(env, ob, ctx, res, bad, "a rollback path appends a Commit record / returns Ok without an Abort record")


def commit_paths(env):
    """the four places that acknowledge a commit: Session::commit_transaction and the worker closures of
    Database::execute / explain / execute_batch"""
    out = []
    out.append(("Session::commit_transaction", explore(env, "tcp/session.rs", "commit_transaction", inline=LOG_INLINE)))
    out.append(("Database::execute::{closure#0}", explore(env, "src/lib.rs", "execute::{closure#0}", inline=LOG_INLINE)))
    out.append(("Database::execute_batch::{closure#1}", explore(env, "src/lib.rs", "execute_batch::{closure#1}", inline=LOG_INLINE)))
    return out


RX_COMMIT_TXN = r"TransactionContext::commit_transaction$"
RX_ABORT_TXN = r"TransactionContext::abort_transaction$"
RX_FLUSH = r"flush_wal$"


@obligation(id="C01.commit_order", also="C02",
            funcs="Session::commit_transaction,Database::execute::{closure#0},Database::execute_batch::{closure#1},TransactionLogger::log_commit,TransactionLogger::log_end",
            bounds="every path of the commit-acknowledging functions; callees uninterpreted (both outcomes)",
            native="c01_every_acknowledged_statement_is_forced")
def c01_commit_order(env, ob):
    agg = None
    for name, (ctx, f, args, res) in commit_paths(env):
        def bad(path, rv, name=name):
            if path.panics or rv is None:
                return None
            okc = ret_is_ok(rv)
            c, t, fl = idx(path, RX_COMMIT_REC), idx(path, RX_COMMIT_TXN), idx(path, RX_FLUSH)
            if not c:
                # COMMIT on a transaction that already ended is a no-op: nothing is acknowledged that is not in the log
                ended = [e for e in path.events if callee_is(e, r"(can_commit|is_active|is_open|is_finished|has_ended)$")
                         and isinstance(e["ret"], Leaf) and (f"(not {e['ret'].term})" in path.pc or e["ret"].term in path.pc)]
                if ended and not t:
                    return None
                return (f"ok_without_commit_record@{name}", okc)
            if not fl or fl[-1] < c[-1]:
                return (f"ok_without_force_after_commit_record@{name}", okc)
            if t and t[0] < c[0]:
                return (f"commit_applied_before_commit_record@{name}", okc)
            return None
        r = trace_obligation(env, ob, ctx, res, bad, "Ok returned without [Commit record] < [flush_wal]")
        agg = merge(agg, r)
    return agg


@obligation(id="C01.finished_transaction_logs_no_abort", also="C02",
            funcs="Session::abort_transaction,<Session as Drop>::drop,TransactionLogger::log_abort",
            bounds="every path of Session::abort_transaction and of the Drop impl of Session (which calls it); callees "
                   "uninterpreted", native="c01_session_dropped_after_commit")
def c01_no_abort_after_commit(env, ob):
    """A session is dropped after every use, also after its COMMIT returned.  Recovery reads the log in order and the last
    control record of a transaction decides its fate, so the rollback path may append an ABORT record only after it has
    established that the transaction has not ended yet; an unconditional ABORT behind a COMMIT un-commits acknowledged
    work at the next crash."""
    agg = None
    state_rx = r"(can_commit|is_active|is_open|is_finished|has_ended|state)$"
    for fn, hint in (("abort_transaction", "tcp/session.rs"), ("drop", "tcp/session.rs")):
        inl = dict(LOG_INLINE)
        if fn == "drop":
            inl[r"^Session::abort_transaction$"] = ("tcp/session.rs", "abort_transaction", None)
        ctx, f, args, res = explore(env, hint, fn, sig=r"&mut Session\)", inline=inl)

        def bad(path, rv, fn=fn):
            if path.panics:
                return None
            ab = idx(path, RX_ABORT_REC)
            if not ab:
                return None
            guards = [e for e in path.events[:ab[0]] if callee_is(e, state_rx) and isinstance(e["ret"], Leaf)
                      and (e["ret"].term in path.pc or f"(not {e['ret'].term})" in path.pc)]
            if not guards:
                return (f"abort_record_logged_without_checking_that_the_transaction_is_still_open@Session::{fn}", None)
            return None
        if not any(idx(p, RX_ABORT_REC) for p, rv in res):
            agg = merge(agg, result(ob, "inconclusive", reason=f"vacuity: Session::{fn} never logs an Abort record", paths=len(res)))
            continue
        agg = merge(agg, trace_obligation(env, ob, ctx, res, bad, "Session logs an ABORT record for a transaction that may already have committed"))
    return agg


@obligation(id="C02.finished_transaction_logs_no_commit", also="C03", funcs="Session::commit_transaction,TransactionLogger::log_commit",
            bounds="every path of Session::commit_transaction; callees uninterpreted", native="c02_commit_after_rollback_is_not_redone")
def c02_no_commit_after_abort(env, ob):
    """The mirror image of C01.finished_transaction_logs_no_abort: COMMIT issued on a session whose transaction already
    rolled back must not append a COMMIT record behind the ABORT record - recovery (last control record wins) would redo
    the rolled-back work after the next crash."""
    state_rx = r"(can_commit|is_active|is_open|is_finished|has_ended|state)$"
    ctx, f, args, res = explore(env, "tcp/session.rs", "commit_transaction", sig=r"&mut Session\)", inline=dict(LOG_INLINE))

    def bad(path, rv):
        if path.panics:
            return None
        cm = idx(path, RX_COMMIT_REC)
        if not cm:
            return None
        guards = [e for e in path.events[:cm[0]] if callee_is(e, state_rx) and isinstance(e["ret"], Leaf)
                  and (e["ret"].term in path.pc or f"(not {e['ret'].term})" in path.pc)]
        if not guards:
            return ("commit_record_logged_without_checking_that_the_transaction_is_still_open", None)
        return None
    if not any(idx(p, RX_COMMIT_REC) for p, rv in res):
        return result(ob, "inconclusive", reason="vacuity: Session::commit_transaction never logs a Commit record", paths=len(res))
    return trace_obligation(env, ob, ctx, res, bad, "Session logs a COMMIT record for a transaction that may already have rolled back")


@obligation(id="C02.checkpoint_keeps_what_can_undo_open_transactions", funcs="Database::flush,<Pager as Write>::flush",
            bounds="every path of Database::flush and of the checkpoint it calls (dirty-page loop unrolled once); callees "
                   "uninterpreted", native="c02_checkpoint_with_an_open_transaction")
def c02_checkpoint_open_txn(env, ob):
    """A checkpoint writes every dirty page, also those dirtied by a transaction that is still open, and then empties the
    log (C01.checkpoint_order).  After a crash nothing is left that could undo those pages, and nothing records the open
    transaction as a loser: its rows are there for good.  So the public checkpoint may only empty the log when no
    transaction is open (or must keep the log records of the open ones): on every path of Database::flush that reaches a
    log-emptying checkpoint, the coordinator must have been asked about open transactions first."""
    ctx0, f0, a0, res0 = explore(env, "io/pager.rs", "flush", sig=r"_1: &mut Pager\) -> Result<\(\), std::io::Error>", loop_bound=1)
    empties = any(idx(p, r"WriteAheadLog.*::truncate$") for p, rv in res0 if not p.panics)
    ctx, f, args, res = explore(env, "src/lib.rs", "flush", sig=r"_1: &Database\) -> Result<\(\), DatabaseError>", loop_bound=1)

    def bad(path, rv):
        if path.panics or rv is None:
            return None
        ck = idx(path, r"<(?:io::pager::)?Pager as (?:std::io::)?Write>::flush$")
        if not ck or not empties:
            return None
        asked = [i for i in idx(path, r"TransactionCoordinator::\w*(active|open|running|in_flight|quiescent)\w*$") if i < ck[0]]
        if not asked:
            return ("log_emptied_while_a_transaction_may_be_open@Database::flush", None)
        return None
    if not any(idx(p, r"<(?:io::pager::)?Pager as (?:std::io::)?Write>::flush$") for p, rv in res):
        return result(ob, "inconclusive", reason="vacuity: Database::flush never reaches the checkpoint", paths=len(res))
    return trace_obligation(env, ob, ctx, res, bad, "the public checkpoint empties the log although a transaction may be open")


@obligation(id="C01.checkpoint_order", also="C13,C09,C08", funcs="<Pager as Write>::flush",
            bounds="every path of the checkpoint (dirty-page loop unrolled once); WAL / file calls uninterpreted",
            native="c01_crash_after_checkpoint_reopens")
def c01_checkpoint_order(env, ob):
    """Checkpoint = force the log, write the dirty pages and the header, flush the data file, only then truncate the log,
    and finally force the (now empty) log so that the log file on disk is a valid empty log and not a zero-length file."""
    ctx, f, args, res = explore(env, "io/pager.rs", "flush", sig=r"_1: &mut Pager\) -> Result<\(\), std::io::Error>", loop_bound=1)

    def bad(path, rv):
        if path.panics or rv is None:
            return None
        ok = ret_is_ok(rv)
        wf = idx(path, r"<WriteAheadLog as std::io::Write>::flush$")
        tr = idx(path, r"WriteAheadLog.*::truncate$")
        data = idx(path, r"write_block|with_bytes_mut")
        hdr = idx(path, r"sync_header$")
        ff = idx(path, r"<DBFile as std::io::Write>::flush$")
        if not tr:
            return ("checkpoint_never_truncates_the_log", ok)
        if not wf or wf[0] > min(data + hdr + tr):
            return ("data_pages_written_before_the_log_is_forced", ok)
        if not hdr or not ff or max(hdr[0], ff[0]) > tr[0] or (data and max(data) > tr[0]):
            return ("log_truncated_before_pages_and_header_are_on_disk", ok)
        if not [i for i in wf if i > tr[-1]]:
            return ("truncated_log_not_forced:log_file_left_without_header", ok)
        return None
    return trace_obligation(env, ob, ctx, res, bad, "checkpoint steps out of order", cuts_ok=True)


@obligation(id="C02.redo_and_undo_follow_the_transactions_own_records", also="C01,C08", funcs="WalRecuperator::run_redo,WalRecuperator::run_undo",
            bounds="every path of run_redo / run_undo for one transaction with one record (loops unrolled once); callees "
                   "uninterpreted", native="c02_interleaved_transactions_crash")
def c02_own_chain(env, ob):
    """Records of different transactions interleave in the log.  The redo of a committed transaction (and the undo of a
    loser) must walk that transaction's OWN chain of LSNs (AnalysisResult::try_iter_lsn) - any walk over an LSN range
    replays whatever other transactions logged in between, under the wrong fate."""
    agg = None
    APPLIED = "record applied"

    def m_stop(ex, path, frame, callee, args_, dest_ty):
        # the path is followed up to the first record it applies: what matters is how it got there
        path.events.append({"callee": callee, "args": args_, "ret": None, "fn": "", "argdesc": [mirsmt.describe(a) for a in args_],
                            "modelled": True, "pc_prefix": list(path.pc)})
        return mirsmt.Panic(APPLIED)
    for fn in ("run_redo", "run_undo"):
        ctx, f, args, res = explore(env, "io/recovery.rs", fn, loop_bound=1,
                                    models={r"^WalRecuperator::(redo|undo)_(insert|update|delete|create|alter|drop)$": m_stop})
        hits = [(p, Unit()) for p, rv in res if p.panics and p.panics.startswith(APPLIED)]
        if not hits:
            agg = merge(agg, result(ob, "inconclusive", reason=f"vacuity: {fn} never applies a record", paths=len(res)))
            continue
        for p, _ in hits:
            p.panics = None

        def bad(path, rv, fn=fn):
            applied = idx(path, r"WalRecuperator::(redo|undo)_(insert|update|delete|create|alter|drop)$")
            if not applied:
                return None
            if not [i for i in idx(path, r"AnalysisResult::try_iter_lsn$") if i < applied[0]]:
                return (f"records_applied_without_walking_the_transactions_own_lsn_chain@{fn}", None)
            if idx(path, r"RangeInclusive::<u64>::new$|Range::<u64>|lsn_chains"):
                return (f"records_applied_over_an_lsn_range@{fn}", None)
            return None
        agg = merge(agg, trace_obligation(env, ob, ctx, hits, bad, f"{fn} does not follow the transaction's own LSN chain", cuts_ok=True))
    return agg


@obligation(id="C01.redo_applies_committed_rows", also="C02", funcs="WalRecuperator::redo_insert,WalRecuperator::run_redo",
            bounds="every path of redo_insert, and of run_redo for one transaction with one record (loops unrolled once); "
                   "executor calls uninterpreted", native="c01_committed_inserts_survive_crash")
def c01_redo_insert(env, ob):
    """A transaction in the redo set is committed.  Redo of one of its INSERT records either re-inserts the logged row or
    fails - it never returns Ok without having applied it (in particular it is not filtered by snapshot visibility), and
    run_redo hands every logged insert/update/delete of a redo transaction to its redo routine."""
    ctx, f, args, res = explore(env, "io/recovery.rs", "redo_insert", loop_bound=1)

    def bad(path, rv):
        if path.panics or rv is None:
            return None
        if not idx(path, r"DmlExecutor::insert$"):
            return ("redo_insert_returns_ok_without_inserting", ret_is_ok(rv))
        return None
    a = trace_obligation(env, ob, ctx, res, bad, "redo_insert skips the logged row", cuts_ok=True)
    ctx2, f2, args2, res2 = explore(env, "io/recovery.rs", "run_redo", loop_bound=1)

    def bad2(path, rv):
        if path.panics or rv is None:
            return None
        # every record kind that was looked up and found (HashMap::get returned Some) is handed to its redo routine
        for kind in ("insert", "update", "delete"):
            gets = [e for e in path.events if re.search(r"HashMap::<.*>::get", e["callee"]) and re.search(kind + r"_ops", " ".join(e["argdesc"]))]
            for g in gets:
                r = g["ret"]
                some = f"(= {r.get_disc().term} {bvconst(1, 64)})" if isinstance(r, Agg) else None
                if some and some in path.pc and not idx(path, r"redo_" + kind + r"$"):
                    return (f"logged_{kind}_of_a_committed_transaction_not_redone", ret_is_ok(rv))
        return None
    b = trace_obligation(env, ob, ctx2, res2, bad2, "run_redo does not apply a logged operation", cuts_ok=True)
    return merge(a, b)


@obligation(id="C03.commit_only_on_success", also="C02,C16",
            funcs="Database::execute::{closure#0},Database::execute_batch::{closure#1}",
            bounds="every path of the autocommit/batch worker closures; callees uninterpreted",
            native="c03_failed_statement_leaves_nothing")
def c03_commit_only_on_success(env, ob):
    agg = None
    for name, (ctx, f, args, res) in commit_paths(env)[1:]:
        def bad(path, rv, name=name):
            # the statement runner is the first fallible call; if it yielded Err no commit machinery may run
            run_i = idx(path, r"(prepare_and_run|execute_all)$")
            if not run_i:
                return None
            ev = path.events[run_i[0]]
            rd = ev["ret"].get_disc().term if isinstance(ev["ret"], Agg) else None
            if rd is None:
                return None
            failed = f"(= {rd} {bvconst(1, 64)})"
            later = [i for i in idx(path, RX_COMMIT_REC) + idx(path, RX_COMMIT_TXN) if i > run_i[0]]
            if later:
                return (f"commit_after_failed_statement@{name}", failed)
            return None
        agg = merge(agg, trace_obligation(env, ob, ctx, res, bad, "commit record / commit after the statement failed"))
    return agg


# DISABLED (tier="off"): the failing path needs TransactionContext::commit_transaction to return Err after log_commit.
# On the current tree that cannot happen through the public API (write sets are never populated - see
# C04.write_recorded_for_conflict_detection - and commit after rollback is accepted), so the counterexample cannot be
# replayed natively and is not reported.  Re-enable when conflict detection is wired up.
@obligation(id="C02.commit_record_only_after_validation", tier="off",
            funcs="Session::commit_transaction,Database::execute::{closure#0},Database::execute_batch::{closure#1}",
            bounds="every path; callees uninterpreted", native="c02_conflict_commit_record")
def c02_commit_after_validation(env, ob):
    """If TransactionContext::commit_transaction (write-set validation) fails, the log must not already hold a Commit
    record for the transaction (recovery classifies by record kind)."""
    agg = None
    for name, (ctx, f, args, res) in commit_paths(env):
        def bad(path, rv, name=name):
            t = idx(path, RX_COMMIT_TXN)
            if not t:
                return None
            ev = path.events[t[0]]
            rd = ev["ret"].get_disc().term if isinstance(ev["ret"], Agg) else None
            if rd is None:
                return None
            failed = f"(= {rd} {bvconst(1, 64)})"
            before = [i for i in idx(path, RX_COMMIT_REC) if i < t[0]]
            after_abort = [i for i in idx(path, RX_ABORT_REC) if i > t[0]]
            if before and not after_abort:
                return (f"commit_record_survives_failed_validation@{name}", failed)
            return None
        agg = merge(agg, trace_obligation(env, ob, ctx, res, bad, "Commit record logged before validation, validation fails, no Abort record"))
    return agg


def merge(a, b):
    if a is None:
        return b
    order = {"violated": 2, "inconclusive": 1, "discharged": 0}
    out = dict(a)
    if order[b["status"]] > order[a["status"]]:
        out["status"] = b["status"]
    out["failed"] = sorted(set(a.get("failed", [])) | set(b.get("failed", [])))
    out["paths"] = a.get("paths", 0) + b.get("paths", 0)
    out["queries"] = a.get("queries", 0) + b.get("queries", 0)
    if b.get("reason"):
        out["reason"] = (a.get("reason", "") + "; " + b["reason"]).strip("; ")
    if b.get("cex") and not a.get("cex"):
        out["cex"] = b["cex"]
    return out


@obligation(id="C04.write_recorded_for_conflict_detection", funcs="DmlExecutor::update,DmlExecutor::delete",
            bounds="every path of DmlExecutor::update / delete; callees uninterpreted",
            native="c04_ww_conflict_engine")
def c04_write_recorded(env, ob):
    """validate_write_set can only detect a write-write conflict for tuples that were registered with
    TransactionCoordinator::record_write: every path that logs an UPDATE/DELETE must also register the write."""
    agg = None
    for fn, rx in (("update", r"log_update$"), ("delete", r"log_delete$")):
        ctx, f, args, res = explore(env, "runtime/dml.rs", fn, sig=r"DmlExecutor")

        def bad(path, rv, fn=fn, rx=rx):
            if path.panics or rv is None:
                return None
            if idx(path, rx) and not idx(path, r"record_write$"):
                return (f"write_not_registered_in_write_set@DmlExecutor::{fn}", ret_is_ok(rv))
            return None
        agg = merge(agg, trace_obligation(env, ob, ctx, res, bad, "row modified and logged but never added to the transaction's write set"))
    return agg


@obligation(id="C02.analysis_classification", also="C01,C08", funcs="WriteAheadLog::run_analysis",
            bounds="one iteration of the analysis loop from an arbitrary record (kind symbolic); BTreeSet operations "
                   "uninterpreted trace events; the second iteration is cut",
            native="c02_analysis_classification")
def c02_analysis_classification(env, ob):
    """Begin => needs_undo+ ; Commit => needs_undo-, needs_redo+ ; Abort => needs_redo-, needs_undo+ ; every other
    record kind leaves both sets alone.  One iteration from an arbitrary set state is the inductive step for
    'redo set = transactions whose last control record is Commit'."""
    kinds = env.enum_variants("storage/wal.rs", "RecordType")
    fields = env.struct_fields("io/wal.rs", "AnalysisResult")
    fu, fr = str(fields.index("needs_undo")), str(fields.index("needs_redo"))
    ctx, f, args, res = explore(env, "io/wal.rs", "run_analysis", loop_bound=1)
    expect = {"Begin": {("insert", "undo")}, "Commit": {("remove", "undo"), ("insert", "redo")},
              "Abort": {("remove", "redo"), ("insert", "undo")}}
    byval = {v: k for k, v in kinds.items()}
    cands, seen_kinds = [], set()
    for path, rv in res:
        lt = [i for i, e in enumerate(path.events) if callee_is(e, r"::log_type$")]
        if not lt:
            continue
        d = path.events[lt[0]]["ret"]
        if not isinstance(d, Agg) or d.disc is None:
            continue
        kind = None
        for c in path.pc:
            m = re.match(r"^\(= " + re.escape(d.disc.term) + r" \(_ bv(\d+) 64\)\)$", c)
            if m:
                kind = byval.get(int(m.group(1)))
        if kind is None:
            continue
        end = lt[1] if len(lt) > 1 else len(path.events)
        ops = set()
        for e in path.events[lt[0]:end]:
            m = re.search(r"BTreeSet::<u64>::(insert|remove)", e["callee"])
            if m and e["argdesc"]:
                nm = e["argdesc"][0]
                if nm.endswith("." + fu):
                    ops.add((m.group(1), "undo"))
                elif nm.endswith("." + fr):
                    ops.add((m.group(1), "redo"))
        seen_kinds.add(kind)
        if ops != expect.get(kind, set()):
            cands.append((kind, ops, conj(path.pc[:path.pc.index(c) + 1] if False else path.pc)))
    missing = [k for k in kinds if k not in seen_kinds]
    if missing:
        return result(ob, "inconclusive", reason="vacuity: record kinds never reached: " + ",".join(missing), paths=len(res))
    uniq = {}
    for kind, ops, q in cands:
        uniq.setdefault((kind, tuple(sorted(ops))), q)
    chk = env.check(ctx, list(uniq.values())) if uniq else []
    bad = [f"analysis_misclassifies_{k}:{'+'.join(o[0] + '_' + o[1] for o in ops) or 'no_set_update'}"
           for ((k, ops), q), r in zip(uniq.items(), chk) if r["verdict"] == "sat"]
    inc = [r["verdict"] for r in chk if r["verdict"] not in ("sat", "unsat")]
    kw = dict(paths=len(res), queries=len(uniq))
    if bad:
        return result(ob, "violated", failed=sorted(bad), cex={"what": bad}, **kw)
    if inc:
        return result(ob, "inconclusive", reason=inc[0], **kw)
    return result(ob, "discharged", **kw)


# ---------------------------------------------------------------------------------------------------------------------
# C09: transaction ids never collide / go backwards
# ---------------------------------------------------------------------------------------------------------------------
@obligation(id="C09.txid_monotone", also="C04", funcs="TransactionCoordinator::begin,TransactionCoordinator::commit",
            bounds="every path of begin() and commit(); pager accessors uninterpreted (pure getters)",
            native="c09_txids_distinct")
def c09_txid_monotone(env, ob):
    """begin() hands out the stored last_created value and stores exactly value+1; commit() only ever raises the stored
    last_committed.  (With C09's header round trip this gives: ids handed out after a reopen are above every id used.)"""
    agg = None
    ctx, f, args, res = explore(env, COORD, "begin", sig=r"TransactionCoordinator", pure=[r"get_last_created_transaction$"])

    def bad_begin(path, rv):
        if path.panics or rv is None:
            return None
        gets = [e for e in path.events if callee_is(e, r"get_last_created_transaction$")]
        sets = [e for e in path.events if callee_is(e, r"set_last_created_transaction$")]
        okc = ret_is_ok(rv)
        if not gets or not sets:
            return ("begin_ok_without_advancing_last_created", okc)
        x, y = gets[0]["ret"], sets[-1]["args"][-1]
        if not (isinstance(x, Leaf) and isinstance(y, Leaf)):
            return ("begin_counter_not_integer", okc)
        return ("begin_does_not_store_id_plus_one", conj([okc, f"(not (= {y.term} (bvadd {x.term} {bvconst(1, 64)})))"]))
    agg = merge(agg, trace_obligation(env, ob, ctx, res, bad_begin, "begin() stores something other than last_created+1"))
    ctx, f, args, res = explore(env, COORD, "commit", sig=r"TransactionCoordinator", pure=[r"get_last_committed_transaction$"])

    def bad_commit(path, rv):
        if path.panics or rv is None:
            return None
        sets = [e for e in path.events if callee_is(e, r"set_last_committed_transaction$")]
        gets = [e for e in path.events if callee_is(e, r"get_last_committed_transaction$")]
        if not sets:
            return None
        if not gets:
            return ("commit_overwrites_last_committed_blindly", None)
        cur, new = gets[-1]["ret"], sets[-1]["args"][-1]
        if not (isinstance(cur, Leaf) and isinstance(new, Leaf)):
            return ("commit_counter_not_integer", None)
        return ("commit_lowers_last_committed", f"(bvult {new.term} {cur.term})")
    agg = merge(agg, trace_obligation(env, ob, ctx, res, bad_commit, "commit() can store a smaller last_committed"))
    return agg


@obligation(id="C04.dml_stamps_own_xid", also="C03,C18", funcs="DmlExecutor::insert,DmlExecutor::update,DmlExecutor::delete",
            bounds="every path of the three DML entry points; callees uninterpreted", native="c04_delete_with_older_session")
def c04_dml_stamps(env, ob):
    """The transaction id written into a new tuple (xmin), a new version or a delete mark (xmax) must be the id of
    the executing transaction (ThreadContext::tid / its snapshot's xid), nothing else (e.g. not the snapshot's xmin)."""
    agg = None
    for fn, rx, ai in (("insert", r"TupleBuilder::<.*>::build$", -1), ("update", r"Tuple::add_version_with$", 2),
                       ("delete", r"Tuple::delete$", 1)):
        ctx, f, args, res = explore(env, "runtime/dml.rs", fn, sig=r"DmlExecutor")

        def bad(path, rv, fn=fn, rx=rx, ai=ai):
            if path.panics or rv is None:
                return None
            own = {e["ret"].term for e in path.events
                   if callee_is(e, r"(Snapshot::xid|ThreadContext::tid|TransactionContext::tid)$") and isinstance(e["ret"], Leaf)}
            for e in path.events:
                if callee_is(e, rx):
                    a = e["args"][ai]
                    if not isinstance(a, Leaf) or a.term not in own:
                        return (f"row_stamped_with_other_than_own_xid@DmlExecutor::{fn}", None)
            return None
        agg = merge(agg, trace_obligation(env, ob, ctx, res, bad, "stamp argument is not the executing transaction's id"))
    return agg


@obligation(id="C18.delta_step_stamps", also="C04", funcs="TupleReader::parse_for_snapshot", native="c18_reader_steps_back_two_versions",
            bounds="every path of parse_for_snapshot that steps to exactly one older version (loop unrolled once); "
                   "decoding of the delta payload uninterpreted")
def c18_delta_step(env, ob):
    """Stepping from version v to the next older version v' of the chain: v'.xmax = v.xmin (the older version ends where
    the newer one begins), v'.xmin = the delta header's xmin, and v' is returned only if its creator committed before
    the reader's snapshot."""
    inline = {r"^Snapshot::is_committed_before_snapshot$": (COORD, "is_committed_before_snapshot", None),
              r"^Snapshot::xid$": (COORD, "xid", r"&Snapshot\) -> u64"),
              r"TupleLayout::is_valid_for_snapshot$": ("storage/tuple.rs", "is_valid_for_snapshot", None)}
    ctx, f, args, res = explore(env, "storage/tuple.rs", "parse_for_snapshot", inline=inline, loop_bound=1,
                                pure=[r"DeltaHeader::xmin$", r"DeltaHeader::version$"])
    lay = env.struct_fields("storage/tuple.rs", "TupleLayout")
    ix = {n: str(i) for i, n in enumerate(lay)}
    cands, wit = [], []
    for path, rv in res:
        if path.cut or path.panics or not isinstance(rv, Agg):
            continue
        if mirsmt.const_of(rv.get_disc().term) != 0:
            continue
        dh = [e for e in path.events if callee_is(e, r"DeltaHeader::read_from$")]
        dx = [e for e in path.events if callee_is(e, r"DeltaHeader::xmin$") and isinstance(e["ret"], Leaf)]
        pl = [e for e in path.events if callee_is(e, r"parse_last_version$")]
        if len(dh) != 1 or not dx or not pl:
            continue
        opt = rv.variants["Ok"].val.fields["0"].val
        if not isinstance(opt, Agg) or mirsmt.const_of(opt.get_disc().term) != 1:
            continue
        out = opt.variants["Some"].val.fields["0"].val
        if not isinstance(out, Agg):
            continue
        base = pl[0]["ret"].name + "@Ok.0"
        x0 = ctx.smtname(f"{base}.{ix['version_xmin']}")
        if x0 not in ctx.decls:
            continue
        nx = out.fields.get(ix["version_xmin"])
        nm = out.fields.get(ix["version_xmax"])
        if nx is None or nm is None or not isinstance(nx.val, Leaf) or not isinstance(nm.val, Agg):
            cands.append(conj(path.pc))
            continue
        md = nm.val.get_disc().term
        mv = nm.val.variants["Some"].val.fields["0"].val.term if "Some" in nm.val.variants else None
        law = conj([f"(= {nx.val.term} {dx[-1]['ret'].term})", f"(= {md} {bvconst(1, 64)})"] + ([f"(= {mv} {x0})"] if mv else ["false"]))
        wit.append(conj(path.pc))
        cands.append(conj(path.pc + [f"(not {law})"]))
    if not wit:
        return result(ob, "inconclusive", reason="vacuity: no path returns an older version after one delta step", paths=len(res))
    chk = env.check(ctx, [disj(cands), disj(wit)])
    kw = dict(paths=len(res), queries=2)
    if chk[1]["verdict"] != "sat":
        return result(ob, "inconclusive", reason="vacuity: " + chk[1]["verdict"], **kw)
    if chk[0]["verdict"] == "unsat":
        return result(ob, "discharged", **kw)
    if chk[0]["verdict"] == "sat":
        return result(ob, "violated", failed=["older_version_wrongly_stamped"], cex={"what": "after one delta step the returned layout's xmin/xmax are not (delta.xmin, Some(newer.xmin))"}, **kw)
    return result(ob, "inconclusive", reason=chk[0]["verdict"], **kw)


@obligation(id="C18.delta_records_all_null_flags", funcs="Tuple::add_version_with",
            bounds="every path of add_version_with up to write_delta (loops unrolled once); callees uninterpreted",
            native="c18_old_version_keeps_nulls")
def c18_delta_bitmap(env, ob):
    """Readers switch to the delta's null bitmap for ALL columns when they step back one version, so the delta must be
    written from the complete set of old values (third component of compute_values), not only from the changed ones."""
    ctx, f, args, res = explore(env, "storage/tuple.rs", "add_version_with", loop_bound=1)

    def bad(path, rv):
        if path.panics or rv is None:
            return None
        wd = [e for e in path.events if callee_is(e, r"Tuple::write_delta$")]
        cv = [e for e in path.events if callee_is(e, r"Tuple::compute_values$")]
        if not wd:
            return None
        if not cv or not isinstance(cv[-1]["ret"], Agg) or not cv[-1]["ret"].name:
            return ("cannot_trace_old_values", None)
        # the Ok payload of compute_values is a 3-tuple (new, changed, all_old): the third component must reach write_delta
        base = cv[-1]["ret"].name
        names = [base]
        for e2 in path.events:
            if e2.get("modelled") and e2["args"] and isinstance(e2["args"][0], Agg) and e2["args"][0].name == base and isinstance(e2["ret"], Agg) and e2["ret"].name:
                names.append(e2["ret"].name)
        pat = "(" + "|".join(re.escape(n) for n in names) + r")@(Ok|Continue)\.0\.2"
        derived = []
        for e2 in path.events:   # follow borrows / derefs of the third component up to write_delta
            if e2 is wd[-1]:
                break
            if any(re.search(pat, d) or any(x in d for x in derived) for d in e2.get("argdesc", [])) and \
                    re.search(r"(Deref>::deref|::as_slice|::as_ref|Borrow<.*>>::borrow)$", e2["callee"]):
                derived.append(mirsmt.describe(e2["ret"]).lstrip("&").rstrip("*"))
        full = any(re.search(pat, d) or any(x and x in d for x in derived) for d in wd[-1]["argdesc"])
        if not full:
            return ("delta_null_bitmap_not_built_from_all_old_values", ret_is_ok(rv))
        return None
    return trace_obligation(env, ob, ctx, res, bad, "write_delta does not receive the complete old value set", cuts_ok=True)


@obligation(id="C18.every_change_entry_moves_its_offset", also="C04", funcs="TupleReader::parse_for_snapshot",
            bounds="every path of parse_for_snapshot through one delta with one change entry (loops unrolled once); decoding "
                   "uninterpreted", native="c18_reader_steps_back_two_versions")
def c18_change_offsets(env, ob):
    """Deltas are reverse diffs: going back from the newest version, EVERY change entry that is walked over re-points the
    column at the older value - whether or not the version reached by this delta is the one the snapshot sees.  Skipping
    the re-pointing for invisible versions returns a row that mixes values of two versions once the reader has to step
    back more than one version."""
    inline = {r"^Snapshot::is_committed_before_snapshot$": (COORD, "is_committed_before_snapshot", None),
              r"^Snapshot::xid$": (COORD, "xid", r"&Snapshot\) -> u64"),
              r"TupleLayout::is_valid_for_snapshot$": ("storage/tuple.rs", "is_valid_for_snapshot", None)}
    ctx, f, args, res = explore(env, "storage/tuple.rs", "parse_for_snapshot", inline=inline, loop_bound=1,
                                pure=[r"DeltaHeader::xmin$", r"DeltaHeader::version$"])

    def bad(path, rv):
        if path.panics:
            return None
        dh = idx(path, r"DeltaHeader::read_from$")
        if not dh:
            return None
        de = [i for i in idx(path, r"DataTypeKind::deserialize$") if i > dh[0]]
        if not de:
            return None
        st = [i for i in idx(path, r"<Vec<usize> as IndexMut<usize>>::index_mut$") if dh[0] < i < de[0]]
        if not st:
            return ("change_entry_walked_over_without_re_pointing_the_column", None)
        return None
    if not any(idx(p, r"DeltaHeader::read_from$") and idx(p, r"DataTypeKind::deserialize$") for p, rv in res):
        return result(ob, "inconclusive", reason="vacuity: no path walks over a non-null change entry", paths=len(res))
    return trace_obligation(env, ob, ctx, res, bad, "parse_for_snapshot skips the offset update of a change entry", cuts_ok=True)


@obligation(id="C18.assigned_columns_get_the_assigned_value", also="C05", funcs="Tuple::compute_values",
            bounds="every path of Tuple::compute_values through one column (loop unrolled once); callees uninterpreted",
            native="c18_update_to_a_value_equal_as_double")
def c18_assigned(env, ob):
    """For every column named in an UPDATE's assignment map the new version holds (a clone of) the ASSIGNED value and the
    delta saves the old one - unconditionally.  Any shortcut that decides 'nothing changed' by comparing values goes
    through DataType's equality, which compares numerics as f64: 2^53 and 2^53 + 1, or 0.0 and -0.0, are 'equal'."""
    ctx, f, args, res = explore(env, "storage/tuple.rs", "compute_values", loop_bound=1)
    newvals = None

    def bad(path, rv):
        if path.panics:
            return None
        g = idx(path, r"HashMap::<usize, types::DataType>::get::<usize>$")
        if not g:
            return None
        ge = path.events[g[0]]
        some = f"(= {ge['ret'].get_disc().term} {bvconst(1, 64)})"
        if some not in path.pc:
            return None
        caps = [e for e in path.events[:g[0]] if callee_is(e, r"Vec::<types::DataType>::with_capacity$")]
        target = mirsmt.describe(caps[0]["ret"]) if caps else None      # new_values is the first vector allocated
        pushes = [e for e in path.events[g[0]:] if callee_is(e, r"Vec::<types::DataType>::push$")
                  and (target is None or e["argdesc"][0] == "&" + target)]
        clones = {mirsmt.describe(e["ret"]) for e in path.events[g[0]:] if callee_is(e, r"<types::DataType as Clone>::clone$")
                  and ge["ret"].name in e["argdesc"][0]}
        if not pushes:
            return ("assigned_column_gets_no_value_in_the_new_version", None)
        if pushes[0]["argdesc"][1] not in clones:
            return ("assigned_column_keeps_its_old_value", None)
        if not [e for e in path.events[g[0]:] if callee_is(e, r"Vec::<\(u8, types::DataType\)>::push$")]:
            return ("old_value_of_an_assigned_column_not_saved_in_the_delta", None)
        return None
    if not any(idx(p, r"HashMap::<usize, types::DataType>::get::<usize>$") for p, rv in res):
        return result(ob, "inconclusive", reason="vacuity: compute_values never looks a column up in the assignment map", paths=len(res))
    return trace_obligation(env, ob, ctx, res, bad, "compute_values does not give an assigned column the assigned value", cuts_ok=True)


@obligation(id="C18.older_deltas_stay_where_readers_look", also="C13,C16", funcs="Tuple::add_version_with",
            bounds="every path of add_version_with that carries older deltas over (loops unrolled once); callees uninterpreted",
            native="c18_two_updates_then_walk_the_chain")
def c18_old_deltas_aligned(env, ob):
    """Every reader of the version chain (parse_for_snapshot, vaccum_with, num_versions_with) finds the next delta at
    DeltaHeader::aligned_offset(end of the previous one).  When an UPDATE writes a new delta in front of the existing
    ones, the existing ones must therefore be copied to that aligned offset - not to wherever the new delta happened to
    end (a delta whose last old value is a BOOL / INT / TEXT / NULL ends off the 8-byte grid)."""
    ctx, f, args, res = explore(env, "storage/tuple.rs", "add_version_with", loop_bound=1)

    def bad(path, rv):
        if path.panics or rv is None:
            return None
        wd = idx(path, r"Tuple::write_delta$")
        cp = [i for i in idx(path, r"IndexMut<std::ops::Range<usize>>>::index_mut$") if wd and i > wd[0]]
        if not wd or not cp:
            return None
        rng = path.events[cp[0]]["args"][1]
        start = rng.fields.get("start") or rng.fields.get("0") if isinstance(rng, Agg) else None
        if start is None or not isinstance(start.val, Leaf):
            return ("destination_of_the_older_deltas_unknown", None)
        al = [e for e in path.events[wd[0]:cp[0]] if callee_is(e, r"DeltaHeader::aligned_offset$") and isinstance(e["ret"], Leaf)]
        if any(e["ret"].term == start.val.term for e in al):
            return None
        return ("older_deltas_copied_to_an_unaligned_offset", None)
    if not any(idx(p, r"Tuple::write_delta$") for p, rv in res):
        return result(ob, "inconclusive", reason="vacuity: no path writes a delta", paths=len(res))
    return trace_obligation(env, ob, ctx, res, bad, "add_version_with copies the existing deltas to the raw end of the new delta", cuts_ok=True)


@obligation(id="C13.vacuum_order", funcs="Database::vacuum::{closure#0}",
            bounds="every path of the vacuum worker closure; callees uninterpreted", native="c13_rollback_right_before_vacuum")
def c13_vacuum_order(env, ob):
    """The horizon is read before the vacuum transaction begins, the aborted bitmap is cleared exactly up to that horizon,
    and the checkpoint (flush) happens after the vacuum transaction committed."""
    ctx, f, args, res = explore(env, "src/lib.rs", "vacuum::{closure#0}", pure=[r"get_last_committed$"])

    def bad(path, rv):
        if path.panics or rv is None:
            return None
        okc = ret_is_ok(rv)
        hz = idx(path, r"get_last_committed$")
        bg = idx(path, r"begin_transaction$")
        cl = idx(path, r"clear_aborted_up_to$")
        cm = idx(path, r"TransactionContext::commit_transaction$")
        fl = [i for i in idx(path, r"(Pager::flush|<Pager as std::io::Write>::flush)$")]
        if not hz or not bg or hz[0] > bg[0]:
            return ("horizon_read_after_vacuum_transaction_began", okc)
        if cl:
            a = path.events[cl[-1]]["args"][-1]
            h = path.events[hz[0]]["ret"]
            if not (isinstance(a, Leaf) and isinstance(h, Leaf) and a.term == h.term):
                return ("aborted_bitmap_cleared_beyond_horizon", okc)
        if not cm:
            return ("vacuum_ok_without_commit", okc)
        if not fl or fl[-1] < cm[-1]:
            return ("vacuum_ok_without_checkpoint_after_commit", okc)
        return None
    return trace_obligation(env, ob, ctx, res, bad, "vacuum ordering")


@obligation(id="C09.aborted_reload_range", also="C02,C04", funcs="PageZeroHeader::get_aborted_transactions,PageZeroHeader::is_transaction_aborted",
            bounds="the id range scanned when the aborted set is reloaded at open vs the id range the bitmap test accepts; "
                   "named constants are uninterpreted symbols (same name = same value)", native="c09_aborted_reload")
def c09_aborted_reload(env, ob):
    """Every id the persistent bitmap can remember must be reloaded into the coordinator at open: the scan of
    get_aborted_transactions covers [0, N) for the same N at which is_transaction_aborted gives up."""
    ctx, f, args, res = explore(env, "storage/page.rs", "get_aborted_transactions", loop_bound=1)
    ends = set()
    for path, rv in res:
        for e in path.events:
            if callee_is(e, r"Range<u64> as IntoIterator>::into_iter$") and isinstance(e["args"][0], Agg):
                r = e["args"][0]
                st, en = r.fields.get("start") or r.fields.get("0"), r.fields.get("end") or r.fields.get("1")
                if st is None or en is None or not isinstance(en.val, Leaf) or not isinstance(st.val, Leaf):
                    raise Unsupported("range bounds of the reload scan")
                ends.add((st.val.term, en.val.term))
    if len(ends) != 1:
        raise Unsupported(f"reload scan range not unique: {ends}")
    (s0, e1), = ends
    # the bound is_transaction_aborted uses: explore it in the SAME context so that named constants coincide
    f2 = env.mir.find("storage/page.rs", "is_transaction_aborted", r"PageZeroHeader")
    ex = mirsmt.Executor(env.mir, ctx, models=dict(COMMON_MODELS), loop_bound=1)
    a2 = [ctx.sym("hdr", f2.params[0][1]), ctx.declare("probe_txid", "u64")]
    res2 = ex.run(f2, a2)
    rejected = [conj(p.pc) for p, rv in res2 if isinstance(rv, Leaf) and rv.term == "false" and len(p.pc) == 1 and not p.panics]
    if not rejected:
        raise Unsupported("no early-reject path in is_transaction_aborted")
    t = a2[1].term
    # ids the bitmap can answer for = NOT rejected; every such id must lie inside the scanned range [s0, e1)
    q = conj([f"(not {disj(rejected)})", f"(not (and (bvuge {t} {s0}) (bvult {t} {e1})))"])
    chk = env.check(ctx, [q, f"(not {disj(rejected)})"])
    kw = dict(paths=len(res) + len(res2), queries=2)
    if chk[1]["verdict"] != "sat":
        return result(ob, "inconclusive", reason="vacuity: " + chk[1]["verdict"], **kw)
    if chk[0]["verdict"] == "unsat":
        return result(ob, "discharged", **kw)
    if chk[0]["verdict"] == "sat":
        return result(ob, "violated", failed=["tracked_id_outside_reload_scan"], cex={"scan": [s0, e1], "reject": rejected}, **kw)
    return result(ob, "inconclusive", reason=chk[0]["verdict"], **kw)


@obligation(id="C02.undo_restores_before_image", also="C03", funcs="WalRecuperator::undo_update,WalRecuperator::redo_update",
            bounds="every path of undo_update / redo_update; callees uninterpreted", native="c02_undo_update_direction")
def c02_undo_direction(env, ob):
    """undo of an UPDATE must write the row decoded from the record's UNDO payload (the before image) as the new
    contents, redo the one from the REDO payload."""
    agg = None
    for fn, newsrc in (("undo_update", "undo"), ("redo_update", "redo")):
        ctx, f, args, res = explore(env, "io/recovery.rs", fn)

        def bad(path, rv, fn=fn, newsrc=newsrc):
            if path.panics or rv is None:
                return None
            ups = [e for e in path.events if callee_is(e, r"DmlExecutor::update_row$")]
            if not ups:
                return None
            src = {}
            for e in path.events:
                m = re.search(r"Update(?: as Operation>)?::(undo|redo)$", e["callee"])
                if m and isinstance(e["ret"], (Agg, Ref)):
                    src[m.group(1)] = mirsmt.describe(e["ret"]).lstrip("&")
            dec = {}
            for e in path.events:
                if callee_is(e, r"Row::from_bytes_checked_with_snapshot$"):
                    for k, nm in src.items():
                        if nm and nm in e["argdesc"][0]:
                            dec[k] = e["ret"].name if isinstance(e["ret"], Agg) else None
            new_arg = ups[-1]["argdesc"][-1]
            want = dec.get(newsrc)
            if not want:
                return (f"cannot_trace_{newsrc}_image@{fn}", None)
            if want not in new_arg:
                return (f"{fn}_writes_the_wrong_image", None)
            return None
        agg = merge(agg, trace_obligation(env, ob, ctx, res, bad, "update_row receives the other payload's row as new contents"))
    return agg


@obligation(id="C03.dropped_handle_aborts", also="C02", funcs="<TransactionHandle as Drop>::drop",
            bounds="every path of the Drop impl of TransactionHandle (a failed autocommit statement or batch relies on it)",
            native="c03_failed_statement_is_aborted")
def c03_drop_aborts(env, ob):
    try:
        ctx, f, args, res = explore(env, COORD, "drop", sig=r"TransactionHandle")
    except Unsupported as e:
        if "0 candidates" in str(e):
            return result(ob, "violated", failed=["transaction_handle_has_no_drop_abort"],
                          cex={"what": "no `impl Drop for TransactionHandle`: a failed statement leaves its transaction Active and never marked aborted"}, paths=0, queries=0)
        raise

    def bad(path, rv):
        if path.panics:
            return None
        if not idx(path, r"TransactionHandle::abort$"):
            return ("handle_dropped_without_abort", None)
        return None
    return trace_obligation(env, ob, ctx, res, bad, "dropping a TransactionHandle does not abort the transaction")


@obligation(id="C13.usable_after_checkpoint", also="C12,C09", funcs="PageCache::clear",
            bounds="every path of PageCache::clear with the drain loop unrolled once", native="c13_usable_after_vacuum")
def c13_cache_clear_keeps_capacity(env, ob):
    """Every checkpoint (Pager::flush: VACUUM, Database::flush) empties the page cache through PageCache::clear; the
    cache must keep its configured capacity, otherwise the handle is unusable afterwards (every insert: out of memory)."""
    names = env.struct_fields("io/cache.rs", "PageCache")
    ci = str(names.index("capacity"))
    ctx, f, args, res = explore(env, "io/cache.rs", "clear", sig=r"PageCache", loop_bound=1)
    cache = args[0].cell.val
    init = ctx.smtname(f"{cache.name}.{ci}")
    cands, done = [], 0
    for path, rv in res:
        if path.cut or path.panics:
            continue
        done += 1
        fr = getattr(path, "final_frame", None)
        cur = args[0].cell.val.fields.get(ci) if False else None
        # the final value of self.capacity on this path lives in the path's own copy of the argument object
        selfref = fr.cells[f.params[0][0]].val if fr else None
        obj = selfref.cell.val if isinstance(selfref, Ref) else None
        if not isinstance(obj, Agg):
            raise Unsupported("cannot read back PageCache after clear()")
        cell = obj.fields.get(ci)
        final = cell.val.term if cell is not None and isinstance(cell.val, Leaf) else init
        if init not in ctx.decls:
            ctx.decls[init] = "(_ BitVec 64)"
        cands.append(conj(path.pc + [f"(not (= {final} {init}))"]))
    if not done:
        return result(ob, "inconclusive", reason="vacuity: no complete path through clear()", paths=len(res))
    chk = env.check(ctx, [disj(cands)])
    kw = dict(paths=len(res), queries=1)
    if chk[0]["verdict"] == "unsat":
        return result(ob, "discharged", **kw)
    if chk[0]["verdict"] == "sat":
        return result(ob, "violated", failed=["cache_capacity_changed_by_clear"], cex={"what": "PageCache::clear leaves a capacity different from the configured one"}, **kw)
    return result(ob, "inconclusive", reason=chk[0]["verdict"], **kw)


@obligation(id="C02.abort_marks_bitmap", also="C03,C09,C04", funcs="TransactionCoordinator::abort",
            bounds="every path of TransactionCoordinator::abort; callees uninterpreted", native="c02_abort_after_vacuum_is_persisted")
def c02_abort_marks(env, ob):
    """Every successful abort persists the aborted state (PageZero bitmap) - also when the in-memory entry is already
    Aborted (Database::vacuum's abort_all marks entries aborted in memory only)."""
    ctx, f, args, res = explore(env, COORD, "abort", sig=r"TransactionCoordinator, _2: u64")

    def bad(path, rv):
        if path.panics or rv is None:
            return None
        if not idx(path, r"mark_transaction_aborted$"):
            return ("abort_ok_without_persisting_aborted_bit", ret_is_ok(rv))
        return None
    a = trace_obligation(env, ob, ctx, res, bad, "abort() returns Ok without marking the transaction in the persistent bitmap")

    # snapshot() builds every later snapshot's aborted set from the in-memory table: the entry has to stay there, marked
    def bad_forget(path, rv):
        if path.panics or rv is None:
            return None
        if idx(path, r"(HashMap|BTreeMap)::<.*>::(remove|remove_entry|clear)"):
            return ("aborted_transaction_dropped_from_the_table_snapshots_are_built_from", ret_is_ok(rv))
        if not idx(path, r"(HashMap|BTreeMap)::<.*>::get_mut"):
            return ("abort_ok_without_touching_the_transaction_entry", ret_is_ok(rv))
        return None
    b = trace_obligation(env, ob, ctx, res, bad_forget, "abort() forgets the transaction instead of marking it Aborted")
    return merge(a, b)


@obligation(id="C13.force_aborted_sessions_stay_known", also="C04,C02", funcs="TransactionCoordinator::abort_all",
            bounds="every path of TransactionCoordinator::abort_all (loop unrolled once); callees uninterpreted",
            native="c13_vacuum_with_open_writer")
def c13_abort_all(env, ob):
    """VACUUM force-aborts the sessions that are still open.  The in-memory table is the only record that they did not
    commit (abort_all does not write the bitmap) and every later snapshot - the vacuum's own included - takes its aborted
    set from it: the entries must stay, marked Aborted; dropping them makes the sessions' rows read as committed."""
    ctx, f, args, res = explore(env, COORD, "abort_all", loop_bound=1)

    def bad(path, rv):
        if path.panics:
            return None
        if idx(path, r"(HashMap|BTreeMap)::<.*>::(retain|remove|remove_entry|clear|drain|extract_if)"):
            return ("open_transactions_dropped_from_the_table_instead_of_marked_aborted", None)
        return None
    return trace_obligation(env, ob, ctx, res, bad, "abort_all removes entries from the transaction table", cuts_ok=True)


@obligation(id="C09.allocated_page_is_dirty", also="C11,C12", funcs="Pager::allocate_page",
            bounds="every path of Pager::allocate_page<P>; callees uninterpreted", native="c09_recycled_root_survives_reopen")
def c09_alloc_dirty(env, ob):
    """A page handed out by allocate_page (fresh OR recycled from the free list) must be marked dirty, otherwise an object
    created on it and left untouched is never written and the stale free-page image is read back after reopen."""
    cands = [h for h, s_, e_ in env.mir.funcs if re.search(r"pager\.rs[^(]*::allocate_page(::<[^(]*>)?\(", h)]
    if not cands:
        raise Unsupported("Pager::allocate_page not found")
    agg = None
    for h in cands[:3]:
        ctx = mirsmt.Ctx()
        hs = [(hh, s_, e_) for hh, s_, e_ in env.mir.funcs if hh == h][0]
        fn = mirsmt.Func(hs[0], env.mir.lines[hs[1] + 1:hs[2]])
        ex = mirsmt.Executor(env.mir, ctx, models=dict(COMMON_MODELS), loop_bound=1)
        a = [ctx.sym(n, t) for n, t in fn.params]
        res = ex.run(fn, a)

        def bad(path, rv):
            if path.panics or rv is None:
                return None
            if not idx(path, r"mark_dirty$"):
                return ("allocated_page_not_marked_dirty", ret_is_ok(rv))
            return None
        agg = merge(agg, trace_obligation(env, ob, ctx, res, bad, "allocate_page returns a page that was never marked dirty"))
    return agg


@obligation(id="C03.dml_never_removes_physically", also="C04,C06", funcs="DmlExecutor::insert,DmlExecutor::update,DmlExecutor::delete,DmlExecutor::maintain_secondary_indexes",
            bounds="every path of the DML entry points and of the secondary-index maintenance (loops unrolled once)",
            native="c03_rolled_back_delete_keeps_index_entry")
def c03_no_physical_removal(env, ob):
    """Rollback is visibility-only (nothing is undone in place), so DML must never physically take a tuple out of a table
    or index tree: deletes are tombstones (Tuple::delete + Btree::update); only VACUUM removes."""
    agg = None
    for fn in ("insert", "update", "delete", "maintain_secondary_indexes"):
        ctx, f, args, res = explore(env, "runtime/dml.rs", fn, sig=r"DmlExecutor", loop_bound=1)

        def bad(path, rv, fn=fn):
            if path.panics or rv is None:
                return None
            rm = [e for e in path.events if re.search(r"Btree::<.*>::(remove\w*|delete\w*|dealloc\w*|clear\w*)$", e["callee"])]
            if rm:
                return (f"dml_physically_removes_a_tuple@DmlExecutor::{fn}", None)
            return None
        agg = merge(agg, trace_obligation(env, ob, ctx, res, bad, "a DML path calls a physical removal on a B+tree", cuts_ok=True))
    return agg


RAW_READERS = r"(get_tuple_at_unchecked|Tuple::from_slice_unchecked|TupleRef::<.*>::to_row_with|Tuple::as_tuple_ref_with|TupleReader::parse_unchecked|with_cell_at)"


@obligation(id="C03.row_sources_read_through_snapshot", also="C04,C06,C07,C15", funcs="DdlExecutor::populate_index,SeqScan::next,IndexScan::next",
            bounds="every path of the three row sources (loops unrolled once, longer iterations repeat the same body); "
                   "Btree::get_row_at itself is covered by the visibility obligations",
            native="c03_index_built_after_rollback")
def c03_row_sources(env, ob):
    """Rollback (and snapshot isolation) is purely a visibility decision, so every place that turns stored tuples into rows
    for a statement - table scan, index scan, and the heap scan that fills a new index - must obtain them through the
    snapshot-aware reader (Btree::get_row_at) and never through a raw reader."""
    agg = None
    for file_hint, fn, sig in (("runtime/ddl.rs", "populate_index", r"DdlExecutor"),
                               ("runtime/ops/seq_scan.rs", "next", None),
                               ("runtime/ops/index_scan.rs", "next", None)):
        ctx, f, args, res = explore(env, file_hint, fn, sig=sig, loop_bound=1)

        def bad(path, rv, fn=fn, file_hint=file_hint):
            if path.panics or rv is None:
                return None
            raw = [e for e in path.events if re.search(RAW_READERS, e["callee"])]
            if raw:
                return (f"row_source_reads_raw_tuple@{file_hint}::{fn}", None)
            # (the entry loop and the heap loop are independent for the abstraction, so the law is stated on Row::new)
            if fn == "populate_index" and idx(path, r"Row::new$") and not idx(path, r"get_row_at$"):
                return (f"index_entry_not_derived_from_a_snapshot_read@{fn}", None)
            return None
        agg = merge(agg, trace_obligation(env, ob, ctx, res, bad, "a row source bypasses the snapshot-aware reader", cuts_ok=True))
    return agg


def _msi_chain(path, root):
    """names of values derived from parameter `root` through Option::map / as_ref / clone (uninterpreted calls)"""
    names = {root}
    for e in path.events:
        if re.search(r"Option::<.*>::(map|as_ref|clone|as_deref)", e["callee"]) or re.search(r"as Clone>::clone$", e["callee"]):
            a0 = (e["argdesc"] or [""])[0].lstrip("&")
            if any(a0 == n or a0.startswith(n + "@") or a0.startswith(n + ".") for n in names):
                r = e["ret"]
                rn = getattr(r, "name", None) or (getattr(r.cell.val, "name", None) if isinstance(r, Ref) else None)
                if rn:
                    names.add(rn.rstrip("*"))
    return names


def _msi_arm(ctx, f, path):
    """which arm of maintain_secondary_indexes' match the path took: (arm, names derived from old row, from new row)"""
    pnames = [n for n, _t in f.params]
    olds, news, asgs = _msi_chain(path, pnames[2]), _msi_chain(path, pnames[3]), _msi_chain(path, pnames[4])

    def disc(names):
        for n in names:
            for v in (0, 1):
                if f"(= {ctx.smtname(n + '#d')} {bvconst(v, 64)})" in path.pc:
                    return v
        return None
    o, n, a = disc(olds), disc(news), disc(asgs)
    arm = {(0, 1, 0): "insert", (1, 0, 0): "delete", (1, 1, 1): "update"}.get((o, n, a))
    return arm, olds, news


@obligation(id="C06.index_entry_follows_update", also="C07", funcs="DmlExecutor::maintain_secondary_indexes",
            bounds="every path of maintain_secondary_indexes for one index (loop unrolled once) in the UPDATE arm "
                   "(old row, new row and assignments all present); callees uninterpreted",
            native="c06_index_follows_update")
def c06_index_update(env, ob):
    """An index entry is keyed by the indexed column values.  When an UPDATE writes to an index at all, the entry for the
    NEW row values must be built and written (otherwise lookups by the new value miss the row and uniqueness is enforced
    on stale keys)."""
    ctx, f, args, res = explore(env, "runtime/dml.rs", "maintain_secondary_indexes", sig=r"DmlExecutor", loop_bound=1)

    def bad(path, rv):
        if path.panics or rv is None:
            return None
        arm, olds, news = _msi_arm(ctx, f, path)
        if arm != "update":
            return None
        writes = _evs(path, r"Btree::<.*>::(insert|update|upsert)$")
        if not writes:
            return None                                     # index left alone (skip decision: not judged here)
        built = _evs(path, r"build_index_entry$")
        from_new = [e for e in built if any((e["argdesc"][0].lstrip("&") == n or e["argdesc"][0].lstrip("&").startswith(n + "@")
                                             or e["argdesc"][0].lstrip("&").startswith(n + ".")) for n in news)]
        if not from_new:
            return ("index_entry_for_the_new_values_is_never_built@update", ret_is_ok(rv))
        return None
    return trace_obligation(env, ob, ctx, res, bad, "UPDATE rewrites an index entry without building the entry of the new row values", cuts_ok=True)


@obligation(id="C07.index_insert_replaces_dead_entries", also="C06", funcs="DmlExecutor::maintain_secondary_indexes",
            bounds="every path of maintain_secondary_indexes for one index (loop unrolled once) in the INSERT arm; callees "
                   "uninterpreted", native="c07_unique_enforced")
def c07_index_insert(env, ob):
    """The validator accepts a key whose existing index entry is invisible (deleted, or written by a rolled-back
    transaction).  The INSERT arm must then make the entry point at the new row: it may leave a found entry alone only
    after establishing that the entry is live - not deleted AND not created by an aborted transaction."""
    ctx, f, args, res = explore(env, "runtime/dml.rs", "maintain_secondary_indexes", sig=r"DmlExecutor", loop_bound=1)

    def bad(path, rv):
        if path.panics or rv is None:
            return None
        arm, _o, _n = _msi_arm(ctx, f, path)
        if arm != "insert":
            return None
        if not _evs(path, r"build_index_entry$") or not _evs(path, r"search_tuple$"):
            return None
        if _evs(path, r"Btree::<.*>::(insert|update|upsert)$"):
            return None                                              # the entry was (re)written
        # no write on a successful path = "the found entry is live, keep it": that needs both liveness tests
        if not _evs(path, r"Tuple::is_deleted$|parse_for_snapshot$"):
            return ("found_entry_kept_without_checking_deletion@insert", ret_is_ok(rv))
        creator_checked = _evs(path, r"is_transaction_aborted$|parse_for_snapshot$|is_committed_before_snapshot$|is_valid_for_snapshot$|is_visible")
        if not creator_checked:
            return ("found_entry_kept_without_checking_its_creator_outcome@insert", ret_is_ok(rv))
        return None
    return trace_obligation(env, ob, ctx, res, bad, "INSERT keeps a found index entry although it may belong to a rolled-back transaction", cuts_ok=True)


@obligation(id="C06.join_associativity_uses_both_conditions", funcs="JoinAssociativityRule::apply",
            bounds="every path of the rule's apply(); memo lookups and the extract_* helpers uninterpreted (the helpers' "
                   "conjunct accounting is Kani's C06.assoc_conjuncts obligations)",
            native="c06_three_way_join_condition")
def c06_join_assoc(env, ob):
    """(A JOIN B ON inner) JOIN C ON outer  ->  A JOIN (B JOIN C): both new conditions must be extracted from the OUTER
    condition (first argument, taken from the matched expression) and the INNER condition (second argument, taken from the
    left child's first expression), with the same A-width; otherwise conjuncts are silently dropped or duplicated."""
    ctx, f, args, res = explore(env, "sql/planner/rules.rs", "apply", sig=r"_1: &JoinAssociativityRule", loop_bound=1)
    expr_p = f.params[1][0]

    def bad(path, rv):
        if path.panics or rv is None:
            return None
        bc, ac = _evs(path, r"^extract_bc_condition$|::extract_bc_condition$"), _evs(path, r"^extract_a_condition$|::extract_a_condition$")
        produced = _evs(path, r"LogicalExpr::new$")
        if not produced:
            return None
        if not bc or not ac:
            return ("join_rewritten_without_redistributing_the_conditions", ret_is_ok(rv))
        for e, what in ((bc[0], "bc"), (ac[0], "a")):
            a0, a1 = e["argdesc"][0], e["argdesc"][1]
            from_expr0 = a0.lstrip("&").startswith(expr_p)
            from_expr1 = a1.lstrip("&").startswith(expr_p)
            if not from_expr0 or from_expr1 or a0 == a1:
                return (f"{what}_condition_not_extracted_from_outer_and_inner_condition", ret_is_ok(rv))
        if bc[0]["argdesc"][2] != ac[0]["argdesc"][2]:
            return ("a_width_differs_between_the_two_extractions", ret_is_ok(rv))
        return None
    return trace_obligation(env, ob, ctx, res, bad, "join associativity redistributes the wrong conditions", cuts_ok=True)


@obligation(id="C06.key_only_joins_need_pure_equi_conditions", funcs="JoinRule::implement",
            bounds="every path of <JoinRule as ImplementationRule>::implement (loops unrolled once); callees uninterpreted",
            native="c06_join_with_extra_conjunct")
def c06_join_rule(env, ob):
    """HashJoinOp / MergeJoinOp are built from the extracted key pairs only (no residual condition): they may be offered
    as alternatives to the nested-loop join only when the WHOLE join condition is a conjunction of key equalities
    (JoinOp::is_equi_join); otherwise the other conjuncts are silently never evaluated once the cost model picks them."""
    ctx, f, args, res = explore(env, "sql/planner/rules.rs", "implement", sig=r"&JoinRule", loop_bound=1)

    def bad(path, rv):
        if path.panics or rv is None:
            return None
        hj = idx(path, r"(HashJoinOp::new|PhysicalOperator::HashJoin|PhysicalOperator::MergeJoin)$")
        keys = idx(path, r"extract_equi_keys$")
        first = (hj or keys)
        if not first:
            return None
        eq = [i for i in idx(path, r"is_equi_join$") if i < first[0]]
        if not eq:
            return ("key_only_join_offered_without_checking_that_the_condition_is_a_pure_equi_join", None)
        r = path.events[eq[-1]]["ret"]
        if isinstance(r, Leaf) and r.term in path.pc:
            return None
        return ("key_only_join_offered_although_the_condition_is_not_a_pure_equi_join", None)
    if not any(idx(p, r"extract_equi_keys$") for p, rv in res):
        return result(ob, "inconclusive", reason="vacuity: JoinRule::implement never extracts equi keys", paths=len(res))
    return trace_obligation(env, ob, ctx, res, bad, "JoinRule offers a hash / merge join for a condition with non-key conjuncts", cuts_ok=True)


@obligation(id="C06.join_keys_are_oriented", also="C05", funcs="orient_equi_keys,JoinRule::implement",
            bounds="orient_equi_keys: every path through <= 2 key pairs, ANY column indices and left width; "
                   "JoinRule::implement: every path (loops unrolled once), callees uninterpreted",
            native="c06_join_condition_written_either_way")
def c06_join_keys_oriented(env, ob):
    """`ON b.aid = a.id` yields the pair (column of the right input, column of the left input).  The hash / merge join
    split a pair into a left key (index into the left schema) and a right key (index - left width into the right schema):
    every pair that reaches the split must name the left input first, and a pair inside one input must not become a key.
    (1) every pair orient_equi_keys outputs satisfies a < left width <= b and is the input pair or its mirror image;
    (2) JoinRule::implement builds key joins only from orient_equi_keys' output."""
    try:
        ctx, f, args, res = explore(env, "", "orient_equi_keys", loop_bound=2)
        lc = args[1].term
    except Unsupported:
        ctx, res, lc = mirsmt.Ctx(), [], None     # no such function on this tree: law (2) decides
    qs, labels, pushes = [], [], 0
    for path, rv in res:
        if path.cut:
            continue
        last_in = None
        for e in path.events:
            if re.search(r"slice::Iter<'_, \(usize, usize\)> as Iterator>::next$", e["callee"]) and isinstance(e["ret"], Agg):
                nm = e["ret"].name
                last_in = (ctx.declare(nm + "@Some.0*.0", "usize").term, ctx.declare(nm + "@Some.0*.1", "usize").term)
            if re.search(r"Vec::<\(usize, usize\)>::push$", e["callee"]):
                pushes += 1
                t = e["args"][1]
                if not isinstance(t, Agg) or last_in is None:
                    return result(ob, "inconclusive", reason="pushed pair not understood")
                a, b = t.fields["0"].val.term, t.fields["1"].val.term
                pre = e.get("pc_prefix", path.pc)
                qs.append(conj(pre + [f"(not (and (bvult {a} {lc}) (bvuge {b} {lc})))"]))
                labels.append("oriented_pair_does_not_name_the_left_input_first")
                l, r = last_in
                qs.append(conj(pre + [f"(not (or (and (= {a} {l}) (= {b} {r})) (and (= {a} {r}) (= {b} {l}))))"]))
                labels.append("oriented_pair_is_not_the_extracted_pair")
    if pushes < 2 and lc is not None:
        return result(ob, "inconclusive", reason="vacuity: orient_equi_keys pushes no pair", paths=len(res))
    chk = env.check(ctx, qs) if qs else []
    failed = {lab for lab, c in zip(labels, chk) if c["verdict"] == "sat"}
    unk = [c["verdict"] for c in chk if c["verdict"] not in ("sat", "unsat")]
    # (2) the call site
    ctx2, f2, args2, res2 = explore(env, "sql/planner/rules.rs", "implement", sig=r"&JoinRule", loop_bound=1)
    seen = 0
    for path, rv in res2:
        if path.panics or rv is None:
            continue
        hj = idx(path, r"(HashJoinOp::new|PhysicalOperator::HashJoin|PhysicalOperator::MergeJoin)$")
        if not hj:
            continue
        seen += 1
        ex = [i for i in idx(path, r"extract_equi_keys$") if i < hj[0]]
        orr = [i for i in idx(path, r"orient_equi_keys$") if i < hj[0]]
        if not ex or not orr or orr[-1] < ex[-1]:
            failed.add("key_join_built_from_pairs_that_were_not_oriented")
            continue
        # the oriented pairs must be what the extraction returned
        src = mirsmt.describe(path.events[ex[-1]]["ret"]).lstrip("&")
        oa = path.events[orr[-1]]["argdesc"]
        via = [mirsmt.describe(e["ret"]).lstrip("&") for e in path.events[ex[-1]:orr[-1]]
               if re.search(r" as Deref>::deref$|::as_slice$", e["callee"]) and src in " ".join(e["argdesc"])]
        if src not in oa[0] and not any(v in oa[0] for v in via):
            failed.add("orientation_applied_to_something_else_than_the_extracted_pairs")
        # ... with the width of the LEFT input
        lsi = env.struct_fields("sql/planner/logical.rs", "JoinOp").index("left_schema")
        widths = [mirsmt.describe(e["ret"]) for e in path.events[:orr[-1]]
                  if re.search(r"Schema::num_columns$", e["callee"]) and re.search(r"\." + str(lsi) + r"$", e["argdesc"][0])]
        if not any(w == oa[1] for w in widths):
            failed.add("orientation_does_not_use_the_width_of_the_left_input")
    kw = dict(paths=len(res) + len(res2), queries=len(chk), events={"pairs_pushed": pushes, "paths_offering_a_key_join": seen})
    if failed:
        return result(ob, "violated", failed=sorted(failed), cex={"what": "a join key pair reaches the left/right split the wrong way round"}, **kw)
    if unk:
        return result(ob, "inconclusive", reason="solver: " + ",".join(unk[:3]), **kw)
    if not seen:
        return result(ob, "inconclusive", reason="vacuity: JoinRule::implement never offers a key join", **kw)
    if lc is None:
        return result(ob, "inconclusive", reason="orient_equi_keys not found in the dump", **kw)
    return result(ob, "discharged", **kw)


@obligation(id="C05.outer_joins_keep_unmatched_right_rows", also="C06", funcs="MergeJoin::next,NestedLoopJoin::next",
            bounds="every path of ONE round of the loop of MergeJoin::next, and of one call of NestedLoopJoin::next (loops "
                   "unrolled once), from ANY operator state; child operators, key extraction and comparison uninterpreted",
            native="c05_outer_joins_keep_unmatched_rows")
def c05_outer_joins(env, ob):
    """RIGHT and FULL joins keep the right rows that find no partner, padded with NULLs, whichever algorithm runs (the
    cost model picks the merge join for pure equi conditions, the nested loop join otherwise).  (1) Merge join: a right
    row may only be passed over (`advance_right` outside the buffering of equal keys) after it has been emitted through
    `nulls_with_right` when the join type is RIGHT or FULL.  (2) Nested loop join: the left width handed to
    `nulls_with_right` is not the field that is only learned from the first left row while that field can still be 0."""
    jt = env.enum_variants("sql/parser/ast.rs", "JoinType")
    failed, inc, kw = set(), [], {"paths": 0, "queries": 0, "events": {}}
    # (1) merge join
    # ONE round of the operator's loop from an arbitrary state (loop_bound=0: a path ends at the back edge): the helper
    # calls take `&mut self` and are uninterpreted, so after them nothing is known about the operator's fields any more
    # (advance_left / advance_right are inlined from MIR: they touch the cursor fields only, not the join type)
    JOIN = "runtime/ops/join.rs"
    inl = {r"MergeJoin::<.*>::advance_left$": (JOIN, "advance_left", r"&mut MergeJoin<Left, Right>"),
           r"MergeJoin::<.*>::advance_right$": (JOIN, "advance_right", r"&mut MergeJoin<Left, Right>")}
    ctx, f, args, res = explore(env, JOIN, "next", sig=r"&mut MergeJoin<Left, Right>", loop_bound=0, inline=inl)
    fields = env.struct_fields("runtime/ops/join.rs", "MergeJoin")
    me = args[0].cell.val
    jtd = me.field_cell(str(fields.index("join_type")), "sql::parser::ast::JoinType").val
    if not isinstance(jtd, Agg):
        return result(ob, "inconclusive", reason="join_type of MergeJoin not an enum in the dump")
    d = jtd.get_disc().term
    outer = f"(or (= {d} {bvconst(jt['Right'], 64)}) (= {d} {bvconst(jt['Full'], 64)}))"
    qs, n_adv = [], 0
    for path, rv in res:
        if path.panics:
            continue
        emitted = False
        for e in path.events:
            if e["callee"].endswith("nulls_with_right"):
                emitted = True
            elif e.get("fn") == "advance_right" and re.search(r"^<Right as (?:runtime::)?Executor>::next$", e["callee"]):
                n_adv += 1
                if not emitted:
                    qs.append(conj(e.get("pc_prefix", path.pc) + [outer]))
    kw["paths"] += len(res)
    kw["events"]["advance_right_in_merge_join"] = n_adv
    if not n_adv:
        inc.append("vacuity: MergeJoin::next never passes over a right row")
    elif qs:
        chk = env.check(ctx, [disj(sorted(set(qs)))])
        kw["queries"] += 1
        if chk[0]["verdict"] == "sat":
            failed.add("right_row_passed_over_without_being_emitted@merge_join")
        elif chk[0]["verdict"] != "unsat":
            inc.append("solver: " + chk[0]["verdict"])
    # (2) nested loop join
    ctx2, f2, args2, res2 = explore(env, "runtime/ops/join.rs", "next", sig=r"&mut NestedLoopJoin<Left, Right>", loop_bound=1)
    nf = env.struct_fields("runtime/ops/join.rs", "NestedLoopJoin")
    lc0 = args2[0].cell.val.field_cell(str(nf.index("left_cols")), "usize").val
    q2, n_pad = [], 0
    for path, rv in res2:
        if path.panics:
            continue
        read_left = False
        for e in path.events:
            if re.search(r"^<Left as (?:runtime::)?Executor>::next$", e["callee"]):
                read_left = True
            if e["callee"].endswith("nulls_with_right"):
                n_pad += 1
                w = e["args"][1]
                if isinstance(w, Leaf) and isinstance(lc0, Leaf) and w.term == lc0.term and not read_left:
                    q2.append(conj(e.get("pc_prefix", path.pc) + [f"(= {lc0.term} {bvconst(0, 64)})"]))
    kw["paths"] += len(res2)
    kw["events"]["nulls_with_right_in_nested_loop_join"] = n_pad
    if not n_pad:
        inc.append("vacuity: NestedLoopJoin::next never pads a right row")
    elif q2:
        chk = env.check(ctx2, [disj(sorted(set(q2)))])
        kw["queries"] += 1
        if chk[0]["verdict"] == "sat":
            failed.add("right_row_padded_to_a_left_width_that_was_never_learned@nested_loop_join")
        elif chk[0]["verdict"] != "unsat":
            inc.append("solver: " + chk[0]["verdict"])
    kw["queries"] = max(kw["queries"], 1)
    if failed:
        return result(ob, "violated", failed=sorted(failed), cex={"what": "a RIGHT / FULL join loses or mis-shapes right rows without a partner"}, **kw)
    if inc:
        return result(ob, "inconclusive", reason="; ".join(inc)[:300], **kw)
    return result(ob, "discharged", **kw)


@obligation(id="C06.index_scan_is_exhaustive", funcs="IndexScan::next",
            bounds="every path of IndexScan::next through <= 2 index entries; tree / predicate calls uninterpreted",
            native="c06_composite_index_upper_bound")
def c06_index_scan_exhaustive(env, ob):
    """The index range bounds are evaluated per entry (they may constrain non-leading key columns, whose values are not
    monotone along the index), so the scan may only end when the cursor is exhausted; and an entry is dropped only after
    the visibility read, the index predicate or the residual predicate said so."""
    ctx, f, args, res = explore(env, "runtime/ops/index_scan.rs", "next", loop_bound=2)

    def bad(path, rv):
        if path.panics or rv is None:
            return None
        # Ok(None)?
        okv = rv.variants.get("Ok")
        if okv is None or not isinstance(okv.val, Agg):
            return None
        inner = okv.val.fields.get("0")
        iv = inner.val if inner is not None else None
        if not isinstance(iv, Agg) or iv.disc is None or mirsmt.const_of(iv.disc.term) != 0:
            return None
        nxt = [e for e in path.events if re.search(r"BtreePositionalIterator.* as Iterator>::next$", e["callee"])]
        if not nxt:
            return None                       # cursor absent (empty index)
        last = nxt[-1]["ret"]
        exhausted = f"(= {last.get_disc().term} {bvconst(0, 64)})"
        return ("scan_ends_before_the_index_cursor_is_exhausted", f"(not {exhausted})")
    a = trace_obligation(env, ob, ctx, res, bad, "IndexScan::next returns None although the cursor still has entries", cuts_ok=True)

    # ... and a call that produced a row must leave the cursor in place for the next call (an equality on PART of a
    # composite key matches many entries although every index is unique)
    names = env.struct_fields("runtime/ops/index_scan.rs", "IndexScan")
    ci = str(names.index("cursor")) if "cursor" in names else None

    def bad_cursor(path, rv):
        if path.panics or rv is None or ci is None:
            return None
        okv = rv.variants.get("Ok")
        inner = okv.val.fields.get("0") if okv is not None and isinstance(okv.val, Agg) else None
        iv = inner.val if inner is not None else None
        if not isinstance(iv, Agg):
            return None
        produced = iv.disc is not None and mirsmt.const_of(iv.disc.term) == 1 or (iv.disc is None and iv.name is not None)
        if not produced:
            return None
        ff = getattr(path, "final_frame", None)
        me_ = ff.cells.get("_1").val if ff is not None and ff.cells.get("_1") is not None else None
        obj = me_.cell.val if isinstance(me_, Ref) else None
        cur = obj.fields.get(ci).val if isinstance(obj, Agg) and obj.fields.get(ci) is not None else None
        if isinstance(cur, Agg) and cur.name is None and cur.disc is not None and mirsmt.const_of(cur.disc.term) == 0:
            return ("cursor_discarded_after_producing_a_row", None)
        return None
    b = trace_obligation(env, ob, ctx, res, bad_cursor, "IndexScan::next throws its cursor away after producing a row", cuts_ok=True)
    return merge(a, b)


# ---------------------------------------------------------------------------------------------------------------------
# C07: constraint decisions (NOT NULL / UNIQUE) and their place in the DML paths
# ---------------------------------------------------------------------------------------------------------------------
VALIDATOR = "runtime/validator.rs"


def _evs(path, rx):
    return [e for e in path.events if re.search(rx, e["callee"])]


def _ret_ok_false(ctx, ev):
    """SMT: the Result<bool,_> returned by this call is Ok(false) / Ok(true) / Ok"""
    r = ev["ret"]
    d = r.get_disc().term
    b = r.variant_cell("Ok").val.field_cell("0", "bool").val.term
    return f"(= {d} {bvconst(0, 64)})", b


@obligation(id="C07.not_null_decision", funcs="ConstraintValidator::validate_not_null_constraints",
            bounds="every path over <= 2 columns (the per-column decision is the loop body; more columns repeat it); "
                   "Column.is_non_null, the value slice length and DataType::is_null are symbolic",
            native="c07_not_null_enforced")
def c07_not_null(env, ob):
    """Per column: (is_non_null AND idx < values.len() AND values[idx].is_null()) <=> the statement is rejected here."""
    ctx, f, args, res = explore(env, VALIDATOR, "validate_not_null_constraints", loop_bound=2)
    k = env.struct_fields("schema/base.rs", "Column").index("is_non_null")

    def iterations(path):
        """[(nn_term|None, idx_term, isnull_term|None)] for every column the path looked at"""
        out = []
        evs = path.events
        for i, e in enumerate(evs):
            if not re.search(r"Enumerate<.*> as Iterator>::next$", e["callee"]):
                continue
            nm = e["ret"].name
            nn = ctx.smtname(f"{nm}@Some.0.1*.{k}")
            ix = ctx.smtname(f"{nm}@Some.0.0")
            isn = None
            for e2 in evs[i + 1:]:
                if re.search(r"as Iterator>::next$", e2["callee"]):
                    break
                if re.search(r"DataType::is_null$", e2["callee"]):
                    isn = e2["ret"].term
            out.append((nn if nn in ctx.decls else None, ix if ix in ctx.decls else None, isn, e))
        return out

    def bad(path, rv):
        if path.panics or rv is None:
            return None
        its = iterations(path)
        lens = set(re.findall(r"\|len![0-9]+\|", " ".join(path.pc)))
        ln = sorted(lens)[0] if lens else None
        some = [it for it in its if f"(= {it[3]['ret'].get_disc().term} {bvconst(1, 64)})" in path.pc]
        # columns that were passed over (all but the one at which a constructed Err is returned)
        errv = rv.variants.get("Err")
        constructed_err = errv is not None and isinstance(errv.val, Agg) and errv.val.name is None
        passed = some[:-1] if (constructed_err and some) else some
        disj_terms = []
        for nn, ix, isn, _e in passed:
            c = [nn or "true", (f"(bvult {ix} {ln})" if (ix and ln) else "true"), isn or "true"]
            disj_terms.append(conj(c))
        if disj_terms:
            return ("null_accepted_in_not_null_column", disj(disj_terms))
        return None

    def bad_reject(path, rv):
        if path.panics or rv is None:
            return None
        errv = rv.variants.get("Err")
        if not (errv is not None and isinstance(errv.val, Agg) and errv.val.name is None):
            return None
        its = iterations(path)
        if not its:
            return ("rejected_without_looking_at_a_column", None)
        nn, ix, isn, _e = its[-1]
        if nn is None or isn is None:
            return ("rejected_without_checking_nullability_and_value", None)
        return ("non_null_value_or_nullable_column_rejected", f"(not (and {nn} {isn}))")
    a = trace_obligation(env, ob, ctx, res, bad, "a NULL in a NOT NULL column is let through", cuts_ok=True)
    b = trace_obligation(env, ob, ctx, res, bad_reject, "a row is rejected although the column is nullable or the value is not NULL", cuts_ok=True)
    return merge(a, b)


@obligation(id="C07.unique_decision", funcs="ConstraintValidator::validate_unique_constraints",
            bounds="every path over <= 2 indexes; search_index uninterpreted (its own decision: C07.unique_probe)",
            native="c07_unique_enforced")
def c07_unique(env, ob):
    """Ok <=> every index probe answered Ok(false); a probe answering Ok(true) rejects the statement."""
    ctx, f, args, res = explore(env, VALIDATOR, "validate_unique_constraints", loop_bound=2)

    def bad(path, rv):
        if path.panics or rv is None:
            return None
        probes = _evs(path, r"search_index$")
        isok = f"(= {rv.get_disc().term} {bvconst(0, 64)})"
        conds = []
        for e in probes:
            okd, b = _ret_ok_false(ctx, e)
            conds.append(f"(and {okd} {b})")
        if conds:
            return ("conflict_reported_by_the_probe_is_ignored", conj([isok, disj(conds)]))
        return None

    def bad2(path, rv):
        if path.panics or rv is None:
            return None
        probes = _evs(path, r"search_index$")
        iserr = f"(not (= {rv.get_disc().term} {bvconst(0, 64)}))"
        conds = [iserr]
        for e in probes:
            okd, b = _ret_ok_false(ctx, e)
            conds.append(f"(and {okd} (not {b}))")
        return ("rejected_although_no_probe_found_a_conflict", conj(conds))
    a = trace_obligation(env, ob, ctx, res, bad, "validate_unique_constraints returns Ok although a probe found a conflict", cuts_ok=True)
    b = trace_obligation(env, ob, ctx, res, bad2, "validate_unique_constraints rejects although every probe said no conflict", cuts_ok=True)
    return merge(a, b)


@obligation(id="C07.unique_probe", also="C03", funcs="ConstraintValidator::search_index,ConstraintValidator::search_index::{closure#0}",
            bounds="every path of the probe closure and of search_index (key columns <= 1 loop iteration); B+tree search, "
                   "TupleReader::parse_for_snapshot (decided by the C04 obligations) and HashSet::contains uninterpreted",
            native="c07_unique_enforced")
def c07_probe(env, ob):
    """The probe reports a conflict exactly when the found index entry is visible to the statement's snapshot and is not
    the row being updated: invisible (deleted / rolled back / changed away) entries never conflict, visible ones always."""
    # the probe closure is the one taking the stored entry's bytes; its ordinal changes when another closure is added
    probe = None
    for k in range(8):
        try:
            env.mir.find(VALIDATOR, "search_index::{closure#%d}" % k, r"_2: &\[u8\]\) -> Result<bool")
            probe = "search_index::{closure#%d}" % k
            break
        except Unsupported:
            continue
    if probe is None:
        raise Unsupported("no closure of search_index takes the entry bytes and returns Result<bool, _>")
    ctx, f, args, res = explore(env, VALIDATOR, probe, sig=r"_2: &\[u8\]\) -> Result<bool", loop_bound=1)

    def vis_terms(path):
        p = _evs(path, r"parse_for_snapshot$")
        if not p:
            return None
        r = p[0]["ret"]
        okd = f"(= {r.get_disc().term} {bvconst(0, 64)})"
        some = f"(= {ctx.smtname(r.name + '@Ok.0#d')} {bvconst(1, 64)})"
        return okd, some

    def bad(path, rv):
        if path.panics or rv is None:
            return None
        isok = f"(= {rv.get_disc().term} {bvconst(0, 64)})"
        okv = rv.variants.get("Ok")
        val = okv.val.fields["0"].val.term if okv is not None and isinstance(okv.val, Agg) and "0" in okv.val.fields else None
        v = vis_terms(path)
        if val is None:
            return None
        if v is None:
            return ("probe_decides_without_a_snapshot_read", f"(and {isok} {val})")
        okd, some = v
        excl = [t for t in path.pc if t.startswith("(|in:")]     # the path took the `excluded_set.contains(row id)` branch
        if val == "true":
            return ("invisible_entry_reported_as_conflict", conj([isok, f"(not (and {okd} {some}))"]))
        if val == "false" and not excl:
            # without the self-exclusion branch a 'no conflict' verdict needs an invisible entry
            return ("visible_entry_of_another_row_not_reported", conj([isok, okd, some]))
        if val not in ("true", "false"):
            return ("probe_verdict_is_not_a_decision_of_this_closure", isok)
        return None
    a = trace_obligation(env, ob, ctx, res, bad, "unique probe closure decides against the visibility of the entry")

    # outer function: Found -> the closure's verdict is returned; NotFound / NULL key -> no conflict
    ctx2, f2, args2, res2 = explore(env, VALIDATOR, "search_index", sig=r"ConstraintValidator", loop_bound=1)

    def bad_outer(path, rv):
        if path.panics or rv is None:
            return None
        w = _evs(path, r"with_cell_at")
        s_ = _evs(path, r"Btree::<.*>::search$")
        okv = rv.variants.get("Ok")
        val = okv.val.fields["0"].val if okv is not None and isinstance(okv.val, Agg) and "0" in okv.val.fields else None
        if val is None:
            return None
        if w:
            # verdict must be the closure's
            r = w[0]["ret"]
            return None if "ret:" in val.term else ("probe_result_not_taken_from_the_visibility_closure", None)
        if s_ and not w:
            if mirsmt.const_of(val.term) != 0 and val.term != "false":
                return ("conflict_reported_without_looking_at_the_entry", None)
        return None
    b = trace_obligation(env, ob, ctx2, res2, bad_outer, "search_index verdict", cuts_ok=True)

    # "no conflict" without looking into the index is only right when a column OF THE KEY is NULL (and NULLs are skipped)
    def bad_skip(path, rv):
        if path.panics or rv is None:
            return None
        if _evs(path, r"Btree::<.*>::search"):
            return None
        isok = f"(= {rv.get_disc().term} {bvconst(0, 64)})"
        for e in _evs(path, r"DataType::is_null$"):
            from_key = any("Iterator>::next" in d for d in e.get("argdesc", []))
            if from_key and isinstance(e["ret"], Leaf) and e["ret"].term in path.pc:
                return None
        return ("uniqueness_probe_skipped_without_a_null_in_a_key_column", isok)
    c = trace_obligation(env, ob, ctx2, res2, bad_skip, "search_index answers 'no conflict' without probing the index although no "
                         "indexed column of the new row was found NULL", cuts_ok=True)
    return merge(merge(a, b), c)


@obligation(id="C07.validated_before_write", funcs="DmlExecutor::insert,DmlExecutor::update,DmlExecutor::validate_insert_constraints,"
            "DmlExecutor::validate_update_constraints",
            bounds="every path of the four functions (loops unrolled once); callees uninterpreted",
            native="c07_unique_enforced")
def c07_before_write(env, ob):
    """A row reaches the table tree / the log only after its constraints were validated successfully, and the validators
    run the NOT NULL and the UNIQUE checks on the new values (the update excluding exactly the updated row)."""
    agg = None
    for fn, vrx in (("insert", r"validate_insert_constraints$"), ("update", r"validate_update_constraints$")):
        ctx, f, args, res = explore(env, "runtime/dml.rs", fn, sig=r"DmlExecutor", loop_bound=1)

        def bad(path, rv, fn=fn, vrx=vrx):
            if path.panics or rv is None:
                return None
            w = [i for i, e in enumerate(path.events) if re.search(r"Btree::<.*>::(insert|update|upsert)$|log_insert$|log_update$", e["callee"])]
            if not w:
                return None
            v = idx(path, vrx)
            if not v or v[0] > w[0]:
                return (f"write_before_constraint_validation@DmlExecutor::{fn}", None)
            return None
        agg = merge(agg, trace_obligation(env, ob, ctx, res, bad, "DML writes a row whose constraints were not validated first", cuts_ok=True))
    for fn in ("validate_insert_constraints", "validate_update_constraints"):
        ctx, f, args, res = explore(env, "runtime/dml.rs", fn, sig=r"DmlExecutor", loop_bound=1)

        def bad(path, rv, fn=fn):
            if path.panics or rv is None:
                return None
            isok = ret_is_ok(rv)
            nn, un = idx(path, r"validate_not_null_constraints$"), idx(path, r"validate_unique_constraints$")
            if not nn or not un:
                return (f"validator_skips_a_check@{fn}", isok)
            if fn == "validate_update_constraints" and not idx(path, r"HashSet::<u64.*>::insert$"):
                return ("update_validation_does_not_exclude_the_updated_row", isok)
            return None
        agg = merge(agg, trace_obligation(env, ob, ctx, res, bad, "a validator returns Ok without running NOT NULL and UNIQUE checks", cuts_ok=True))
    return agg


def _range_models(lo_hi):
    """models for RangeInclusive<u64>: new / into_iter / next (next yields ONE arbitrary element of the range, or None)"""
    def m_new(ex, path, frame, callee, args, dest_ty):
        if len(args) != 2 or not all(isinstance(a, Leaf) for a in args):
            return NotImplemented
        a = Agg(ex.ctx, None, dest_ty)
        a.fields["start"], a.fields["end"] = Cell(args[0]), Cell(args[1])
        lo_hi.append((args[0].term, args[1].term))
        return a

    def m_into(ex, path, frame, callee, args, dest_ty):
        return args[0]

    def m_next(ex, path, frame, callee, args, dest_ty):
        r = args[0].cell.val if isinstance(args[0], Ref) else args[0]
        if not isinstance(r, Agg) or "start" not in r.fields:
            return NotImplemented
        lo, hi = r.fields["start"].val.term, r.fields["end"].val.term
        out = Agg(ex.ctx, ex.ctx.fresh("range_next"), dest_ty)
        d = out.get_disc().term
        x = out.variant_cell("Some").val.field_cell("0", "u64").val.term
        path.pc.append(f"(=> (= {d} {bvconst(1, 64)}) (and (bvule {lo} {x}) (bvule {x} {hi})))")
        path.pc.append(f"(or (= {d} {bvconst(0, 64)}) (= {d} {bvconst(1, 64)}))")
        return out
    return {r"RangeInclusive::<u64>::new$": m_new, r"RangeInclusive<u64> as IntoIterator>::into_iter$": m_into,
            r"RangeInclusive<u64> as Iterator>::next$": m_next}


@obligation(id="C13.bitmap_clear_in_bounds", also="C09", funcs="PageZeroHeader::clear_aborted_up_to",
            bounds="every horizon (u64) and every id the clearing loop can visit (the loop body is executed for one arbitrary "
                   "element of its range); MAX_TRACKED_ABORTED_TXS / ABORTED_BITMAP_SIZE read from the source",
            native="c13_vacuum_with_large_horizon")
def c13_bitmap_clear_bounds(env, ob):
    """VACUUM clears the aborted bitmap up to the last committed id; whatever that id is (also >= the 8192 ids the bitmap
    tracks) no iteration may index outside the bitmap or otherwise panic - a panic here kills the VACUUM worker after the
    trees were rewritten but before commit."""
    lo_hi = []
    ctx, f, args, res = explore(env, "storage/page.rs", "clear_aborted_up_to", sig=r"PageZeroHeader", loop_bound=1, models=_range_models(lo_hi))
    consts = [n for n in ctx.decls if "MAX_TRACKED_ABORTED_TXS" in n]
    val = env.const_value("storage/page.rs", "MAX_TRACKED_ABORTED_TXS")
    ties = ["(= %s %s)" % (n, bvconst(val, int(re.search(r"(\d+)", ctx.decls[n]).group(1)))) for n in consts]
    if not lo_hi:
        raise Unsupported("clearing loop is not a RangeInclusive<u64> any more")
    pan = [p for p, rv in res if p.panics]
    good = [p for p, rv in res if not p.panics and not p.cut]
    qs = [conj(p.pc + ties) for p in pan] + [conj(good[0].pc + ties)] if good else []
    chk = env.check(ctx, qs) if qs else []
    kw = dict(paths=len(res), queries=len(qs))
    if not good or chk[-1]["verdict"] != "sat":
        return result(ob, "inconclusive", reason="vacuity: no feasible normal path", **kw)
    bad = [p.panics for p, c in zip(pan, chk) if c["verdict"] == "sat"]
    odd = [c["verdict"] for c in chk[:-1] if c["verdict"] not in ("sat", "unsat")]
    if bad:
        return result(ob, "violated", failed=["clearing_loop_can_panic:" + re.sub(r"[^A-Za-z0-9]+", "_", bad[0])[:60]], cex={"panics": bad[:3], "range": lo_hi[:1]}, **kw)
    if odd:
        return result(ob, "inconclusive", reason=";".join(odd), **kw)
    return result(ob, "discharged", **kw)


@obligation(id="C13.vacuum_covers_every_relation", also="C03", funcs="Catalog::vacuum,Catalog::vacuum::{closure#0}",
            bounds="every path of the per-catalog-row closure and of Catalog::vacuum (loops unrolled once); callees uninterpreted",
            native="c13_vacuum_cleans_indexes_too")
def c13_vacuum_covers(env, ob):
    """VACUUM forgets which transactions aborted (the bitmap is cleared afterwards), so every tree that can hold their
    tuples must be cleaned first: every relation visible in the catalog - tables AND indexes - is queued, and the meta
    table and the meta index are vacuumed as well."""
    ctx, f, args, res = explore(env, "schema/catalog.rs", "vacuum::{closure#0}", loop_bound=1)

    def bad(path, rv):
        if path.panics or rv is None:
            return None
        rel = _evs(path, r"Relation::from_meta_table_row$")
        if not rel:
            return None
        if not _evs(path, r"Vec::<.*>::push$"):
            return ("visible_relation_not_queued_for_vacuum", ret_is_ok(rv))
        return None
    a = trace_obligation(env, ob, ctx, res, bad, "a relation read from the catalog is skipped by VACUUM")
    ctx2, f2, args2, res2 = explore(env, "schema/catalog.rs", "vacuum", sig=r"Catalog", loop_bound=1)

    def bad2(path, rv):
        if path.panics or rv is None:
            return None
        vb = _evs(path, r"vacuum_btree$")
        emptyret = not _evs(path, r"iter_forward$")
        if emptyret:
            return None                                   # empty catalog: early return
        looped = [e for e in path.events if re.search(r"IntoIter<\(.*\)> as Iterator>::next$", e["callee"])]
        some = [e for e in looped if f"(= {e['ret'].get_disc().term} {bvconst(1, 64)})" in path.pc]
        if len(vb) < 2 + len(some):
            return ("queued_relation_or_catalog_tree_not_vacuumed", ret_is_ok(rv))
        return None
    b = trace_obligation(env, ob, ctx2, res2, bad2, "Catalog::vacuum skips a queued relation or a catalog tree", cuts_ok=True)
    return merge(a, b)


# ---------------------------------------------------------------------------------------------------------------------
# C13: VACUUM's removal decision
# ---------------------------------------------------------------------------------------------------------------------
@obligation(id="C13.remove_decision", funcs="Catalog::vacuum_btree::{closure#0}",
            bounds="every path of the per-tuple closure; Tuple::xmin/is_deleted/xmax, Snapshot::is_transaction_aborted, "
                   "Tuple::vaccum_with uninterpreted", native="c13_rolled_back_delete_survives_vacuum")
def c13_remove_decision(env, ob):
    ctx, f, args, res = explore(env, "schema/catalog.rs", "vacuum_btree::{closure#0}",
                                pure=[r"Tuple::xmin$", r"Tuple::xmax$", r"Tuple::is_deleted$", r"is_transaction_aborted$",
                                      r"is_committed_before_snapshot$"])
    # which captured Vec is `tuples_to_remove`: read the debug info of the closure
    rm_field = None
    for k, v in f.debug.items():
        if k == "tuples_to_remove":
            m = re.search(r"_1\.(\d+):", v)
            rm_field = m.group(1) if m else None
    if rm_field is None:
        raise Unsupported("closure capture `tuples_to_remove` not found in debug info")

    def bad(path, rv):
        if path.panics:
            return None
        pushes = [e for e in path.events if callee_is(e, r"^Vec::<.*Tuple>::push$")]
        removed = False
        for e in pushes:
            # the Vec reference was loaded from capture field rm_field: its pointee name ends with `.<field>*`
            if e["argdesc"][0].endswith(f".{rm_field}*"):
                removed = True
        if not removed:
            return None
        # justification available on this path?
        ab = [e for e in path.events if callee_is(e, r"is_transaction_aborted$")]
        creator_aborted = [e for e in ab if isinstance(e["ret"], Leaf)]
        conds = []
        for e in creator_aborted:
            conds.append(e["ret"].term)   # aborted(creator) may justify removal
        deleter_checked = any(callee_is(e, r"(Tuple::xmax$|is_committed_before_snapshot$)") for e in path.events)
        if deleter_checked:
            return None
        # removal justified only if creator aborted: violation iff path feasible with NOT aborted(creator)
        extra = conj([f"(not {c})" for c in conds]) if conds else None
        return ("tuple_removed_without_checking_deleter_outcome", extra)
    return trace_obligation(env, ob, ctx, res, bad,
                            "tuple pushed on tuples_to_remove although its creator is not aborted and the state of the deleting transaction was never consulted")


# ---------------------------------------------------------------------------------------------------------------------
# C03 / C18: stamping of a new row version
# ---------------------------------------------------------------------------------------------------------------------
@obligation(id="C03.update_stamp", also="C18,C04", funcs="Tuple::add_version_with",
            bounds="every path of add_version_with up to the header rewrite; callees uninterpreted",
            native="c03_update_keeps_creator_stamp")
def c03_update_stamp(env, ob):
    ctx, f, args, res = explore(env, "storage/tuple.rs", "add_version_with", loop_bound=1)
    # locate the parameter that carries the updating transaction id
    pidx = None
    for i, (pn, pt) in enumerate(f.params):
        if f.debug.get("new_xmin") == pn:
            pidx = i
    if pidx is None:
        raise Unsupported("parameter new_xmin not found in add_version_with")
    newx = args[pidx]

    def bad(path, rv):
        if path.panics or rv is None:
            return None
        hdrs = [e for e in path.events if callee_is(e, r"TupleHeader::new$")]
        if not hdrs:
            return None
        okc = ret_is_ok(rv)
        e = hdrs[-1]
        xm = e["args"][1]
        if isinstance(xm, Leaf) and isinstance(newx, Leaf):
            if xm.term == newx.term:
                return None
            return ("new_version_not_stamped_with_updater", conj([okc, f"(not (= {xm.term} {newx.term}))"]))
        return ("new_version_not_stamped_with_updater", okc)
    return trace_obligation(env, ob, ctx, res, bad, "TupleHeader::new for the new version does not receive new_xmin")


# ---------------------------------------------------------------------------------------------------------------------
# C19 / C10: composite keys are compared column by column, each read where the previous one ended
# ---------------------------------------------------------------------------------------------------------------------
@obligation(id="C19.composite_key_cursors", also="C10", funcs="CellComparator::compare_keys",
            bounds="every path of compare_keys with the key loop unrolled twice (keys of 1 and 2 columns); "
                   "DataTypeKind::deserialize and DataTypeRef::partial_cmp uninterpreted",
            native="c19_composite_key_order")
def c19_composite_cursors(env, ob):
    """When key column i compares Equal, column i+1 must be decoded at exactly the offsets where column i ended, in
    BOTH buffers (search key and stored cell)."""
    ctx, f, args, res = explore(env, "tree/cell_ops.rs", "compare_keys", loop_bound=2)
    cands = []
    n2 = 0
    for path, rv in res:
        if path.panics:
            continue
        des = [e for e in path.events if callee_is(e, r"::deserialize$")]
        if len(des) < 4:
            continue
        n2 += 1
        # events come in pairs (target, cell) per key column
        t1, c1, t2, c2 = des[0], des[1], des[2], des[3]

        def next_of(e):
            r = e["ret"]
            if not isinstance(r, Agg):
                return None
            ok = r.variants.get("Ok") if "Ok" in r.variants else None
            return None
        # the `next` cursors are read from the (mapped) Ok payload; find them through the argument of the later call
        cur_t2, cur_c2 = t2["args"][-1], c2["args"][-1]
        cur_t1, cur_c1 = t1["args"][-1], c1["args"][-1]
        if not all(isinstance(x, Leaf) for x in (cur_t2, cur_c2)):
            continue
        # the payload symbols of the first decode results: names derive from the event's return symbol
        nt = find_next_symbol(ctx, path, t1)
        nc = find_next_symbol(ctx, path, c1)
        if nt is None or nc is None:
            raise Unsupported("cannot locate the `next` cursor returned by deserialize")
        cands.append(conj(path.pc + [f"(or (not (= {cur_t2.term} {nt})) (not (= {cur_c2.term} {nc})))"]))
    if not cands:
        return result(ob, "inconclusive", reason="vacuity: no path decodes a second key column", paths=len(res))
    chk = env.check(ctx, [disj(sorted(set(cands)))])
    kw = dict(paths=len(res), queries=1, events=n2)
    if chk[0]["verdict"] == "unsat":
        return result(ob, "discharged", **kw)
    if chk[0]["verdict"] == "sat":
        return result(ob, "violated", failed=["second_key_column_read_at_wrong_offset"],
                      cex={"what": "after an Equal first key column the next column is decoded at an offset different from where the first one ended"}, **kw)
    return result(ob, "inconclusive", reason=chk[0]["verdict"], **kw)


def find_next_symbol(ctx, path, ev):
    """SMT symbol of the `.1` (next cursor) component of the Ok payload of a deserialize-like call result, following
    one map_err"""
    r = ev["ret"]
    names = [r.name] if isinstance(r, Agg) and r.name else []
    for e2 in path.events:
        if e2.get("modelled") and e2["args"] and isinstance(e2["ret"], Agg) and e2["ret"].name and \
                isinstance(e2["args"][0], Agg) and e2["args"][0].name == r.name:
            names.append(e2["ret"].name)
    # a later modelled map_err on this result produces an aggregate `mapped!k` sharing the Ok payload cell
    for nm in names:
        for cand in (f"{nm}@Ok.0.1",):
            sn = ctx.smtname(cand)
            if sn in ctx.decls:
                return sn
    return None


# ---------------------------------------------------------------------------------------------------------------------
# C20: no allocation out of proportion to the frame that asks for it
# ---------------------------------------------------------------------------------------------------------------------
@obligation(id="C20.alloc_bounded[Response::from_bytes]", funcs="Response::from_bytes",
            bounds="every path of Response::from_bytes (loops unrolled twice); decoded integers are free u32 values",
            assume="every slice handed to / derived inside from_bytes is at most MAX_MESSAGE_SIZE (16 MiB) long: "
                   "read_message rejects larger frames",
            native="c20_alloc_bounded")
def c20_alloc_bounded(env, ob):
    ctx, f, args, res = explore(env, "tcp/mod.rs", "from_bytes", sig=r"Result<Response")
    MAXB = bvconst(16 * 1024 * 1024, 64)
    lens = [f"(bvule {n} {MAXB})" for n in ctx.decls if n.startswith("|len!")]
    cands, n_ev = [], 0
    for path, rv in res:
        for e in path.events:
            if callee_is(e, r"::with_capacity$") and isinstance(e["args"][0], Leaf):
                n_ev += 1
                x = e["args"][0].term
                # path condition up to (and including) the whole path: later constraints cannot un-allocate, so only
                # the prefix matters; using the full pc is weaker (may miss) - use the prefix recorded at event time
                cands.append((path, conj(e.get("pc_prefix", path.pc) + lens + [f"(bvugt {x} {MAXB})"])))
    if not cands:
        return result(ob, "inconclusive", reason="vacuity: no with_capacity call found on any path", paths=len(res))
    # deduplicate identical queries
    uniq = sorted({c for _, c in cands})
    chk = env.check(ctx, uniq)
    sat = [c for c, r in zip(uniq, chk) if r["verdict"] == "sat"]
    inc = [r["verdict"] for r in chk if r["verdict"] not in ("sat", "unsat")]
    kw = dict(paths=len(res), queries=len(uniq), events=n_ev)
    if sat:
        return result(ob, "violated", failed=["capacity_taken_from_wire_unbounded"],
                      cex={"what": "Vec::with_capacity(n) is reachable with n > 16 Mi elements", "query": sat[0][-300:]}, **kw)
    if inc:
        return result(ob, "inconclusive", reason=inc[0], **kw)
    return result(ob, "discharged", **kw)


# ---------------------------------------------------------------------------------------------------------------------
# C05: negated predicates must be the Boolean complement of the plain predicate
# ---------------------------------------------------------------------------------------------------------------------
def collect_bool_results(v, out, depth=0):
    """Leaf bools wrapped as DataType::Bool(Bool(b)) anywhere inside v"""
    if depth > 12 or v is None:
        return
    if isinstance(v, Agg):
        for vn, c in v.variants.items():
            if vn == "Bool" and isinstance(c.val, Agg):
                inner = c.val.fields.get("0")
                if inner is not None and isinstance(inner.val, Agg):
                    b = inner.val.fields.get("0")
                    if b is not None and isinstance(b.val, Leaf) and b.val.ty == "bool":
                        out.append(b.val)
            collect_bool_results(c.val, out, depth + 1)
        seen = set()
        for k, c in v.fields.items():
            if id(c) in seen:
                continue
            seen.add(id(c))
            collect_bool_results(c.val, out, depth + 1)
    elif isinstance(v, Ref):
        collect_bool_results(v.cell.val, out, depth + 1)


def subst(term, sym, val):
    return term.replace(sym, val)


def negation_complement(env, ob, ctx, oks, nsym):
    """oks: [(pc list, result bool term)] over disjoint paths; nsym: SMT symbol of the `negated` flag.
    Violation iff for some valuation of the other symbols the result with negated=true equals the result with false."""
    if not oks:
        return result(ob, "inconclusive", reason="vacuity: no path yields a Boolean result")
    if not any(nsym in " ".join(pc) + r for pc, r in oks):
        return result(ob, "violated", failed=["negated_flag_ignored"], cex={"what": "the `negated` flag does not influence the result"},
                      paths=len(oks), queries=0)

    def val(nv):
        return disj([conj([subst(c, nsym, nv) for c in pc] + [subst(r, nsym, nv)]) for pc, r in oks])

    def dom(nv):
        return disj([conj([subst(c, nsym, nv) for c in pc]) for pc, r in oks])
    q = conj([dom("true"), dom("false"), f"(= {val('true')} {val('false')})"])
    wit = conj([dom("true"), dom("false")])
    r = env.check(ctx, [q, wit])
    kw = dict(paths=len(oks), queries=2)
    if r[1]["verdict"] != "sat":
        return result(ob, "inconclusive", reason="vacuity: " + r[1]["verdict"], **kw)
    if r[0]["verdict"] == "unsat":
        return result(ob, "discharged", **kw)
    if r[0]["verdict"] == "sat":
        return result(ob, "violated", failed=["negated_result_is_not_complement"],
                      cex={"what": "for the same operand results the predicate with negated=true returns the same truth value as with negated=false"}, **kw)
    return result(ob, "inconclusive", reason=r[0]["verdict"], **kw)


def eval_arm(env, ob, variant):
    """explore ExpressionEvaluator::evaluate restricted to one BoundExpression variant"""
    variants = env.enum_variants("sql/binder/bounds.rs", "BoundExpression")
    if variant not in variants:
        raise Unsupported(f"BoundExpression::{variant} not found")

    def mkargs(ctx, f):
        a = [ctx.sym(n, t) for n, t in f.params]
        be = a[1].cell.val
        be.disc = Leaf(bvconst(variants[variant], 64), "isize")
        return a
    ctx, f, args, res = explore(env, "runtime/eval.rs", "evaluate", sig=r"ExpressionEvaluator<'_>, _2: &bounds::BoundExpression",
                                args=mkargs, enums={"BoundExpression": variants}, loop_bound=1,
                                pure=[r" as Index<usize>>::index$", r"Vec::<.*>::len$", r"HashSet::<.*>::contains"])
    be = args[1].cell.val
    return ctx, f, be, res


def negated_symbol(be, variant, env):
    """SMT symbol of the `negated` field of BoundExpression::<variant> (field order read from the source)"""
    txt = strip_comments(env.read("sql/binder/bounds.rs"))
    m = re.search(r"enum\s+BoundExpression\s*\{", txt)
    body = balanced_block(txt, m.end() - 1)
    for part in mirsmt.split_top(body):
        part = part.strip()
        mm = re.match(r"^" + variant + r"\s*\{(.*)\}$", part, re.S)
        if mm:
            names = [re.match(r"\s*(\w+)\s*:", x).group(1) for x in mirsmt.split_top(mm.group(1)) if re.match(r"\s*(\w+)\s*:", x)]
            i = names.index("negated")
            return be.variant_cell(variant).val.field_cell(str(i), "bool").val.term
    raise Unsupported("negated field of " + variant)


def run_negation(env, ob, variant):
    ctx, f, be, res = eval_arm(env, ob, variant)
    nsym = negated_symbol(be, variant, env)
    oks = []
    for path, rv in res:
        if path.cut:
            continue  # loops are unrolled to the stated bound; longer lists are outside the claim (see bounds)
        if path.panics or rv is None or not isinstance(rv, Agg):
            continue
        bools = []
        for c in path.heap.values():
            collect_bool_results(c.val, bools)
        collect_bool_results(rv, bools)
        if len(bools) == 1:
            oks.append((path.pc, bools[0].term))
    return negation_complement(env, ob, ctx, oks, nsym)


NEG_FUNCS = "ExpressionEvaluator::evaluate (one arm), recursive evaluate / comparison / set membership uninterpreted"


@obligation(id="C05.negation[IS NULL]", funcs=NEG_FUNCS, native="c05_neg_isnull",
            bounds="every path of the IsNull arm of ExpressionEvaluator::evaluate; operand result abstract")
def c05_neg_isnull(env, ob):
    return run_negation(env, ob, "IsNull")


@obligation(id="C05.negation[BETWEEN]", funcs=NEG_FUNCS, native="c05_neg_between",
            bounds="every path of the Between arm; operand results and their comparisons abstract")
def c05_neg_between(env, ob):
    return run_negation(env, ob, "Between")


@obligation(id="C05.negation[IN list]", funcs=NEG_FUNCS, native="c05_neg_in",
            bounds="every path of the InList arm with the list loop unrolled once; membership abstract")
def c05_neg_inlist(env, ob):
    return run_negation(env, ob, "InList")


def _definite_paths(res):
    out = []
    for path, rv in res:
        if path.cut or path.panics or rv is None or not isinstance(rv, Agg):
            continue
        bools = []
        for c in path.heap.values():
            collect_bool_results(c.val, bools)
        collect_bool_results(rv, bools)
        if len(bools) == 1:
            out.append((path, bools[0].term))
    return out


def _operand_discs(path, variant):
    """{operand field index: [discriminant terms of every `vec[0]` read of that operand's evaluated value]}"""
    ev_of = {}
    for e in path.events:
        if e["callee"].endswith("::evaluate") and len(e["argdesc"]) == 2:
            m = re.search(r"@" + variant + r"\.(\d+)\.", e["argdesc"][1])
            if m and isinstance(e["ret"], Agg):
                ev_of[e["ret"].name] = int(m.group(1))
    out = {}
    for e in path.events:
        if re.search(r" as Index<usize>>::index$", e["callee"]) and isinstance(e["ret"], Ref) and isinstance(e["ret"].cell.val, Agg):
            for nm, k in ev_of.items():
                if e["argdesc"][0] == "&" + nm + "@Ok.0":
                    out.setdefault(k, []).append(e["ret"].cell.val.get_disc().term)
    return out


def _same(ts):
    return [f"(= {ts[0]} {t})" for t in ts[1:]]


@obligation(id="C05.null_operands[BETWEEN]", funcs=NEG_FUNCS, native="c05_null_in_between",
            bounds="every path of the Between arm that returns a truth value; operand values abstract (only NULL or not), "
                   "comparisons uninterpreted; repeated reads of one operand agree")
def c05_null_between(env, ob):
    """Three-valued logic: with a NULL probe BETWEEN / NOT BETWEEN is unknown; with a NULL bound it is decided only as
    'not between' (the other comparison failed) - never as 'between'."""
    ctx, f, be, res = eval_arm(env, ob, "Between")
    nsym = negated_symbol(be, "Between", env)
    null = bvconst(env.enum_variants("types/mod.rs", "DataType")["Null"], 64)
    qs, labels = [], []
    dps = _definite_paths(res)
    for path, b in dps:
        od = _operand_discs(path, "Between")
        if 0 not in od:
            return result(ob, "inconclusive", reason=f"probe of BETWEEN not identified on a path: {sorted(od)}", paths=len(res))
        for k in (1, 2):
            if k not in od:     # a truth value returned without looking at this bound: it may be NULL for all the path knows
                od[k] = [ctx.declare(f"unread_bound_{k}_{len(qs)}#d", "isize").term]
        eqs = _same(od[0]) + _same(od[1]) + _same(od[2])
        qs.append(conj(path.pc + eqs + [f"(= {od[0][0]} {null})"]))
        labels.append("null_probe_yields_a_truth_value")
        for k, lab in ((1, "null_lower_bound_decided_as_between"), (2, "null_upper_bound_decided_as_between")):
            qs.append(conj(path.pc + eqs + [f"(= {od[k][0]} {null})", f"(not (= {b} {nsym}))"]))
            labels.append(lab)
    kw = dict(paths=len(res), events={"paths_with_a_truth_value": len(dps)})
    if len(dps) < 2:
        return result(ob, "inconclusive", reason="vacuity: fewer than two paths return a truth value", **kw)
    chk = env.check(ctx, qs + [disj([conj(p.pc) for p, b in dps])])
    kw["queries"] = len(chk)
    if chk[-1]["verdict"] != "sat":
        return result(ob, "inconclusive", reason="vacuity: " + chk[-1]["verdict"], **kw)
    failed = sorted({lab for lab, c in zip(labels, chk) if c["verdict"] == "sat"})
    unk = [c["verdict"] for c in chk[:-1] if c["verdict"] not in ("sat", "unsat")]
    if failed:
        return result(ob, "violated", failed=failed, cex={"what": "BETWEEN answers TRUE/FALSE where SQL says unknown"}, **kw)
    if unk:
        return result(ob, "inconclusive", reason="solver: " + ",".join(unk[:3]), **kw)
    return result(ob, "discharged", **kw)


@obligation(id="C05.null_operands[IN list]", funcs=NEG_FUNCS, native="c05_null_in_between",
            bounds="every path of the InList arm that returns a truth value, list loop unrolled once (one list expression "
                   "yielding one value); set membership uninterpreted")
def c05_null_inlist(env, ob):
    """Three-valued logic: a NULL probe is unknown for IN and NOT IN alike; a miss against a list that holds a NULL is
    unknown; a hit is a hit."""
    ctx, f, be, res = eval_arm(env, ob, "InList")
    null = bvconst(env.enum_variants("types/mod.rs", "DataType")["Null"], 64)
    qs, labels = [], []
    dps = _definite_paths(res)
    with_item = 0
    for path, b in dps:
        od = _operand_discs(path, "InList")
        if 0 not in od:
            return result(ob, "inconclusive", reason="probe of IN not identified on a path", paths=len(res))
        eqs = _same(od[0])
        qs.append(conj(path.pc + eqs + [f"(= {od[0][0]} {null})"]))
        labels.append("null_probe_yields_a_truth_value")
        cont = [e["ret"].term for e in path.events if re.search(r"HashSet::<.*>::contains", e["callee"]) and isinstance(e["ret"], Leaf)]
        for e in path.events:
            if re.search(r"IntoIter<types::DataType> as Iterator>::next$", e["callee"]) and isinstance(e["ret"], Agg):
                nm = e["ret"].name
                od_, id_ = ctx.declare(nm + "#d", "isize"), ctx.declare(nm + "@Some.0#d", "isize")
                with_item += 1
                if not cont:
                    qs.append(conj(path.pc + [f"(= {od_.term} {bvconst(1, 64)})", f"(= {id_.term} {null})"]))
                else:
                    qs.append(conj(path.pc + [f"(= {od_.term} {bvconst(1, 64)})", f"(= {id_.term} {null})", f"(not {cont[-1]})"]))
                labels.append("miss_against_a_list_holding_a_null_is_decided")
    kw = dict(paths=len(res), events={"paths_with_a_truth_value": len(dps), "list_items_on_them": with_item})
    if len(dps) < 2 or not with_item:
        return result(ob, "inconclusive", reason="vacuity: no path with a truth value and a list item", **kw)
    chk = env.check(ctx, qs + [disj([conj(p.pc) for p, b in dps])])
    kw["queries"] = len(chk)
    if chk[-1]["verdict"] != "sat":
        return result(ob, "inconclusive", reason="vacuity: " + chk[-1]["verdict"], **kw)
    failed = sorted({lab for lab, c in zip(labels, chk) if c["verdict"] == "sat"})
    unk = [c["verdict"] for c in chk[:-1] if c["verdict"] not in ("sat", "unsat")]
    if failed:
        return result(ob, "violated", failed=failed, cex={"what": "IN / NOT IN answers TRUE/FALSE where SQL says unknown"}, **kw)
    if unk:
        return result(ob, "inconclusive", reason="solver: " + ",".join(unk[:3]), **kw)
    return result(ob, "discharged", **kw)


@obligation(id="C05.negation[LIKE]", funcs="ExpressionEvaluator::string_like", native="c05_neg_like",
            bounds="every path of string_like; the matcher's verdict abstract")
def c05_neg_like(env, ob):
    ctx, f, args, res = explore(env, "runtime/eval.rs", "string_like")
    pi = [i for i, (pn, pt) in enumerate(f.params) if f.debug.get("negated") == pn]
    if not pi or not isinstance(args[pi[0]], Leaf):
        raise Unsupported("parameter `negated` of string_like")
    nsym = args[pi[0]].term
    oks = []
    for path, rv in res:
        if path.cut:
            return result(ob, "inconclusive", reason="path cut: " + path.cut)
        if path.panics or rv is None or not isinstance(rv, Agg):
            continue
        bools = []
        collect_bool_results(rv, bools)
        if len(bools) == 1:
            oks.append((path.pc, bools[0].term))
    return negation_complement(env, ob, ctx, oks, nsym)


# ---------------------------------------------------------------------------------------------------------------------
# C16: no arm of the scalar evaluator ends in panic!/todo!/unreachable! for an expression the binder can produce
# ---------------------------------------------------------------------------------------------------------------------
EVAL_ARMS_REACHABLE = ["ColumnBinding", "Literal", "BinaryOp", "UnaryOp", "Function", "Aggregate", "Case", "InList", "Between", "IsNull", "Star",
                       "Exists", "Subquery", "InSubquery"]
# (Subquery / Exists / InSubquery were first left out as "rejected by the binder".  They are not: `WHERE EXISTS (SELECT ..)`,
# `v IN (SELECT ..)` and `SELECT (SELECT 1)` reach the evaluator, see DESIGN.md corrections log.)


@obligation(id="C16.eval_arms_do_not_panic", funcs="ExpressionEvaluator::evaluate (every arm the binder can produce)",
            bounds="every path of each arm with loops unrolled once; callees uninterpreted (their own panics are the "
                   "business of the Kani harnesses on eval_binary_op / DataType arithmetic)",
            native="c16_having_does_not_kill_worker")
def c16_eval_arms(env, ob):
    bad_arms, inc, total = [], [], 0
    ctxs = []
    for v in EVAL_ARMS_REACHABLE:
        try:
            ctx, f, be, res = eval_arm(env, ob, v)
        except Unsupported as e:
            inc.append(f"{v}: {str(e)[:80]}")
            continue
        div = [p for p, rv in res if p.panics and p.panics.startswith("diverging call") and not p.cut]
        total += len(res)
        if div:
            chk = env.check(ctx, [disj([conj(p.pc) for p in div])])
            if chk[0]["verdict"] == "sat":
                bad_arms.append(v)
            elif chk[0]["verdict"] != "unsat":
                inc.append(f"{v}: {chk[0]['verdict']}")
    kw = dict(paths=total, queries=len(EVAL_ARMS_REACHABLE))
    if bad_arms:
        return result(ob, "violated", failed=[f"evaluator_arm_panics[{v}]" for v in bad_arms],
                      cex={"what": "evaluate() reaches panic!/todo!/unreachable! for BoundExpression::" + ",".join(bad_arms)}, **kw)
    if inc:
        return result(ob, "inconclusive", reason="; ".join(inc)[:300], **kw)
    return result(ob, "discharged", **kw)


@obligation(id="C16.operators_do_not_unwrap_fallible_results", also="C05", funcs="every `next` / `open` of runtime/ops/*.rs",
            bounds="every path of each operator's next() / open() (loops unrolled once); callees uninterpreted: any of them may "
                   "return Err", native="c16_predicate_error_in_index_scan")
def c16_ops_unwrap(env, ob):
    """A predicate, a cast or a child operator can fail on perfectly legal statements (`WHERE email = 'a' AND LENGTH(age) >
    1`).  An operator that calls `.expect()` / `.unwrap()` on such a Result turns the error into a panic of the worker
    thread; the error has to travel up as Err."""
    bad, inc, total, nq, nfun = [], [], 0, 0, 0
    for h, s_, e_ in env.mir.funcs:
        m = re.match(r"^fn (\w+)::<impl at crates/axmos-db/src/runtime/ops/(\w+)\.rs:[^>]*>::(next|open)(?:::\{closure#\d+\})?\(", h)
        if not m:
            continue
        name = f"{m.group(2)}::{m.group(3)}" + ("::{closure}" if "{closure" in h else "")
        f = mirsmt.Func(h, env.mir.lines[s_ + 1:e_])
        ctx = mirsmt.Ctx()
        ex = mirsmt.Executor(env.mir, ctx, models=dict(COMMON_MODELS), loop_bound=1, max_paths=20000)
        try:
            res = ex.run(f, [ctx.sym("p%d" % i, t) for i, (n, t) in enumerate(f.params)])
        except Unsupported as e:
            inc.append(f"{name}: {str(e)[:80]}")
            continue
        nfun += 1
        total += len(res)
        qs = []
        for path, rv in res:
            for e in path.events:
                if re.search(r"^Result::<.*>::(expect|unwrap)$", e["callee"]) and e["args"] and isinstance(e["args"][0], Agg):
                    r = e["args"][0]
                    if r.name is None:
                        continue          # a Result this function built itself
                    qs.append(conj(e.get("pc_prefix", path.pc) + [f"(not (= {r.get_disc().term} {bvconst(0, 64)}))"]))
        if qs:
            chk = env.check(ctx, [disj(sorted(set(qs)))])
            nq += 1
            if chk[0]["verdict"] == "sat":
                bad.append(name)
            elif chk[0]["verdict"] != "unsat":
                inc.append(f"{name}: {chk[0]['verdict']}")
    kw = dict(paths=total, queries=nq, events={"functions": nfun})
    if bad:
        return result(ob, "violated", failed=[f"fallible_result_unwrapped[{b}]" for b in sorted(set(bad))],
                      cex={"what": "an operator panics on an Err from a callee", "functions": sorted(set(bad))}, **kw)
    if inc:
        return result(ob, "inconclusive", reason="; ".join(inc)[:300], **kw)
    if nfun < 5:
        return result(ob, "inconclusive", reason="vacuity: operator functions not found in the dump", **kw)
    return result(ob, "discharged", **kw)


STR_CUT = re.compile(r"<(?:str|String|std::string::String) as Index(?:Mut)?<Range(?:To|From|ToInclusive|Inclusive)?<usize>>>::index(?:_mut)?$"
                     r"|::split_at(?:_mut)?$|^String::(?:truncate|split_off|insert|insert_str|remove|replace_range|drain)$")
STR_BOUNDARY_SOURCES = re.compile(r"::(?:len|find|rfind|floor_char_boundary|ceil_char_boundary|len_utf8|position|rposition|offset)$"
                                  r"|char_indices|CharIndices|::(?:find|rfind)::<")


@obligation(id="C16.client_text_is_cut_at_character_boundaries", funcs="every function of the crate that slices a str / String by a byte range",
            bounds="every path of each such function (loops unrolled twice), the text being ANY string; an offset is accepted "
                   "when it is the value returned by len/find/rfind/char_indices/position/*_char_boundary (possibly plus a "
                   "len_utf8), everything else - constants, arithmetic on constants - is a cut that can land inside a "
                   "multi-byte character; planner::exporter::summarize_expr is exempt (it clips format_expr's output, which "
                   "is ASCII: literals print as byte lists - checked natively at every offset)",
            native="c16_text_clipped_inside_a_character")
def c16_str_cut(env, ob):
    """SQL text is UTF-8 and comes from the client: identifiers and literals hold any character.  `&text[..N]` with an N that
    does not come from the text itself panics when byte N is inside a character - in a Display impl that means the error
    path of the parser panics inside the worker."""
    exempt = {"summarize_expr"}
    bad, inc, total, nq, nfun, nsites = [], [], 0, 0, 0, 0
    pat = re.compile(r"= (<(?:str|String|std::string::String) as Index(?:Mut)?<Range\w*<usize>>>::index(?:_mut)?|"
                     r"core::str::<impl str>::split_at(?:_mut)?|String::(?:truncate|split_off|insert|insert_str|remove|replace_range|drain))\(")
    for h, s_, e_ in env.mir.funcs:
        body = env.mir.lines[s_ + 1:e_]
        if not any(pat.search(l) for l in body):
            continue
        m = re.match(r"^fn (.*?)\(_1", h) or re.match(r"^fn (.*?)\(", h)
        name = m.group(1) if m else h[:60]
        if name.split("::")[-1] in exempt or "__verif" in h:
            continue
        nfun += 1
        f = mirsmt.Func(h, body)
        ctx = mirsmt.Ctx()
        ex = mirsmt.Executor(env.mir, ctx, models=dict(COMMON_MODELS), loop_bound=2, max_paths=20000)
        try:
            res = ex.run(f, [ctx.sym("p%d" % i, t) for i, (n, t) in enumerate(f.params)])
        except Unsupported as e:
            inc.append(f"{name}: {str(e)[:80]}")
            continue
        total += len(res)
        qs = []
        for path, rv in res:
            ok_terms = set()
            for e in path.events:
                r = e.get("ret")
                if STR_BOUNDARY_SOURCES.search(e["callee"]) and r is not None and hasattr(r, "term"):
                    ok_terms.add(r.term)
                if not STR_CUT.search(e["callee"]):
                    continue
                nsites += 1
                offs = []
                for a in e["args"][1:]:
                    if isinstance(a, Agg):
                        offs += [c.val for c in a.fields.values()]
                    else:
                        offs.append(a)
                for o in offs:
                    t = getattr(o, "term", None)      # a named constant shows up as an opaque aggregate: not from the text
                    if t is not None and (t in ok_terms or t == bvconst(0, 64)):
                        continue
                    qs.append(conj(e.get("pc_prefix", path.pc)))
        if qs:
            chk = env.check(ctx, [disj(sorted(set(qs)))])
            nq += 1
            if chk[0]["verdict"] == "sat":
                bad.append(name)
            elif chk[0]["verdict"] != "unsat":
                inc.append(f"{name}: {chk[0]['verdict']}")
    kw = dict(paths=total, queries=max(nq, 1), events={"functions_with_a_cut": nfun, "cut_sites_on_paths": nsites})
    if bad:
        return result(ob, "violated", failed=[f"text_cut_at_a_byte_offset[{b}]" for b in sorted(set(bad))],
                      cex={"what": "a str is sliced at an offset that does not come from the text", "functions": sorted(set(bad))}, **kw)
    if inc:
        return result(ob, "inconclusive", reason="; ".join(inc)[:300], **kw)
    if not any("summarize_expr" in h for h, _, _ in env.mir.funcs):
        return result(ob, "inconclusive", reason="vacuity: the exempt clip site is not in the dump (scan pattern stale?)", **kw)
    return result(ob, "discharged", **kw)


# ---------------------------------------------------------------------------------------------------------------------
# C08: recovery is ordered, ends by emptying the log only after it succeeded, and its redo can be repeated
# ---------------------------------------------------------------------------------------------------------------------
@obligation(id="C08.recovery_phases_in_order", also="C02,C01", funcs="Database::run_recovery::{closure#0},WalRecuperator::run_recovery",
            bounds="every path of the recovery worker closure and of WalRecuperator::run_recovery; callees uninterpreted "
                   "(each phase may fail); the checkpoint itself is C01.checkpoint_order", native="c08_recovery_can_be_repeated")
def c08_phases(env, ob):
    """open() = analysis, then undo of the losers, then redo of the winners, then - only if all of that succeeded - the
    recovery transaction commits and a CHECKPOINT (`<Pager as Write>::flush`: dirty pages, header, then the log) empties
    the log.  A failed (or interrupted: the same early return) recovery must leave the log in place, otherwise the next
    open has nothing to recover from; and a bare `truncate_wal` would empty the log while the recovered pages only live in
    the cache: a second crash before the next checkpoint then loses every commit the first recovery had replayed (found
    on the pinned tree, see DESIGN.md 9.3).  The order inside the checkpoint is C01.checkpoint_order."""
    ctx, f, args, res = explore(env, "src/lib.rs", "run_recovery::{closure#0}", loop_bound=1)

    def bad(path, rv):
        if path.panics or rv is None or not isinstance(rv, Agg):
            return None
        an, rec = idx(path, r"Pager::run_analysis$"), idx(path, r"WalRecuperator::run_recovery$")
        bare, cm = idx(path, r"Pager::truncate_wal$"), idx(path, r"TransactionContext::commit_transaction$")
        ck = idx(path, r"<(?:io::pager::)?Pager as (?:std::io::)?Write>::flush$")
        if bare and (not ck or bare[0] < ck[0]):
            return ("log_emptied_without_writing_the_recovered_pages_first", None)
        tr = ck
        if tr:
            if not an or not rec or an[0] > rec[0] or rec[0] > tr[0]:
                return ("log_emptied_before_analysis_and_recovery_ran", None)
            r = path.events[rec[0]]["ret"]
            if isinstance(r, Agg):
                return ("log_emptied_although_recovery_failed", f"(not (= {r.get_disc().term} {bvconst(0, 64)}))")
            if not cm or cm[0] > tr[0]:
                return ("checkpoint_taken_before_the_recovery_transaction_committed", None)
        isok = ret_is_ok(rv)
        if not (an and rec and tr and cm):
            return ("recovery_reports_success_without_running_every_phase", isok)
        return None
    a = trace_obligation(env, ob, ctx, res, bad, "the recovery worker runs its phases out of order")
    ctx2, f2, args2, res2 = explore(env, "io/recovery.rs", "run_recovery", sig=r"WalRecuperator", loop_bound=1)

    def bad2(path, rv):
        if path.panics or rv is None or not isinstance(rv, Agg):
            return None
        u, r = idx(path, r"WalRecuperator::run_undo$"), idx(path, r"WalRecuperator::run_redo$")
        if r and (not u or u[0] > r[0]):
            return ("redo_runs_before_undo", None)
        if not (u and r):
            return ("recovery_succeeds_without_undo_and_redo", ret_is_ok(rv))
        ur = path.events[u[0]]["ret"]
        if isinstance(ur, Agg):
            return ("redo_runs_although_undo_failed", f"(not (= {ur.get_disc().term} {bvconst(0, 64)}))")
        return None
    b = trace_obligation(env, ob, ctx2, res2, bad2, "WalRecuperator::run_recovery runs undo / redo out of order")
    return merge(a, b)


@obligation(id="C08.redo_of_an_insert_can_be_repeated", also="C01", funcs="DmlExecutor::insert,WalRecuperator::redo_insert",
            bounds="every path of DmlExecutor::insert (the function redo_insert / undo_delete replay rows through; loops "
                   "unrolled once); B+tree calls uninterpreted", native="c08_recovery_can_be_repeated")
def c08_redo_insert(env, ob):
    """Recovery replays logged rows with their original row ids over a data file that may already contain them (crash
    after the pages were written but before the log was emptied; recovery interrupted and run again).  The row path must
    therefore look the key up first and only call the tree's insert - which refuses an existing key - when it is absent."""
    ctx, f, args, res = explore(env, "runtime/dml.rs", "insert", sig=r"DmlExecutor", loop_bound=1)
    var = env.enum_variants("tree/bplustree.rs", "SearchResult")

    def bad(path, rv):
        if path.panics or rv is None:
            return None
        ins = idx(path, r"Btree::<.*>::insert$")
        if not ins:
            return None
        se = [i for i in idx(path, r"Btree::<.*>::search_tuple$") if i < ins[0]]
        if not se:
            return ("row_inserted_without_looking_the_key_up_first", None)
        r = path.events[se[-1]]["ret"]
        # Result<SearchResult, _>: the Ok payload's discriminant decides Found / NotFound
        d = ctx.smtname(r.name + "@Ok.0#d")
        if d not in ctx.decls:
            return ("insert_does_not_depend_on_the_lookup_result", None)
        return ("tree_insert_called_for_a_key_that_was_found", f"(= {d} {bvconst(var['Found'], 64)})")
    a = trace_obligation(env, ob, ctx, res, bad, "DmlExecutor::insert calls Btree::insert although the key may be present", cuts_ok=True)
    # and redo_insert goes through that function
    ctx2, f2, args2, res2 = explore(env, "io/recovery.rs", "redo_insert", loop_bound=1)

    def bad2(path, rv):
        if path.panics or rv is None or not isinstance(rv, Agg):
            return None
        if not idx(path, r"DmlExecutor::insert$"):
            return ("redo_of_an_insert_bypasses_the_idempotent_row_path", ret_is_ok(rv))
        return None
    b = trace_obligation(env, ob, ctx2, res2, bad2, "redo_insert does not use DmlExecutor::insert", cuts_ok=True)
    return merge(a, b)


# ---------------------------------------------------------------------------------------------------------------------
# C15: catalog rows are versioned by the executing transaction; constraints get their index; back-fill follows the
# declared column list
# ---------------------------------------------------------------------------------------------------------------------
CATALOG = "schema/catalog.rs"


@obligation(id="C15.catalog_writes_stamp_own_xid", also="C04", funcs="Catalog::store_relation,Catalog::remove_relation,Catalog::update_relation",
            bounds="every path of the three catalog mutators (loops unrolled once); callees uninterpreted",
            native="c15_drop_with_older_session_open")
def c15_catalog_stamps(env, ob):
    """CREATE / DROP / ALTER are MVCC writes to the two catalog trees: the rows they build, re-version or mark deleted must
    carry the id of the executing transaction (Snapshot::xid), otherwise the change becomes visible - or stays invisible -
    according to some other transaction's fate (e.g. an older session that is still open)."""
    agg = None
    for fn in ("store_relation", "remove_relation", "update_relation"):
        try:
            ctx, f, args, res = explore(env, CATALOG, fn, sig=r"_1: &Catalog", loop_bound=1)
        except Unsupported as e:
            agg = merge(agg, result(ob, "inconclusive", reason=f"{fn}: {str(e)[:150]}"))
            continue
        # store_relation receives the transaction id itself (its only u64 parameter besides ids inside Relation)
        given = {a.term for a, (n, t) in zip(args, f.params) if isinstance(a, Leaf) and t.strip() == "u64"} if "&Snapshot" not in f.header else set()

        def bad(path, rv, fn=fn, given=given):
            if path.panics or rv is None:
                return None
            own = {e["ret"].term for e in path.events if callee_is(e, r"Snapshot::xid$") and isinstance(e["ret"], Leaf)} | given
            for e in path.events:
                for rx, ai in ((r"TupleBuilder::<.*>::build$", -1), (r"Tuple::add_version_with$", 2), (r"Tuple::delete$", 1)):
                    if callee_is(e, rx):
                        a = e["args"][ai]
                        if not isinstance(a, Leaf) or a.term not in own:
                            return (f"catalog_row_stamped_with_other_than_own_xid@Catalog::{fn}", None)
            return None
        agg = merge(agg, trace_obligation(env, ob, ctx, res, bad, "catalog row stamped with something else than the executing transaction's id", cuts_ok=True))
    return agg


@obligation(id="C15.catalog_trees_change_together", funcs="Catalog::store_relation,Catalog::remove_relation",
            bounds="every path of the two functions (loops unrolled once); callees uninterpreted",
            native="c15_drop_with_older_session_open")
def c15_both_trees(env, ob):
    """The catalog is two trees (id -> relation, name -> id).  A successful CREATE writes a row into both, a successful
    DROP visits both: a name that resolves to nothing, or a relation no name leads to, is an incoherent catalog."""
    ctx, f, args, res = explore(env, CATALOG, "store_relation", sig=r"_1: &Catalog", loop_bound=1)
    wr = r"Btree::<.*>::(insert|upsert|update)$"

    def bad(path, rv):
        if path.panics or rv is None or not isinstance(rv, Agg):
            return None
        it, tt = idx(path, r"relation_as_meta_index_tuple$"), idx(path, r"relation_as_meta_table_tuple$")
        w = idx(path, wr)
        ok_i = bool(it) and any(k > it[0] for k in w)
        ok_t = bool(tt) and any(k > tt[0] for k in w)
        if not ok_i or not ok_t or len(w) < 2:
            return ("relation_stored_in_only_one_catalog_tree", ret_is_ok(rv))
        return None
    a = trace_obligation(env, ob, ctx, res, bad, "store_relation succeeds without writing both catalog trees", cuts_ok=True)
    ctx2, f2, args2, res2 = explore(env, CATALOG, "remove_relation", sig=r"_1: &Catalog", loop_bound=1)

    def bad2(path, rv):
        if path.panics or rv is None or not isinstance(rv, Agg):
            return None
        # (a relation that is not found / not visible in the id tree is "nothing to remove": Ok without marks)
        if idx(path, r"Tuple::delete$") and not (idx(path, r"meta_table_schema$") and idx(path, r"meta_index_schema$")):
            return ("relation_removed_from_only_one_catalog_tree", ret_is_ok(rv))
        return None
    b = trace_obligation(env, ob, ctx2, res2, bad2, "remove_relation succeeds without visiting both catalog trees", cuts_ok=True)
    return merge(a, b)


@obligation(id="C15.drop_without_a_target_touches_nothing", funcs="DdlExecutor::execute (DropTable arm)",
            bounds="every path of DdlExecutor::execute for a DROP TABLE statement; callees uninterpreted",
            native="c15_drop_if_exists_of_a_missing_table")
def c15_drop_without_target(env, ob):
    """The binder resolves the table name to an object id; for a missing table (allowed through by IF EXISTS) there is none.
    Such a statement must not reach the drop machinery at all: an instruction built from it would carry a made-up id -
    object 0 is the first table ever created - and 'never disturb other tables' is gone."""
    variants = env.enum_variants("sql/binder/bounds.rs", "BoundStatement")
    ti = env.struct_fields("sql/binder/bounds.rs", "BoundDropTable").index("table_id")
    holder = {}

    def mkargs(ctx, f):
        a = [ctx.sym(n, t) for n, t in f.params]
        st = a[1].cell.val
        st.disc = Leaf(bvconst(variants["DropTable"], 64), "isize")
        holder["stmt"] = st
        return a
    ctx, f, args, res = explore(env, "runtime/ddl.rs", "execute", sig=r"&mut DdlExecutor, _2: &bounds::BoundStatement", args=mkargs,
                                enums={"BoundStatement": variants}, loop_bound=1)
    drop = holder["stmt"].variant_cell("DropTable").val.field_cell("0", "sql::binder::bounds::BoundDropTable").val
    tid = drop.field_cell(str(ti), "std::option::Option<u64>").val
    if not isinstance(tid, Agg):
        return result(ob, "inconclusive", reason="table_id of BoundDropTable is not an Option in the dump")
    none = f"(= {tid.get_disc().term} {bvconst(0, 64)})"
    qs, reach, noop = [], 0, 0
    for path, rv in res:
        if path.panics:
            continue
        acts = idx(path, r"(execute_drop_table|DropTableInstr as From<.*>>::from|Catalog::remove_relation|log_drop)$")
        if acts:
            reach += 1
            qs.append(conj(path.events[acts[0]].get("pc_prefix", path.pc) + [none]))
        else:
            noop += 1
    kw = dict(paths=len(res), events={"paths_reaching_the_drop_machinery": reach, "paths_that_do_not": noop})
    if not reach:
        return result(ob, "inconclusive", reason="vacuity: no path of the DropTable arm reaches execute_drop_table", **kw)
    chk = env.check(ctx, [disj(qs), none])
    kw["queries"] = 2
    if chk[1]["verdict"] != "sat":
        return result(ob, "inconclusive", reason="vacuity: 'no target' is not satisfiable (" + chk[1]["verdict"] + ")", **kw)
    if chk[0]["verdict"] == "sat":
        return result(ob, "violated", failed=["drop_machinery_reached_without_a_target_table"],
                      cex={"what": "DROP TABLE of a name the binder did not resolve reaches execute_drop_table", "model": chk[0].get("model")}, **kw)
    if chk[0]["verdict"] != "unsat":
        return result(ob, "inconclusive", reason="solver: " + chk[0]["verdict"], **kw)
    return result(ob, "discharged", **kw)


@obligation(id="C15.constraint_gets_its_index", also="C07", funcs="DdlExecutor::add_constraint",
            bounds="every path of DdlExecutor::add_constraint; callees uninterpreted", native="c15_constraint_after_name_reuse")
def c15_constraint_index(env, ob):
    """A PRIMARY KEY / UNIQUE constraint is enforced through a unique index on the table's own tree: declaring it must
    build that index for THIS table on every successful path - a relation that merely has the same name (left behind by
    a dropped table, or of another table whose name/columns concatenate to the same string) is not that index."""
    ctx, f, args, res = explore(env, "runtime/ddl.rs", "add_constraint", sig=r"DdlExecutor", loop_bound=1)
    built = r"DdlExecutor::create_unique_index$"

    def bad(path, rv):
        if path.panics or rv is None or not isinstance(rv, Agg):
            return None
        named = idx(path, r"index_name$")
        if named and not idx(path, built):
            return ("constraint_declared_without_building_its_unique_index", ret_is_ok(rv))
        return None
    some = any(idx(p, built) for p, rv in res)
    if not some:
        return result(ob, "inconclusive", reason="vacuity: no path of add_constraint builds a unique index", paths=len(res))
    return trace_obligation(env, ob, ctx, res, bad, "add_constraint returns Ok for a key constraint without create_unique_index", cuts_ok=True)


@obligation(id="C15.index_backfill_follows_declared_columns", also="C06,C07", funcs="DdlExecutor::populate_index",
            bounds="every path of DdlExecutor::populate_index that builds an entry (loops unrolled once); callees uninterpreted",
            native="c15_index_on_populated_table_reversed_columns")
def c15_backfill_order(env, ob):
    """The key of a back-filled index entry must list the values in the order the index declares its columns (that is how
    later probes build their keys): the walk that assembles it is driven by the declared column list, not by the row."""
    ctx, f, args, res = explore(env, "runtime/ddl.rs", "populate_index", loop_bound=1)
    decl = None
    for i, (n, t) in enumerate(f.params):
        if re.search(r"&\[usize\]", t):
            decl = n
    if decl is None:
        raise Unsupported("populate_index has no &[usize] parameter (declared column list)")

    def bad(path, rv):
        if path.panics:
            return None
        mk = idx(path, r"Row::new$")
        if not mk:
            return None
        pre = path.events[:mk[0]]
        by_decl = [e for e in pre if re.search(r"(::into_iter|::iter)$", e["callee"]) and any(("&" + decl + "*") == d for d in e["argdesc"][:1])]
        by_row = [e for e in pre if re.search(r"(Row::iter|<&Row as IntoIterator>::into_iter|Row::into_iter)$", e["callee"])]
        if not by_decl and by_row:
            return ("entry_built_in_table_column_order_not_in_declared_index_order", None)
        if not by_decl and not idx(path, r"Vec::<types::DataType>::push$"):
            return ("entry_key_not_assembled_from_the_declared_column_list", None)
        return None
    if not any(idx(p, r"Row::new$") for p, rv in res):
        return result(ob, "inconclusive", reason="vacuity: no path builds an index entry", paths=len(res))
    return trace_obligation(env, ob, ctx, res, bad, "index back-fill does not follow the declared column order", cuts_ok=True)


# ---------------------------------------------------------------------------------------------------------------------
# C11: one step of the free list (Pager::allocate_page / dealloc_page) from an arbitrary header state
# ---------------------------------------------------------------------------------------------------------------------
PAGER = "io/pager.rs"


def _opt_is(ev, some):
    r = ev["ret"]
    return f"(= {r.get_disc().term} {bvconst(1 if some else 0, 64)})"


def _arg_is_none(a):
    return isinstance(a, Agg) and a.disc is not None and mirsmt.const_of(a.disc.term) == 0


def _arg_some_payload(a):
    """term of x when the argument is a constructed Some(x), else None"""
    if isinstance(a, Agg) and a.disc is not None and mirsmt.const_of(a.disc.term) == 1 and "Some" in a.variants:
        v = a.variants["Some"].val.fields.get("0")
        if v is not None and isinstance(v.val, Leaf):
            return v.val.term
    return None


@obligation(id="C11.alloc_step", funcs="Pager::allocate_page",
            bounds="every path of Pager::allocate_page<P> from an arbitrary page-zero state (head / tail of the free list "
                   "symbolic); cache, page I/O and header accessors uninterpreted",
            native="c11_free_list_step")
def c11_alloc_step(env, ob):
    """Free pages are reused before the file grows, and popping the head keeps head / tail consistent:
    the new head is the popped page's successor, and the tail is cleared exactly when the popped page was the tail."""
    ctx, f, args, res = explore(env, PAGER, "allocate_page", loop_bound=1)

    def bad(path, rv):
        if path.panics or rv is None or not isinstance(rv, Agg):
            return None
        isok = ret_is_ok(rv)
        first = _evs(path, r"Pager::first_free_page$")
        grow = _evs(path, r"Pager::get_next_page$")
        if not first:
            return ("page_allocated_without_consulting_the_free_list", isok) if grow else None
        head_some = _opt_is(first[0], True)
        if grow:
            return ("file_grows_although_the_free_list_is_not_empty", conj([isok, head_some]))
        # reuse path: everything below is about Ok results that hand out the head of the list
        head = ctx.smtname(first[0]["ret"].name + "@Some.0")
        rd = _evs(path, r"Pager::with_page::<")
        setf = _evs(path, r"Pager::set_first_free_page$")
        if not rd or not setf:
            return ("head_popped_without_linking_its_successor_as_new_head", isok)
        if not (isinstance(setf[0]["args"][1], Agg) and (setf[0]["args"][1].name or "").startswith(rd[0]["ret"].name + "@Ok")):
            return ("new_head_is_not_the_successor_read_from_the_popped_page", isok)
        if rd[0]["argdesc"][1] != head:
            return ("successor_read_from_a_page_that_is_not_the_head", isok)
        last = _evs(path, r"Pager::last_free_page$")
        setl = _evs(path, r"Pager::set_last_free_page$")
        if setl:
            if not _arg_is_none(setl[0]["args"][1]):
                return ("tail_overwritten_with_a_page_while_popping", isok)
            if not last:
                return ("tail_cleared_without_comparing_it_with_the_popped_page", isok)
            lt = ctx.smtname(last[0]["ret"].name + "@Some.0")
            return ("tail_cleared_although_the_popped_page_is_not_the_tail", conj([isok, f"(not (and {_opt_is(last[0], True)} (= {lt} {head})))"]))
        if last:
            lt = ctx.smtname(last[0]["ret"].name + "@Some.0")
            return ("popped_page_stays_recorded_as_tail", conj([isok, _opt_is(last[0], True), f"(= {lt} {head})"]))
        return ("head_popped_without_looking_at_the_tail", isok)
    a = trace_obligation(env, ob, ctx, res, bad, "one allocation step breaks the free-list discipline")

    def bad_reinit(path, rv):
        if path.panics or rv is None or not isinstance(rv, Agg) or _evs(path, r"Pager::get_next_page$"):
            return None
        if not _evs(path, r"Pager::first_free_page$"):
            return None
        isok = ret_is_ok(rv)
        if not _evs(path, r"PageCache::remove$") or not _evs(path, r"MemFrame::reinit_as::"):
            return ("reused_page_not_reinitialised_as_the_requested_kind", isok)
        return None
    b = trace_obligation(env, ob, ctx, res, bad_reinit, "a reused page keeps its free-list header")
    return merge(a, b)


@obligation(id="C11.dealloc_step", also="C12", funcs="Pager::dealloc_page,Pager::dealloc_page::{closure#0}",
            bounds="every path of Pager::dealloc_page<P> from an arbitrary page-zero state; cache, page I/O and header "
                   "accessors uninterpreted; the closure that links the old tail is executed from MIR",
            native="c11_free_list_step")
def c11_dealloc_step(env, ob):
    """A released page becomes the new tail: the old tail (if any) points at it, the head is set when the list was empty
    and only then, page zero is refused before anything changes, and the page itself is rewritten as a free page."""
    ctx, f, args, res = explore(env, PAGER, "dealloc_page", loop_bound=1)
    pid = args[1].term

    def bad(path, rv):
        if path.panics or rv is None or not isinstance(rv, Agg):
            return None
        isok = ret_is_ok(rv)
        first = _evs(path, r"Pager::first_free_page$")
        last = _evs(path, r"Pager::last_free_page$")
        setf = _evs(path, r"Pager::set_first_free_page$")
        setl = _evs(path, r"Pager::set_last_free_page$")
        link = _evs(path, r"Pager::with_page_mut::<")
        if not first or not last:
            return ("page_released_without_reading_head_and_tail", isok)
        if not setl or _arg_some_payload(setl[0]["args"][1]) != pid:
            return ("released_page_not_recorded_as_the_new_tail", isok)
        if setf:
            if _arg_some_payload(setf[0]["args"][1]) != pid:
                return ("head_set_to_something_else_than_the_released_page", isok)
            # the head may only be replaced when the list was empty
            return ("head_overwritten_although_the_list_was_not_empty", conj([isok, _opt_is(first[0], True)]))
        lt = ctx.smtname(last[0]["ret"].name + "@Some.0")
        if link:
            if link[0]["argdesc"][1] != lt:
                return ("successor_link_written_to_a_page_that_is_not_the_old_tail", isok)
        else:
            return ("old_tail_not_linked_to_the_released_page", conj([isok, _opt_is(last[0], True)]))
        return ("empty_list_gets_no_head", conj([isok, _opt_is(first[0], False)]))
    a = trace_obligation(env, ob, ctx, res, bad, "one release step breaks the free-list discipline")

    def bad_zero(path, rv):
        if path.panics or rv is None or not isinstance(rv, Agg):
            return None
        touched = _evs(path, r"Pager::set_(first|last)_free_page$|Pager::with_page_mut::<|MemFrame::dealloc$")
        if touched:
            zero = [n for n in ctx.decls if n.startswith("|const:") and "PAGE_ZERO" in n]
            if not zero:
                return ("page_zero_can_be_released", None)     # the id is never compared with PAGE_ZERO
            return ("page_zero_can_be_released", f"(= {pid} {zero[0]})")
        return None
    b = trace_obligation(env, ob, ctx, res, bad_zero, "page zero reaches the free list")

    def bad_image(path, rv):
        if path.panics or rv is None or not isinstance(rv, Agg):
            return None
        isok = ret_is_ok(rv)
        rem = _evs(path, r"PageCache::remove$")
        if not rem:
            return ("released_page_never_taken_out_of_the_cache", isok)
        got = _opt_is(rem[0], True)
        if not _evs(path, r"MemFrame::dealloc$"):
            return ("released_page_keeps_its_old_header", conj([isok, got]))
        de = idx(path, r"MemFrame::dealloc$")[0]
        wrote = [k for k in idx(path, r"MemFrame::with_bytes::<|Pager::write_block$") if k > de]
        dirty = [k for k in idx(path, r"MemFrame::mark_dirty$") if k > de]
        if not wrote and not dirty:
            # (MemFrame::dealloc builds a new, clean frame: a dirty flag set on the old one is gone)
            return ("free_page_image_neither_written_nor_marked_dirty", conj([isok, got]))
        return None
    c = trace_obligation(env, ob, ctx, res, bad_image, "the released page's free image is lost")

    # the closure handed to with_page_mut stores Some(released id) in the old tail's `next` (executed from its MIR)
    d = None
    try:
        f2 = env.mir.find(PAGER, "dealloc_page::{closure#0}")
        ctx2 = mirsmt.Ctx()
        rid = ctx2.declare("released_id", "u64")
        clo = Agg(ctx2, None, "closure")
        clo.fields["0"] = Cell(Ref(Cell(rid)))
        hdr = Cell(Agg(ctx2, "old_tail_header", "storage::page::OverflowPageHeader"))

        def m_meta(ex, path, frame, callee, args_, dest_ty):
            return Ref(hdr, True)
        mdl = dict(COMMON_MODELS)
        mdl[r"MemBlock::<OverflowPageHeader>::metadata_mut$"] = m_meta
        ex2 = mirsmt.Executor(env.mir, ctx2, models=mdl, loop_bound=1)
        res2 = ex2.run(f2, [clo, ctx2.sym("page", f2.params[1][1])])
        nxt = str(env.struct_fields("storage/page.rs", "OverflowPageHeader").index("next"))
        ok = bool(res2)
        for path, rv in res2:
            # deepcopy on fork may have replaced hdr: look the header up through the final frame's reference
            h = None
            for e_ in (path.final_frame.cells.values() if getattr(path, "final_frame", None) else []):
                v = e_.val
                if isinstance(v, Ref) and isinstance(v.cell.val, Agg) and v.cell.val.name == "old_tail_header":
                    h = v.cell.val
            h = h or hdr.val
            v = h.fields.get(nxt)
            if v is None or _arg_some_payload(v.val) != rid.term:
                ok = False
        d = result(ob, "discharged" if ok else "violated", failed=[] if ok else ["old_tail_link_is_not_some_released_id"], paths=len(res2))
    except Unsupported as e:
        d = result(ob, "inconclusive", reason="closure of dealloc_page: " + str(e)[:120])
    return merge(merge(merge(a, b), c), d)


@obligation(id="C11.merged_sibling_is_released", also="C10", funcs="Btree::balance (the 'free unused pages' loop)",
            bounds="ONE iteration of the loop of Btree::balance that drops surplus siblings, from an arbitrary state of "
                   "every local (region of the MIR body between the pop_back call and the loop condition); callees "
                   "uninterpreted", native="c11_merge_releases_page")
def c11_merged_sibling(env, ob):
    """Rebalancing that needs fewer pages than it loaded unlinks the surplus siblings from the tree: each of them must be
    handed to Pager::dealloc_page in the same iteration, otherwise the page belongs to nobody."""
    f = env.mir.find("tree/bplustree.rs", "balance")
    start = [bb for bb, st in f.blocks.items() if any("::pop_back(" in x and "Position<" in x for x in st)]
    if len(start) != 1:
        raise Unsupported(f"'free unused pages' loop of Btree::balance not found ({len(start)} pop_back sites)")
    start = start[0]
    heads = [bb for bb, st in f.blocks.items()
             if any(x.strip().startswith("switchInt") and re.search(r"\b" + start + r"\b", x) for x in st)]
    if len(heads) != 1:
        raise Unsupported("loop condition block of the 'free unused pages' loop not found")
    ctx = mirsmt.Ctx()
    ex = mirsmt.Executor(env.mir, ctx, models=dict(COMMON_MODELS), loop_bound=1, max_paths=5000)
    res = ex.run(f, [ctx.sym("p%d" % i, t) for i, (n, t) in enumerate(f.params)], start_bb=start, stop_bbs=heads)

    def bad(path, rv):
        if path.panics or not path.stopped:
            return None
        ent = _evs(path, r"Position::<.*>::entry$")
        de = _evs(path, r"Pager::dealloc_page::<")
        if not ent:
            return ("surplus_sibling_dropped_without_reading_its_page_id", None)
        if not de:
            return ("unlinked_sibling_is_never_released", None)
        a = de[0]["args"][1]
        if not (isinstance(a, Leaf) and isinstance(ent[0]["ret"], Leaf) and a.term == ent[0]["ret"].term):
            return ("released_page_is_not_the_unlinked_sibling", None)
        return None
    done = [p for p, rv in res if p.stopped]
    if not done:
        return result(ob, "inconclusive", reason="vacuity: no path completes an iteration of the loop", paths=len(res))
    return trace_obligation(env, ob, ctx, [(p, Unit() if p.stopped else rv) for p, rv in res], bad,
                            "a sibling unlinked by rebalancing is not put on the free list", cuts_ok=True)


def block_succs(f):
    succ = {}
    for bb, st in f.blocks.items():
        outs = []
        for x in st:
            x = x.strip()
            if "-> " in x or x.startswith("goto") or x.startswith("switchInt"):
                tail = x.split("->", 1)[-1]
                tail = re.sub(r"unwind: bb\d+", "", tail)
                outs += re.findall(r"\bbb\d+\b", tail)
        succ[bb] = outs
    return succ


def preds_upto(f, target, depth):
    succ = block_succs(f)
    pred = {}
    for b_, outs in succ.items():
        for o in outs:
            pred.setdefault(o, set()).add(b_)
    seen, frontier = {target}, {target}
    for _ in range(depth):
        frontier = {p for b_ in frontier for p in pred.get(b_, ())} - seen
        seen |= frontier
    return sorted(seen, key=lambda b_: int(b_[2:]))


@obligation(id="C10.frontier_links_are_mirrored", funcs="Btree::balance (the two 'fix the global frontier links' steps)",
            bounds="the regions of the MIR body of Btree::balance that re-link the page to the right / to the left of the "
                   "redistributed siblings, entered from the test of the frontier and from each of its predecessor blocks, each "
                   "from an arbitrary state of every local; callees uninterpreted",
            native="c10_sibling_links_after_rebalance")
def c10_frontier_links(env, ob):
    """Sibling links mirror the key order on EVERY level: after the siblings were redistributed (their page ids may have
    changed), the page to the right of the group must point back at the group's last page and the page to its left must
    point at its first page - whether the level is a leaf level or an interior one.  So no way into these steps may get
    past them without either finding that there is no such neighbour or writing the link."""
    f = env.mir.find("tree/bplustree.rs", "balance")
    loc = {}
    for nm in ("global_right_frontier", "global_left_frontier"):
        v = f.debug.get(nm)
        if not v or not re.match(r"^_\d+$", v):
            raise Unsupported(f"local `{nm}` of Btree::balance not found in the dump")
        bbs = [bb for bb, st in f.blocks.items() if any(re.search(r"= discriminant\(" + v + r"\)", x) for x in st)]
        if len(bbs) != 1:
            raise Unsupported(f"the test of `{nm}` is not a single block ({len(bbs)})")
        loc[nm] = (v, bbs[0])
    rec = [bb for bb, st in f.blocks.items() if any(re.search(r"= Btree::<Acc>::balance\(", x) for x in st)]
    if not rec:
        raise Unsupported("the recursive call that ends Btree::balance not found")
    agg = None
    for nm, stop, setter, what in (("global_right_frontier", [loc["global_left_frontier"][1]], r"set_prev_sibling$", "right"),
                                   ("global_left_frontier", rec, r"set_next_sibling$", "left")):
        v, test_bb = loc[nm]
        stopset = set(stop)
        for start in preds_upto(f, test_bb, 1):
            if start in stopset:
                continue
            ctx = mirsmt.Ctx()
            ex = mirsmt.Executor(env.mir, ctx, models=dict(COMMON_MODELS), loop_bound=1, max_paths=5000)
            a0 = [ctx.sym("p%d" % i, t) for i, (n, t) in enumerate(f.params)]
            try:
                res = ex.run(f, a0, start_bb=start, stop_bbs=stop)
            except Unsupported as e:
                agg = merge(agg, result(ob, "inconclusive", reason=f"{what} frontier from {start}: {str(e)[:100]}"))
                continue
            if not any(p.stopped for p, rv in res):
                continue     # this entry never reaches the end of the step (error paths only)

            def bad(path, rv, setter=setter, what=what, v=v):
                if path.panics or not path.stopped:
                    return None
                hit = idx(path, setter)
                if hit:
                    a = path.events[hit[0]]["args"][1]
                    if what == "right" and not (isinstance(a, Agg) and a.disc is not None and mirsmt.const_of(a.disc.term) == 1):
                        return (f"{what}_neighbour_link_not_set_to_a_sibling", None)
                    return None
                none = [c for c in path.pc if re.match(r"^\(= \|balance\." + v + r"!\d+#d\| \(_ bv0 64\)\)$", c)]
                if none:
                    return None
                return (f"{what}_neighbour_of_the_rebalanced_group_keeps_its_old_link", None)
            agg = merge(agg, trace_obligation(env, ob, ctx, [(p, Unit() if p.stopped else rv) for p, rv in res], bad,
                                              f"the page to the {what} of a rebalanced group is not re-linked", cuts_ok=True))
    if agg is None:
        return result(ob, "inconclusive", reason="vacuity: no region reaches the end of a frontier step")
    return agg


# ---------------------------------------------------------------------------------------------------------------------
# C16: every argument / column index in the scalar-function implementations and in eval_column is guarded by a length test
# ---------------------------------------------------------------------------------------------------------------------
def _guarded_index_models():
    """Vec<DataType> / Row: `len` is one symbol per container, `container[k]` yields the side condition k < len."""
    def cont(a):
        c = a.cell.val if isinstance(a, Ref) else a
        if not isinstance(c, Agg):
            return None
        return c

    def key(c):
        return c.name if c.name is not None else "anon%d" % id(c)

    def m_len(ex, path, frame, callee, args, dest_ty):
        c = cont(args[0])
        if c is None:
            return NotImplemented
        return ex.ctx.declare("len:" + key(c), "usize")

    def m_index(ex, path, frame, callee, args, dest_ty):
        c = cont(args[0])
        if c is None or not isinstance(args[1], Leaf):
            return NotImplemented
        ln = ex.ctx.declare("len:" + key(c), "usize")
        cond = fold(f"(bvult {args[1].term} {ln.term})")
        path.side.append((list(path.pc), cond, f"index out of bounds in {frame.func.name.split('::')[-1]}: index {mirsmt.describe(args[1])}"))
        path.pc.append(cond)
        k = "[" + args[1].term + "]"
        if k not in c.fields:
            c.fields[k] = Cell(ex.ctx.sym((c.name or ex.ctx.fresh("elem")) + k, "types::DataType"))
        return Ref(c.fields[k])
    return {r"^Vec::<types::DataType>::len$|^Row::len$": m_len,
            r"^<Vec<types::DataType> as Index<usize>>::index$|^<Row as Index<usize>>::index$": m_index}


@obligation(id="C16.argument_indexing_guarded", also="C05", funcs="<* as Callable>::call (every scalar function in runtime/eval.rs),ExpressionEvaluator::eval_column,DmlExecutor::build_full_row",
            bounds="every path of each function (loops unrolled twice); the argument vector / row has ANY length; other callees uninterpreted",
            native="c16_scalar_function_arity")
def c16_arg_index(env, ob):
    """A statement may call a scalar function with any number of arguments (the binder does not check arity) and name any
    column position: an index into the argument vector / the row that the path condition does not bound is a panic in the
    worker thread."""
    src = env.read("runtime/eval.rs").split("\n")
    targets = []
    for h, s_, e_ in env.mir.funcs:
        m = re.match(r"^fn eval::<impl at crates/axmos-db/src/runtime/eval\.rs:(\d+):\d+: \d+:\d+>::call\(_1: Vec<types::DataType>\)", h)
        if m:
            line = src[int(m.group(1)) - 1] if int(m.group(1)) - 1 < len(src) else ""
            mm = re.search(r"impl\s+Callable\s+for\s+(\w+)", line)
            targets.append((mm.group(1) if mm else f"impl@{m.group(1)}", mirsmt.Func(h, env.mir.lines[s_ + 1:e_])))
    if len(targets) < 3:
        raise Unsupported("scalar function implementations (impl Callable) not found in the dump")
    targets.append(("eval_column", env.mir.find("runtime/eval.rs", "eval_column")))
    # INSERT .. SELECT hands build_full_row whatever the source plan produced (an aggregate without a projection yields
    # fewer columns than the select list counted by the binder): the copy loop indexes the source row by position
    targets.append(("build_full_row", env.mir.find("runtime/dml.rs", "build_full_row")))
    bad, inc, total, nq = [], [], 0, 0
    for name, f in targets:
        ctx = mirsmt.Ctx()
        mdl = dict(COMMON_MODELS)
        mdl.update(_guarded_index_models())
        ex = mirsmt.Executor(env.mir, ctx, models=mdl, loop_bound=2, max_paths=20000)
        try:
            res = ex.run(f, [ctx.sym("p%d" % i, t) for i, (n, t) in enumerate(f.params)])
        except Unsupported as e:
            inc.append(f"{name}: {str(e)[:100]}")
            continue
        total += len(res)
        qs, seen = [], set()
        for path, rv in res:
            for (prefix, cond, msg) in path.side:
                q = conj(prefix + [f"(not {cond})"])
                if q not in seen:
                    seen.add(q)
                    qs.append(q)
        if not qs:
            continue
        chk = env.check(ctx, [disj(qs)])
        nq += 1
        if chk[0]["verdict"] == "sat":
            bad.append(name)
        elif chk[0]["verdict"] != "unsat":
            inc.append(f"{name}: {chk[0]['verdict']}")
    kw = dict(paths=total, queries=nq, events={"functions": [n for n, _ in targets]})
    if bad:
        return result(ob, "violated", failed=[f"unguarded_index[{b}]" for b in sorted(bad)],
                      cex={"what": "an index into the argument vector / row is reachable with the index >= length", "functions": bad}, **kw)
    if inc:
        return result(ob, "inconclusive", reason="; ".join(inc)[:300], **kw)
    return result(ob, "discharged", **kw)


# ---------------------------------------------------------------------------------------------------------------------
# C05: one `next()` of the row-pipeline operators (LIMIT / OFFSET, WHERE, DISTINCT) from an arbitrary operator state
# ---------------------------------------------------------------------------------------------------------------------
def _final_field(path, idx_):
    ff = getattr(path, "final_frame", None)
    me_ = ff.cells.get("_1").val if ff is not None and ff.cells.get("_1") is not None else None
    obj = me_.cell.val if isinstance(me_, Ref) else None
    c = obj.fields.get(str(idx_)) if isinstance(obj, Agg) else None
    return c.val if c is not None else None


def _ok_some(rv):
    """(is Ok(Some), is Ok(None), payload Agg) of a Result<Option<Row>, _> return value built by the function"""
    if not isinstance(rv, Agg) or rv.disc is None or mirsmt.const_of(rv.disc.term) != 0:
        return False, False, None
    okv = rv.variants.get("Ok")
    inner = okv.val.fields.get("0").val if okv is not None and isinstance(okv.val, Agg) and okv.val.fields.get("0") is not None else None
    if not isinstance(inner, Agg):
        return False, False, None
    if inner.disc is not None and mirsmt.const_of(inner.disc.term) == 0:
        return False, True, None
    if inner.disc is not None and mirsmt.const_of(inner.disc.term) == 1:
        pay = inner.variants.get("Some")
        return True, False, (pay.val.fields.get("0").val if pay is not None and isinstance(pay.val, Agg) and pay.val.fields.get("0") is not None else None)
    return False, False, None


def _child_next(path):
    return [e for e in path.events if re.search(r"<Child as Executor>::next$", e["callee"])]


def _row_of(ev):
    """symbolic name of the row a child.next() call yielded"""
    return ev["ret"].name + "@Ok.0@Some.0" if isinstance(ev["ret"], Agg) and ev["ret"].name else None


@obligation(id="C05.limit_offset_step", funcs="<Limit as Executor>::next",
            bounds="ONE call of Limit::next from an arbitrary operator state (limit, offset, rows already skipped / produced "
                   "symbolic 64-bit counters); the skip loop unrolled twice (longer skips repeat the body); the child is "
                   "abstract (any row, end of input, or error at every call)", native="c05_limit_offset_distinct_where")
def c05_limit_step(env, ob):
    """LIMIT n OFFSET k: a row is handed on only when k rows have been skipped before it and fewer than n were produced;
    it is the row the child just yielded (never a skipped one); the produced counter advances by exactly one; None is
    answered only at the limit or when the child is exhausted - never with a consumed row in hand."""
    names = env.struct_fields("runtime/ops/limit.rs", "Limit")
    ix = {n: i for i, n in enumerate(names)}
    ctx, f, args, res = explore(env, "runtime/ops/limit.rs", "next", loop_bound=2)
    me0 = args[0].cell.val
    lim, off = (me0.field_cell(str(ix[k]), "usize").val.term for k in ("limit", "offset"))
    cur0, skp0 = (me0.field_cell(str(ix[k]), "usize").val.term for k in ("current", "skipped"))
    qs, tags = [], []
    n_some = 0
    for path, rv in res:
        if path.cut or path.panics:
            continue
        some, none, row = _ok_some(rv)
        calls = _child_next(path)
        pc = conj(path.pc)
        if some:
            n_some += 1
            skp1 = _final_field(path, ix["skipped"])
            cur1 = _final_field(path, ix["current"])
            if not isinstance(skp1, Leaf) or not isinstance(cur1, Leaf) or not calls:
                qs.append(pc); tags.append("row_produced_without_asking_the_child")
                continue
            qs.append(conj([pc, f"(bvult {skp1.term} {off})"])); tags.append("row_produced_before_the_offset_was_skipped")
            qs.append(conj([pc, f"(bvule {skp0} {off})", f"(not (= {skp1.term} {off}))"])); tags.append("more_rows_skipped_than_the_offset")
            qs.append(conj([pc, f"(not (bvult {cur0} {lim}))"])); tags.append("row_produced_beyond_the_limit")
            qs.append(conj([pc, f"(not (= {cur1.term} (bvadd {cur0} {bvconst(1, 64)})))"])); tags.append("produced_counter_does_not_advance_by_one")
            last = _row_of(calls[-1])
            if not (isinstance(row, Agg) and row.name and last and row.name.startswith(last)):
                qs.append(pc); tags.append("row_handed_on_is_not_the_row_the_child_just_yielded")
        elif none:
            if calls:
                r = calls[-1]["ret"]
                inner_some = f"(= {ctx.smtname(r.name + '@Ok.0#d')} {bvconst(1, 64)})" if ctx.smtname(r.name + "@Ok.0#d") in ctx.decls else "false"
                # (a row consumed while skipping is meant to be dropped: with the limit already reached None is right)
                qs.append(conj([pc, ret_is_ok(r), inner_some, f"(bvult {cur0} {lim})"])); tags.append("end_of_rows_answered_with_a_consumed_row_in_hand")
            else:
                qs.append(conj([pc, f"(bvult {cur0} {lim})"])); tags.append("end_of_rows_answered_below_the_limit_without_asking_the_child")
    if not n_some:
        return result(ob, "inconclusive", reason="vacuity: no path of Limit::next produces a row", paths=len(res))
    chk = env.check(ctx, qs)
    bad = sorted({t for t, c in zip(tags, chk) if c["verdict"] == "sat"})
    inc = [c["verdict"] for c in chk if c["verdict"] not in ("sat", "unsat")]
    kw = dict(paths=len(res), queries=len(qs))
    if bad:
        return result(ob, "violated", failed=bad, cex={"what": "one call of Limit::next breaks LIMIT / OFFSET"}, **kw)
    if inc:
        return result(ob, "inconclusive", reason=inc[0], **kw)
    return result(ob, "discharged", **kw)


def _gate_step(env, ob, rel, gate_rx, what):
    """Filter / HashDistinct: a row is handed on only if the gate (predicate / first-occurrence test) said yes for THAT row;
    None only when the child is exhausted."""
    ctx, f, args, res = explore(env, rel, "next", loop_bound=2)
    qs, tags, n_some = [], [], 0
    for path, rv in res:
        if path.cut or path.panics:
            continue
        some, none, row = _ok_some(rv)
        calls = _child_next(path)
        pc = conj(path.pc)
        if some:
            n_some += 1
            last = _row_of(calls[-1]) if calls else None
            if not (isinstance(row, Agg) and row.name and last and row.name.startswith(last)):
                qs.append(pc); tags.append("row_handed_on_is_not_the_row_the_child_just_yielded")
                continue
            k = path.events.index(calls[-1])
            gates = [e for e in path.events[k:] if callee_is(e, gate_rx)]
            if not gates:
                qs.append(pc); tags.append(f"row_handed_on_without_{what}")
                continue
            g = gates[-1]["ret"]
            yes = None
            if isinstance(g, Leaf):
                yes = g.term
            elif isinstance(g, Agg):
                b = ctx.smtname(g.name + "@Ok.0")
                yes = f"(and {ret_is_ok(g)} {b})" if b in ctx.decls else None
            if yes is None:
                qs.append(pc); tags.append(f"row_handed_on_without_{what}")
            else:
                qs.append(conj([pc, f"(not {yes})"])); tags.append(f"row_handed_on_although_{what}_said_no")
        elif none:
            if not calls:
                qs.append(pc); tags.append("end_of_rows_answered_without_asking_the_child")
            else:
                r = calls[-1]["ret"]
                d = ctx.smtname(r.name + "@Ok.0#d")
                inner_some = f"(= {d} {bvconst(1, 64)})" if d in ctx.decls else "false"
                qs.append(conj([pc, ret_is_ok(r), inner_some])); tags.append("end_of_rows_answered_with_a_consumed_row_in_hand")
    if not n_some:
        return result(ob, "inconclusive", reason="vacuity: no path produces a row", paths=len(res))
    chk = env.check(ctx, qs)
    bad = sorted({t for t, c in zip(tags, chk) if c["verdict"] == "sat"})
    inc = [c["verdict"] for c in chk if c["verdict"] not in ("sat", "unsat")]
    kw = dict(paths=len(res), queries=len(qs))
    if bad:
        return result(ob, "violated", failed=bad, cex={"what": "one call of next() hands on a row it should not / drops one"}, **kw)
    if inc:
        return result(ob, "inconclusive", reason=inc[0], **kw)
    return result(ob, "discharged", **kw)


@obligation(id="C05.where_step", funcs="<Filter as Executor>::next",
            bounds="ONE call of Filter::next, loop unrolled twice; child and predicate evaluation abstract",
            native="c05_limit_offset_distinct_where")
def c05_where_step(env, ob):
    return _gate_step(env, ob, "runtime/ops/filter.rs", r"ExpressionEvaluator::<.*>::evaluate_as_bool$|evaluate_as_bool$", "the_predicate")


@obligation(id="C05.distinct_step", funcs="<HashDistinct as Executor>::next",
            bounds="ONE call of HashDistinct::next, loop unrolled twice; child and the seen-set abstract",
            native="c05_limit_offset_distinct_where")
def c05_distinct_step(env, ob):
    return _gate_step(env, ob, "runtime/ops/distinct.rs", r"HashSet::<.*>::insert$", "the_first_occurrence_test")


@obligation(id="C05.dml_counts_every_addressed_row", funcs="Update::update_row",
            bounds="every path of Update::update_row; callees uninterpreted",
            native="c05_affected_row_counts")
def c05_dml_counts(env, ob):
    """UPDATE / DELETE report the number of rows the statement addressed (SQL: rows matching WHERE), which is what the
    DML executor's own verdict says.  The per-row routine must hand every row to the DML executor and report ITS verdict -
    not skip rows it considers unchanged."""
    agg = None
    for rel, fn, callee_rx in (("runtime/ops/update.rs", "update_row", r"DmlExecutor::update$"),):
        try:
            ctx, f, args, res = explore(env, rel, fn, loop_bound=1)
        except Unsupported as e:
            agg = merge(agg, result(ob, "inconclusive", reason=f"{fn}: {str(e)[:120]}"))
            continue

        def bad(path, rv, fn=fn, callee_rx=callee_rx):
            if path.panics or rv is None or not isinstance(rv, Agg):
                return None
            if not idx(path, callee_rx):
                return (f"row_not_handed_to_the_dml_executor@{fn}", ret_is_ok(rv))
            return None
        if not any(idx(p, callee_rx) for p, rv in res):
            agg = merge(agg, result(ob, "inconclusive", reason=f"vacuity: {fn} never calls the DML executor", paths=len(res)))
            continue
        agg = merge(agg, trace_obligation(env, ob, ctx, res, bad, f"{fn} answers for a row without asking the DML executor", cuts_ok=True))
    return agg


@obligation(id="C05.order_by_is_lexicographic", funcs="QuickSort::compare_keys",
            bounds="every path of the sort comparator through <= 2 sort keys (loop unrolled twice); value comparison abstract",
            native="c05_order_by_ties_and_nulls")
def c05_sort_lex(env, ob):
    """ORDER BY k1, k2, ..: the comparison may be decided at key i only when key i differs (NULLs included: two NULLs tie and
    the next key decides).  Every return from inside the loop over the sort keys must follow the `cmp != Equal` test of
    that key."""
    ctx, f, args, res = explore(env, "runtime/ops/sort.rs", "compare_keys", loop_bound=2)

    def bad(path, rv):
        if path.panics or rv is None:
            return None
        nx = idx(path, r"as Iterator>::next$")
        if not nx:
            return None
        last = path.events[nx[-1]]["ret"]
        some = f"(= {last.get_disc().term} {bvconst(1, 64)})" if isinstance(last, Agg) else None
        if some is None or some not in path.pc:
            return None            # the key list was exhausted: every key tied
        tests = [e for e in path.events[nx[-1]:] if callee_is(e, r"Ordering as PartialEq>::(ne|eq)$") and isinstance(e["ret"], Leaf)]
        decided = [e for e in tests if (e["ret"].term in path.pc and e["callee"].endswith("ne"))
                   or (f"(not {e['ret'].term})" in path.pc and e["callee"].endswith("eq"))]
        if not decided:
            return ("comparison_decided_at_a_key_without_establishing_that_the_key_differs", None)
        return None
    if not any(idx(p, r"Ordering as PartialEq>::(ne|eq)$") for p, rv in res):
        return result(ob, "inconclusive", reason="vacuity: compare_keys never tests a key comparison against Equal", paths=len(res))
    return trace_obligation(env, ob, ctx, res, bad, "the sort comparator stops at a key that ties", cuts_ok=True)


# ---------------------------------------------------------------------------------------------------------------------
# C16: the lexer's loops stop at the end of the input
# ---------------------------------------------------------------------------------------------------------------------
LEXER = "sql/parser/lexer.rs"


def loop_heads(f):
    """blocks of a MIR body that are the target of a back edge (DFS from bb0)"""
    succ = {}
    for bb, st in f.blocks.items():
        outs = []
        for x in st:
            x = x.strip()
            if "-> " in x or x.startswith("goto") or x.startswith("switchInt"):
                outs += [t for t in re.findall(r"\bbb\d+\b", x.split("->", 1)[-1]) ]
        # unwind / cleanup edges are not control flow of interest
        outs = [t for t in outs if not any(re.search(r"unwind: " + t + r"\b", y) for y in st)]
        succ[bb] = outs
    heads, color = set(), {}
    stack = [("bb0", iter(succ.get("bb0", [])))]
    color["bb0"] = 1
    while stack:
        node, it = stack[-1]
        nxt = next(it, None)
        if nxt is None:
            color[node] = 2
            stack.pop()
            continue
        if color.get(nxt) == 1:
            heads.add(nxt)
        elif nxt not in color and nxt in succ:
            color[nxt] = 1
            stack.append((nxt, iter(succ[nxt])))
    return sorted(heads, key=lambda b: int(b[2:]))


@obligation(id="C16.lexer_loops_stop_at_end_of_input", funcs="Lexer::next_token,Lexer::skip_whitespace,Lexer::read_string,"
            "Lexer::read_number,Lexer::read_identifier,Lexer::advance,Lexer::peek",
            bounds="every loop of the five scanning functions, ONE round from the loop head in an arbitrary state of the "
                   "locals with the lexer at the end of its input (position >= input.len(), current_char = None); "
                   "Lexer::advance / peek inlined from MIR",
            native="c16_comment_at_end_of_statement")
def c16_lexer_eof(env, ob):
    """At the end of the input `advance` leaves the lexer where it is (current_char stays None), so a loop that comes back
    to its head there comes back forever: the statement never returns (a trailing `--` comment without newline, an
    unterminated string, a number or identifier that ends the text)."""
    names = env.struct_fields(LEXER, "Lexer")
    ix = {n: str(i) for i, n in enumerate(names)}
    bad, inc, total, nq, nloops = [], [], 0, 0, 0
    for fn in ("next_token", "skip_whitespace", "read_string", "read_number", "read_identifier"):
        f = env.mir.find(LEXER, fn, r"&mut Lexer\)")
        for head in loop_heads(f):
            nloops += 1
            ctx = mirsmt.Ctx()
            lx = Agg(ctx, "lexer", "sql::parser::lexer::Lexer")
            none = Agg(ctx, None, "std::option::Option<char>")
            none.disc = Leaf(bvconst(0, 64), "isize")
            lx.fields[ix["current_char"]] = Cell(none)
            pos = lx.field_cell(ix["position"], "usize").val
            ln = ctx.declare("input_len", "usize")

            def m_len(ex, path, frame, callee, args, dest_ty, ln=ln):
                return ln
            mdl = dict(COMMON_MODELS)
            mdl[r"^Vec::<char>::len$"] = m_len
            inline = {r"^Lexer::advance$": (LEXER, "advance", None), r"^Lexer::peek$": (LEXER, "peek", None)}
            ex = mirsmt.Executor(env.mir, ctx, inline=inline, models=mdl, loop_bound=2, max_paths=20000)
            try:
                res = ex.run(f, [Ref(Cell(lx), True)], start_bb=head, stop_bbs=[head])
            except Unsupported as e:
                inc.append(f"{fn}@{head}: {str(e)[:100]}")
                continue
            total += len(res)
            pre = [f"(bvuge {pos.term} {ln.term})", f"(bvult {pos.term} {bvconst(1 << 62, 64)})"]
            again = [conj(pre + p.pc) for p, rv in res if p.stopped or p.cut]
            left = [conj(pre + p.pc) for p, rv in res if not p.stopped and not p.cut and not p.panics]
            if not left:
                inc.append(f"{fn}@{head}: vacuity (no path leaves the loop)")
                continue
            chk = env.check(ctx, ([disj(again)] if again else []) + [disj(left)])
            nq += len(chk)
            if chk[-1]["verdict"] != "sat":
                inc.append(f"{fn}@{head}: vacuity ({chk[-1]['verdict']})")
            if again:
                if chk[0]["verdict"] == "sat":
                    bad.append(fn)
                elif chk[0]["verdict"] != "unsat":
                    inc.append(f"{fn}@{head}: {chk[0]['verdict']}")
    kw = dict(paths=total, queries=nq, events={"loops": nloops})
    if bad:
        return result(ob, "violated", failed=[f"loop_runs_on_at_end_of_input[{b}]" for b in sorted(set(bad))],
                      cex={"what": "a loop of the lexer comes back to its head although the input is exhausted", "functions": bad}, **kw)
    if inc:
        return result(ob, "inconclusive", reason="; ".join(inc)[:300], **kw)
    if not nloops:
        return result(ob, "inconclusive", reason="vacuity: no loop found in the lexer functions", **kw)
    return result(ob, "discharged", **kw)


@obligation(id="C16.like_matcher_makes_progress", also="C05", funcs="BlobRef::match_pattern",
            bounds="ONE round of the matching loop from its head, in ANY state of its five locals with backtrack_data_idx <= "
                   "data_idx <= |data| (the loop's own invariant, re-established by the round: checked), any data and "
                   "pattern of any length; ranking function (backtrack_data_idx, data_idx + pattern_idx), "
                   "lexicographic, bounded by (|data|, |data| + |pattern|)",
            native="c16_like_returns")
def c16_like_progress(env, ob):
    """LIKE runs inside the worker with a client-chosen pattern: a loop round that does not move forward is a statement
    that never returns.  Termination by a ranking function, decided for every state at once: each round that comes back
    to the head either raises backtrack_data_idx, or keeps it and raises data_idx + pattern_idx; both are bounded."""
    f = env.mir.find("types/blob.rs", "match_pattern")
    dbg = {k: v for k, v in f.debug.items()}
    need = ["data_idx", "pattern_idx", "backtrack_data_idx", "backtrack_pattern_idx", "in_escape"]
    if any(n not in dbg or not re.match(r"^_\d+$", dbg[n]) for n in need):
        return result(ob, "inconclusive", reason="locals of match_pattern not found: " + repr(dbg)[:200])
    heads = sorted(loop_heads(f), key=lambda b: int(b[2:]))
    if not heads:
        return result(ob, "inconclusive", reason="vacuity: no loop in match_pattern")
    head = heads[0]
    ctx = mirsmt.Ctx()
    pre = {n: ctx.declare("pre_" + n, "bool" if n == "in_escape" else "usize") for n in need}
    args = [ctx.sym("data", f.params[0][1]), ctx.sym("pattern", f.params[1][1])]
    ex = mirsmt.Executor(env.mir, ctx, models=dict(COMMON_MODELS), loop_bound=2, max_paths=20000)
    ex._elem_hint = "u8"
    try:
        res = ex.run(f, args, start_bb=head, stop_bbs=heads, init={dbg[n]: pre[n] for n in need})
        # the loops after the matching loop (trailing %): each round raises pattern_idx
        tails = []
        for h2 in heads[1:]:
            ctx2 = mirsmt.Ctx()
            p2 = ctx2.declare("pre_pattern_idx", "usize")
            ex2 = mirsmt.Executor(env.mir, ctx2, models=dict(COMMON_MODELS), loop_bound=2, max_paths=2000)
            ex2._elem_hint = "u8"
            r2 = ex2.run(f, [ctx2.sym("data", f.params[0][1]), ctx2.sym("pattern", f.params[1][1])], start_bb=h2, stop_bbs=[h2],
                         init={dbg["pattern_idx"]: p2})
            tails.append((h2, ctx2, p2, r2))
    except Unsupported as e:
        return result(ob, "inconclusive", reason=str(e)[:200])
    tail_bad, tail_q = [], 0
    for h2, ctx2, p2, r2 in tails:
        q2 = []
        for path, rv in r2:
            if path.cut:
                return result(ob, "inconclusive", reason="inner loop not closed within the bound: " + path.cut)
            if path.stopped:
                v = path.final_frame.cells[dbg["pattern_idx"]].val
                q2.append(conj([f"(bvult {p2.term} {bvconst(1 << 60, 64)})"] + path.pc + [f"(not (bvugt {v.term} {p2.term}))"]))
        if q2:
            c2 = env.check(ctx2, [disj(q2)])
            tail_q += 1
            if c2[0]["verdict"] == "sat":
                tail_bad.append(f"round_without_progress[{h2}]")
            elif c2[0]["verdict"] != "unsat":
                return result(ob, "inconclusive", reason="solver: " + c2[0]["verdict"])
    # |data| as the loop condition reads it
    dlen = getattr(args[0].cell, "len_sym", None) if isinstance(args[0], Ref) else None
    if dlen is None:
        return result(ob, "inconclusive", reason="the loop head does not read data.len() through the parameter")
    big = bvconst(1 << 60, 64)
    inv = [f"(bvule {pre['backtrack_data_idx'].term} {pre['data_idx'].term})", f"(bvule {pre['data_idx'].term} {dlen.term})",
           f"(bvult {dlen.term} {big})", f"(bvult {pre['pattern_idx'].term} {big})"]
    back, qs, labels, leaves = 0, [], [], 0
    for path, rv in res:
        if path.cut:
            return result(ob, "inconclusive", reason="inner loop not closed within the bound: " + path.cut)
        if path.stopped != head:
            leaves += 1
            if path.panics:
                # an arithmetic / index panic inside the round kills the worker just the same
                qs.append(conj(inv + path.pc))
                labels.append("round_panics")
            continue
        back += 1
        fr = path.final_frame
        post = {n: fr.cells[dbg[n]].val for n in need}
        d0, p0, b0 = pre["data_idx"].term, pre["pattern_idx"].term, pre["backtrack_data_idx"].term
        d1, p1, b1 = post["data_idx"].term, post["pattern_idx"].term, post["backtrack_data_idx"].term
        up = f"(or (bvugt {b1} {b0}) (and (= {b1} {b0}) (bvugt (bvadd {d1} {p1}) (bvadd {d0} {p0}))))"
        keeps = f"(and (bvule {b1} {d1}) (bvule {d1} {dlen.term}))"
        qs.append(conj(inv + path.pc + [f"(not {up})"]))
        labels.append("round_without_progress")
        qs.append(conj(inv + path.pc + [f"(not {keeps})"]))
        labels.append("round_breaks_the_loop_invariant")
    if back < 5 or not leaves:
        return result(ob, "inconclusive", reason=f"vacuity: {back} rounds come back to the head, {leaves} leave", paths=len(res))
    wit = env.check(ctx, [disj([conj(inv + p.pc) for p, rv in res if p.stopped == head])])
    if wit[0]["verdict"] != "sat":
        return result(ob, "inconclusive", reason="vacuity: no feasible round under the invariant", paths=len(res))
    chk = env.check(ctx, qs)
    failed = sorted({lab for lab, c in zip(labels, chk) if c["verdict"] == "sat"} | set(tail_bad))
    unk = [c["verdict"] for c in chk if c["verdict"] not in ("sat", "unsat")]
    kw = dict(paths=len(res), queries=len(chk) + 1 + tail_q, events={"rounds_back_to_head": back, "rounds_leaving": leaves,
                                                                      "loops": len(heads)})
    if failed:
        model = next((c.get("model") for lab, c in zip(labels, chk) if c["verdict"] == "sat"), None)
        return result(ob, "violated", failed=failed, cex={"what": "a state of the matching loop from which one round does not advance", "model": model}, **kw)
    if unk:
        return result(ob, "inconclusive", reason="solver: " + ",".join(unk[:3]), **kw)
    return result(ob, "discharged", **kw)


@obligation(id="C05.count_argument_decides_what_is_counted", funcs="HashAggregate::accumulate_row",
            bounds="every path of accumulate_row with up to two aggregates in the select list (loop unrolled twice); the "
                   "evaluator, the hash table and the accumulators are uninterpreted (the accumulators themselves: Kani "
                   "C05.aggregate[*])", native="c05_count_skips_nulls")
def c05_count_argument(env, ob):
    """COUNT(*) counts rows, every other aggregate call - COUNT(col) included - is fed the VALUE of its argument for the
    row (so that NULLs can be skipped by the accumulator).  Four laws per aggregate of the list: (1) the row-counting
    entry `accumulate_star` is only reachable when the aggregate has no argument or `*`; (2) what `accumulate` receives is
    what the evaluator returned for this aggregate's argument; (3) one of the two happens (or the row fails); (4) an
    aggregate marked DISTINCT is fed a value only if inserting it into the group's seen-set reported it as new."""
    star = env.enum_variants("sql/binder/bounds.rs", "BoundExpression")["Star"]
    argix = env.struct_fields("sql/planner/logical.rs", "AggregateExpr").index("arg")
    distix = env.struct_fields("sql/planner/logical.rs", "AggregateExpr").index("distinct")
    ctx, f, args, res = explore(env, "runtime/ops/aggregate.rs", "accumulate_row", loop_bound=1)
    qs, labels, n_star, n_acc, n_dist = [], [], 0, 0, 0
    for path, rv in res:
        last_next, last_eval, served, last_seen_insert, eval_pos = None, None, True, None, -1
        for e in path.events:
            c = e["callee"]
            if re.search(r"Enumerate<.*AggregateExpr>> as Iterator>::next$", c):
                if last_next is not None and not served and not path.cut:
                    qs.append(conj(e.get("pc_prefix", path.pc)))
                    labels.append("aggregate_of_the_list_not_fed_for_this_row")
                last_next, last_eval, served = mirsmt.describe(e["ret"]), None, False
            elif c.endswith("::evaluate_as_single_value"):
                last_eval = (mirsmt.describe(e["ret"]), e["argdesc"][-1])
                eval_pos = path.events.index(e)
                served = True          # the row may fail here: Err travels up
            elif c.endswith("Accumulator::accumulate_star"):
                n_star += 1
                served = True
                if last_next is None:
                    qs.append(conj(e.get("pc_prefix", path.pc)))
                    labels.append("row_counted_outside_the_aggregate_list")
                    continue
                base = f"{last_next}@Some.0.1*.{argix}"
                od, idd = ctx.declare(base + "#d", "isize"), ctx.declare(base + "@Some.0#d", "isize")
                qs.append(conj(e.get("pc_prefix", path.pc) + [f"(= {od.term} {bvconst(1, 64)})", f"(not (= {idd.term} {bvconst(star, 64)}))"]))
                labels.append("row_counted_for_an_aggregate_that_has_an_argument")
            elif re.search(r"HashSet::<types::DataType>::insert$", c):
                last_seen_insert = e
            elif c.endswith("Accumulator::accumulate"):
                n_acc += 1
                served = True
                # (4) DISTINCT: the value went through the group's seen-set for this aggregate and was new
                if last_next is not None:
                    dflag = ctx.declare(f"{last_next}@Some.0.1*.{distix}", "bool").term
                    ins = last_seen_insert if (last_seen_insert is not None and last_eval is not None
                                               and path.events.index(last_seen_insert) > eval_pos) else None
                    pre = e.get("pc_prefix", path.pc)
                    if ins is None or not isinstance(ins["ret"], Leaf):
                        qs.append(conj(pre + [dflag]))
                    else:
                        qs.append(conj(pre + [dflag, f"(not {ins['ret'].term})"]))
                        n_dist += 1
                    labels.append("distinct_aggregate_fed_a_value_it_has_already_seen")
                ok = last_eval is not None and last_next is not None and last_eval[0] in e["argdesc"][-1] and last_next in last_eval[1]
                if not ok:
                    qs.append(conj(e.get("pc_prefix", path.pc)))
                    labels.append("accumulator_fed_something_else_than_the_value_of_its_argument")
    kw = dict(paths=len(res), events={"accumulate_star": n_star, "accumulate": n_acc, "accumulate_after_seen_set_insert": n_dist})
    if not n_star or not n_acc:
        return result(ob, "inconclusive", reason="vacuity: no accumulate / accumulate_star call on any path", **kw)
    chk = env.check(ctx, qs)
    failed = sorted({lab for lab, c in zip(labels, chk) if c["verdict"] == "sat"})
    unk = [c["verdict"] for c in chk if c["verdict"] not in ("sat", "unsat")]
    kw["queries"] = len(chk)
    if failed:
        return result(ob, "violated", failed=failed, cex={"what": "accumulate_row feeds an aggregate the wrong thing"}, **kw)
    if unk:
        return result(ob, "inconclusive", reason="solver: " + ",".join(unk[:3]), **kw)
    return result(ob, "discharged", **kw)


# ---------------------------------------------------------------------------------------------------------------------
# C05: operator precedence of the Pratt parser (constants and the loop condition are extracted from the real MIR)
# ---------------------------------------------------------------------------------------------------------------------
PARSER = "sql/parser/mod.rs"


def parser_with_token(env, fn, token, tokens, sig=None, pure=None):
    def mkargs(ctx, f):
        a = [ctx.sym(n, t) for n, t in f.params]
        p = a[0].cell.val
        names = env.struct_fields(PARSER, "Parser")
        tk = p.field_cell(str(names.index("current_token")), "sql::parser::lexer::Token").val
        tk.disc = Leaf(bvconst(tokens[token], 64), "isize")
        return a
    return explore(env, PARSER, fn, sig=sig, args=mkargs, enums={"Token": tokens}, loop_bound=1, pure=pure)


def const_u8(v):
    if isinstance(v, Leaf):
        c = mirsmt.const_of(v.term)
        if c is not None:
            return int(c)
    return None


@obligation(id="C05.precedence", funcs="Parser::infix_binding_power,Parser::parse_prefix,Parser::parse_expr_bp",
            bounds="binding powers of every infix token and of the prefix operators NOT / unary minus as constants "
                   "extracted from the MIR; the continue/break condition of the Pratt loop as an SMT term; a model of Pratt "
                   "parsing (not an execution of the parser) states which operator may be absorbed by which operand",
            native="c05_not_precedence")
def c05_precedence(env, ob):
    tokens = env.enum_variants("sql/parser/lexer.rs", "Token")
    need = ["Or", "And", "Eq", "Lt", "Plus", "Minus", "Star", "Not"]
    for t in need:
        if t not in tokens:
            raise Unsupported("Token::" + t)
    # 1. infix binding powers
    T = {}
    for t in ["Or", "And", "Eq", "Lt", "Plus", "Minus", "Star"]:
        ctx, f, args, res = parser_with_token(env, "infix_binding_power", t, tokens)
        vals = set()
        for path, rv in res:
            if rv is None or not isinstance(rv, Agg):
                continue
            d = mirsmt.const_of(rv.get_disc().term)
            if d == 1:
                tup = rv.variants["Some"].val.fields["0"].val
                vals.add((const_u8(tup.fields["0"].val), const_u8(tup.fields["1"].val)))
            else:
                vals.add(None)
        if len(vals) != 1 or None in vals or None in list(vals)[0]:
            raise Unsupported(f"binding power of Token::{t} is not a single constant pair: {vals}")
        T[t] = list(vals)[0]
    # 2. prefix operand powers
    P = {}
    for t in ["Not", "Minus"]:
        ctx, f, args, res = parser_with_token(env, "parse_prefix", t, tokens)
        vals = set()
        for path, rv in res:
            for e in path.events:
                if callee_is(e, r"Parser::parse_expr_bp$"):
                    vals.add(const_u8(e["args"][1]))
        if len(vals) != 1 or None in vals:
            raise Unsupported(f"operand binding power of prefix {t}: {vals}")
        P[t] = list(vals)[0]
    # 3. the loop condition of parse_expr_bp: path condition under which an infix operator with left power l is absorbed
    ctx = mirsmt.Ctx()
    f = env.mir.find(PARSER, "parse_expr_bp")
    lsym, rsym = ctx.declare("l_bp", "u8"), ctx.declare("r_bp", "u8")

    def model_ibp(ex, path, frame, callee, args, dest_ty):
        o = Agg(ex.ctx, None, dest_ty)
        o.disc = Leaf(bvconst(1, 64), "isize")
        tup = Agg(ex.ctx, None, "(u8, u8)")
        tup.fields["0"] = Cell(lsym)
        tup.fields["1"] = Cell(rsym)
        pa = Agg(ex.ctx, None, "Some")
        pa.fields["0"] = Cell(tup)
        o.variants["Some"] = Cell(pa)
        return o
    mdl = dict(COMMON_MODELS)
    mdl[r"Parser::infix_binding_power$"] = model_ibp
    ex = mirsmt.Executor(env.mir, ctx, models=mdl, loop_bound=1)
    a = [ctx.sym(n, t) for n, t in f.params]
    minbp = a[1].term
    res = ex.run(f, a)
    absorb = []
    for path, rv in res:
        infx = [e for e in path.events if callee_is(e, r"Parser::parse_infix$")]
        if infx:
            # only the conjuncts that speak about the binding powers form the loop condition; the others are outcomes of
            # uninterpreted calls made before (parse_prefix succeeded ...)
            absorb.append(conj([c for c in infx[0]["pc_prefix"] if lsym.term in c]))
    if not absorb:
        raise Unsupported("no path of parse_expr_bp reaches parse_infix")
    C = disj(sorted(set(absorb)))

    def absorbed(l, m):
        return C.replace(lsym.term, bvconst(l, 8)).replace(minbp, bvconst(m, 8))
    # 4. the inequalities that encode OR < AND < NOT < comparison < additive < multiplicative < unary sign, left assoc.
    must_absorb = [("AND inside OR's right operand", T["And"][0], T["Or"][1]),
                   ("comparison inside AND's right operand", T["Eq"][0], T["And"][1]),
                   ("comparison inside NOT's operand (NOT a = b is NOT (a = b))", T["Eq"][0], P["Not"]),
                   ("additive inside comparison's right operand", T["Plus"][0], T["Lt"][1]),
                   ("multiplicative inside additive's right operand", T["Star"][0], T["Plus"][1])]
    must_not = [("OR inside AND's right operand", T["Or"][0], T["And"][1]),
                ("AND inside NOT's operand (NOT a AND b is (NOT a) AND b)", T["And"][0], P["Not"]),
                ("OR inside NOT's operand", T["Or"][0], P["Not"]),
                ("AND inside comparison's right operand", T["And"][0], T["Eq"][1]),
                ("additive inside multiplicative's right operand", T["Plus"][0], T["Star"][1]),
                ("additive inside unary minus' operand (-a + b is (-a) + b)", T["Plus"][0], P["Minus"]),
                ("comparison inside unary minus' operand", T["Eq"][0], P["Minus"]),
                ("left associativity of + / -", T["Minus"][0], T["Plus"][1]),
                ("left associativity of AND", T["And"][0], T["And"][1]),
                ("left associativity of OR", T["Or"][0], T["Or"][1])]
    qs = [f"(not {absorbed(l, m)})" for (_, l, m) in must_absorb] + [absorbed(l, m) for (_, l, m) in must_not]
    chk = env.check(ctx, qs + [C])
    bad, inc = [], []
    for (nm, l, m), r in zip(must_absorb + must_not, chk):
        if r["verdict"] == "sat":
            bad.append(nm)
        elif r["verdict"] != "unsat":
            inc.append(r["verdict"])
    kw = dict(paths=len(res), queries=len(qs) + 1, events={"infix": T, "prefix": P})
    if chk[-1]["verdict"] != "sat":
        return result(ob, "inconclusive", reason="vacuity: loop condition unsatisfiable", **kw)
    if bad:
        msgs = ["precedence:" + b.split(" (")[0].replace(" ", "_").replace("'", "") for b in bad]
        return result(ob, "violated", failed=sorted(msgs), cex={"what": bad, "infix": T, "prefix": P}, **kw)
    if inc:
        return result(ob, "inconclusive", reason=inc[0], **kw)
    return result(ob, "discharged", **kw)


# ---------------------------------------------------------------------------------------------------------------------
# C20: the frame reader returns exactly the announced number of bytes or an error
# ---------------------------------------------------------------------------------------------------------------------
def _veclen_models():
    def from_elem(ex, path, frame, callee, args, dest_ty):
        v = Agg(ex.ctx, ex.ctx.fresh("vec"), dest_ty)
        v.veclen = args[1].term if isinstance(args[1], Leaf) else None
        return v

    def new_vec(ex, path, frame, callee, args, dest_ty):
        v = Agg(ex.ctx, ex.ctx.fresh("vec"), dest_ty)
        v.veclen = bvconst(0, 64)
        return v

    def read_to_end(ex, path, frame, callee, args, dest_ty):
        # Result<usize>: on Ok(n) the vector grew by n bytes (n is whatever the reader delivered)
        vec = args[-1].cell.val if isinstance(args[-1], Ref) else None
        out = Agg(ex.ctx, ex.ctx.fresh("read_to_end"), dest_ty)
        n = out.variant_cell("Ok").val.field_cell("0", "usize").val
        if isinstance(vec, Agg) and getattr(vec, "veclen", None) is not None:
            vec.veclen = f"(bvadd {vec.veclen} {n.term})"
        path.events.append({"callee": callee, "args": args, "ret": out, "fn": "", "argdesc": [mirsmt.describe(a) for a in args],
                            "modelled": True, "pc_prefix": list(path.pc)})
        return out

    def keep(ex, path, frame, callee, args, dest_ty):
        # calls that take the Vec / its slice by &mut without changing the length: read_exact, deref_mut, as_mut_slice
        out = ex.ctx.sym(ex.ctx.fresh("ret:" + mirsmt.short(callee)), dest_ty)
        path.events.append({"callee": callee, "args": args, "ret": out, "fn": "", "argdesc": [mirsmt.describe(a) for a in args],
                            "modelled": True, "pc_prefix": list(path.pc)})
        return out
    return {r"^std::vec::from_elem::<u8>$": from_elem, r"^Vec::<u8>::(new|with_capacity)$": new_vec,
            r"::read_to_end$": read_to_end, r"::read_exact$": keep, r"<Vec<u8> as DerefMut>::deref_mut$": keep,
            r"Vec::<u8>::as_mut_slice$": keep}


@obligation(id="C20.framing_exact_length", funcs="read_message",
            bounds="every path of read_message<R>; the reader is abstract (any delivery, any error); Vec length tracked "
                   "through from_elem / new / read_to_end / read_exact / deref_mut, any other &mut use makes it unknown",
            native="c20_truncated_frame")
def c20_framing_exact(env, ob):
    ctx, f, args, res = explore(env, None, "read_message", sig=r"Result<Vec<u8>, TcpError>", models=_veclen_models())
    cands, oks = [], 0
    for path, rv in res:
        if path.cut or path.panics or not isinstance(rv, Agg):
            continue
        if mirsmt.const_of(rv.get_disc().term) != 0:
            continue
        oks += 1
        le = [e for e in path.events if callee_is(e, r"from_le_bytes$") and isinstance(e["ret"], Leaf)]
        if not le:
            return result(ob, "violated", failed=["frame_returned_without_reading_a_length"], cex={"what": "Ok path without length prefix"})
        w = mirsmt.INT_W[le[0]["ret"].ty]
        announced = f"((_ zero_extend {64 - w}) {le[0]['ret'].term})" if w < 64 else le[0]["ret"].term
        vec = rv.variants["Ok"].val.fields["0"].val
        vl = getattr(vec, "veclen", None)
        if vl is None:
            vl = ctx.declare(ctx.fresh("unknown_len"), "usize").term
        cands.append(conj(path.pc + [f"(not (= {vl} {announced}))"]))
    if not oks:
        return result(ob, "inconclusive", reason="vacuity: no Ok path", paths=len(res))
    chk = env.check(ctx, [disj(cands)])
    kw = dict(paths=len(res), queries=1)
    if chk[0]["verdict"] == "unsat":
        return result(ob, "discharged", **kw)
    if chk[0]["verdict"] == "sat":
        return result(ob, "violated", failed=["frame_shorter_or_longer_than_announced"],
                      cex={"what": "read_message can return Ok(buffer) whose length differs from the announced frame length"}, **kw)
    return result(ob, "inconclusive", reason=chk[0]["verdict"], **kw)


# ---------------------------------------------------------------------------------------------------------------------
# C10: the rebalancing plan (Btree::compute_best_cell_distribution) for ALL cell-size sequences of a bounded length
# ---------------------------------------------------------------------------------------------------------------------
SCALAR_LAYOUT = {"u8": (1, 1), "bool": (1, 1), "u16": (2, 2), "i16": (2, 2), "u32": (4, 4), "i32": (4, 4), "f32": (4, 4),
                 "u64": (8, 8), "i64": (8, 8), "usize": (8, 8), "f64": (8, 8), "PageId": (8, 8), "TransactionId": (8, 8),
                 "Option<PageId>": (16, 8), "Option<u64>": (16, 8), "Option<TransactionId>": (16, 8)}


def repr_c_size(env, rel, name):
    """size_of of a `#[repr(C ...)]` struct whose fields are scalars / Option<8-byte scalar>: C layout rule (fields in
    order, each aligned to its own alignment, total rounded up to the struct alignment).  Anything else: Unsupported."""
    txt = strip_comments(env.read(rel))
    m = re.search(r"#\[repr\(C(?:, *align\((\d+)\))?\)\]\s*(?:#\[[^\]]*\]\s*)*pub(?:\([^)]*\))?\s+struct\s+" + re.escape(name) + r"\s*\{", txt)
    if not m:
        raise Unsupported(f"{name}: not a repr(C) struct in {rel}")
    align = int(m.group(1) or 1)
    body = balanced_block(txt, m.end() - 1)
    off = 0
    for part in mirsmt.split_top(body):
        part = re.sub(r"#\[[^\]]*\]", "", part).strip()
        mm = re.match(r"^(?:pub(?:\([^)]*\))?\s+)?(\w+)\s*:\s*(.+)$", part, re.S)
        if not mm:
            continue
        ty = re.sub(r"\s+", "", mm.group(2))
        if ty not in SCALAR_LAYOUT:
            raise Unsupported(f"{name}.{mm.group(1)}: layout of field type {ty} not modelled")
        sz, al = SCALAR_LAYOUT[ty]
        off = (off + al - 1) // al * al + sz
        align = max(align, al)
    return (off + align - 1) // align * align


def _u(v):
    return bvconst(v, 64)


def _container_models(N, cells, sizeof):
    """Call models for the std containers compute_best_cell_distribution uses.  Along one path every length, counter and
    index is a literal (branches fork the path), so a Vec<usize> is a Python list of cells holding SMT terms; only the
    cell sizes (and the sums built from them) are symbolic.  A model that meets a non-literal index gives up."""
    Panic = mirsmt.Panic

    def lit(v, what):
        c = mirsmt.const_of(v.term) if isinstance(v, Leaf) else None
        if c is None or isinstance(c, bool):
            raise Unsupported(f"{what} is not a literal on this path: {v!r}")
        return c

    def deref(a):
        return a.cell.val if isinstance(a, Ref) else a

    def m_vec_from_box(ex, path, frame, callee, args, dest_ty):
        n = int(re.search(r"<usize, (\d+)>", callee).group(1))
        bx = args[0]
        try:
            arr = path.heap[bx.name + ".0.0"].val.fields["1"].val.fields["0"].val.fields["0"].val
            items = [Cell(arr.fields[f"[{i} of {n}]"].val) for i in range(n)]
        except (KeyError, AttributeError):
            raise Unsupported("vec![..] lowering not recognised")
        v = Agg(ex.ctx, None, dest_ty)
        v.items = items
        return v

    def m_len(ex, path, frame, callee, args, dest_ty):
        v = deref(args[0])
        if hasattr(v, "items"):
            return Leaf(_u(len(v.items)), "usize")
        if hasattr(v, "seq"):
            return Leaf(_u(len(v.seq)), "usize")
        return NotImplemented

    def m_index(ex, path, frame, callee, args, dest_ty):
        v = deref(args[0])
        i = lit(args[1], "container index")
        seq = getattr(v, "items", None)
        if seq is not None:
            return Ref(seq[i], True) if i < len(seq) else Panic("index out of bounds")
        seq = getattr(v, "seq", None)
        if seq is not None:
            return Ref(seq[i]) if i < len(seq) else Panic("index out of bounds (Out of bounds access)")
        return NotImplemented

    def m_push(ex, path, frame, callee, args, dest_ty):
        v = deref(args[0])
        if not hasattr(v, "items"):
            return NotImplemented
        v.items.append(Cell(args[1]))
        return Unit()

    def m_deref(ex, path, frame, callee, args, dest_ty):
        return args[0] if isinstance(args[0], Ref) and hasattr(args[0].cell.val, "items") else NotImplemented

    def opt(ex, dest_ty, payload):
        o = Agg(ex.ctx, None, dest_ty)
        o.disc = Leaf(_u(0 if payload is None else 1), "isize")
        if payload is not None:
            some = Agg(ex.ctx, None, "Some")
            some.fields["0"] = Cell(payload)
            o.variants["Some"] = Cell(some)
        return o

    def m_last(ex, path, frame, callee, args, dest_ty):
        v = deref(args[0])
        if not hasattr(v, "items"):
            return NotImplemented
        return opt(ex, dest_ty, Ref(v.items[-1]) if v.items else None)

    def m_unwrap(ex, path, frame, callee, args, dest_ty):
        o = args[0]
        d = mirsmt.const_of(o.get_disc().term) if isinstance(o, Agg) else None
        if d is None:
            return NotImplemented
        return o.variants["Some"].val.fields["0"].val if d == 1 else Panic("called `Option::unwrap()` on a `None` value")

    def arith(ex, path, op, a, b, msg):
        """checked a op b on usize; the overflow case becomes a side condition of the path"""
        t = ex.binop(path, op + "WithOverflow", a, b)
        ovf = t.fields["1"].val.term
        if ovf == "true":
            return Panic(msg)
        if ovf != "false":
            path.side.append((list(path.pc), fold(f"(not {ovf})"), msg))
            path.pc.append(fold(f"(not {ovf})"))
        return t.fields["0"].val

    def m_sub_ref(ex, path, frame, callee, args, dest_ty):      # <usize as Sub<&usize>>::sub(a, &b)
        return arith(ex, path, "Sub", args[0], deref(args[1]), "attempt to subtract with overflow")

    def m_add_assign(ex, path, frame, callee, args, dest_ty):   # <usize as AddAssign<&usize>>::add_assign(&mut a, &b)
        r = arith(ex, path, "Add", args[0].cell.val, deref(args[1]), "attempt to add with overflow")
        if isinstance(r, Panic):
            return r
        args[0].cell.val = r
        return Unit()

    def m_sub_assign(ex, path, frame, callee, args, dest_ty):
        r = arith(ex, path, "Sub", args[0].cell.val, deref(args[1]), "attempt to subtract with overflow")
        if isinstance(r, Panic):
            return r
        args[0].cell.val = r
        return Unit()

    def m_deque_iter(ex, path, frame, callee, args, dest_ty):
        v = deref(args[0])
        if not hasattr(v, "seq"):
            return NotImplemented
        it = Agg(ex.ctx, None, dest_ty)
        it.seq, it.pos = v.seq, 0
        return it

    def m_deque_next(ex, path, frame, callee, args, dest_ty):
        it = deref(args[0])
        if not hasattr(it, "pos"):
            return NotImplemented
        if it.pos < len(it.seq):
            it.pos += 1
            return opt(ex, dest_ty, Ref(it.seq[it.pos - 1]))
        return opt(ex, dest_ty, None)

    def m_range_new(ex, path, frame, callee, args, dest_ty):
        r = Agg(ex.ctx, None, dest_ty)
        r.lo, r.hi = lit(args[0], "range start"), lit(args[1], "range end")
        return r

    def m_ident(ex, path, frame, callee, args, dest_ty):
        return args[0] if hasattr(args[0], "lo") else NotImplemented

    def m_rev_next(ex, path, frame, callee, args, dest_ty):
        r = deref(args[0])
        if not hasattr(r, "lo"):
            return NotImplemented
        if r.lo <= r.hi:
            r.hi -= 1
            return opt(ex, dest_ty, Leaf(_u(r.hi + 1), "usize"))
        return opt(ex, dest_ty, None)

    def m_size_of(ex, path, frame, callee, args, dest_ty):
        t = re.search(r"size_of::<(.*)>$", callee).group(1)
        if t not in sizeof:
            raise Unsupported(f"size_of::<{t}> not modelled")
        return Leaf(_u(sizeof[t]), "usize")

    def m_sat_mul(ex, path, frame, callee, args, dest_ty):
        a, b = args
        wide = f"(bvmul ((_ zero_extend 64) {a.term}) ((_ zero_extend 64) {b.term}))"
        ca, cb = mirsmt.const_of(a.term), mirsmt.const_of(b.term)
        if ca is not None and cb is not None:
            return Leaf(_u(min(ca * cb, (1 << 64) - 1)), "usize")
        return Leaf(f"(ite (= ((_ extract 127 64) {wide}) {_u(0)}) (bvmul {a.term} {b.term}) {_u((1 << 64) - 1)})", "usize")

    def m_div_ceil(ex, path, frame, callee, args, dest_ty):
        a, b = args
        ca, cb = mirsmt.const_of(a.term), mirsmt.const_of(b.term)
        if cb == 0:
            return Panic("attempt to divide by zero")
        if ca is not None and cb is not None:
            return Leaf(_u(-(-ca // cb)), "usize")
        return Leaf(f"(bvadd (bvudiv {a.term} {b.term}) (ite (= (bvurem {a.term} {b.term}) {_u(0)}) {_u(0)} {_u(1)}))", "usize")
    def m_sat_sub(ex, path, frame, callee, args, dest_ty):
        a, b = args
        ca, cb = mirsmt.const_of(a.term), mirsmt.const_of(b.term)
        if ca is not None and cb is not None:
            return Leaf(_u(max(ca - cb, 0)), "usize")
        return Leaf(f"(ite (bvult {a.term} {b.term}) {_u(0)} (bvsub {a.term} {b.term}))", "usize")

    def m_ord_min(ex, path, frame, callee, args, dest_ty):
        a, b = args
        ca, cb = mirsmt.const_of(a.term), mirsmt.const_of(b.term)
        if ca is not None and cb is not None:
            return Leaf(_u(min(ca, cb)), "usize")
        return Leaf(f"(ite (bvult {a.term} {b.term}) {a.term} {b.term})", "usize")
    return {r"<impl usize>::saturating_sub$": m_sat_sub, r"^<usize as Ord>::min$": m_ord_min,
            r"box_assume_init_into_vec_unsafe::<usize, \d+>$": m_vec_from_box,
            r"^Vec::<usize>::len$|^VecDeque::<OwnedCell>::len$": m_len,
            r"^<Vec<usize> as Index(Mut)?<usize>>::index(_mut)?$|^<VecDeque<OwnedCell> as Index<usize>>::index$": m_index,
            r"^Vec::<usize>::push$": m_push, r"^<Vec<usize> as Deref>::deref$": m_deref,
            r"^core::slice::<impl \[usize\]>::last$": m_last, r"^Option::<&usize>::unwrap$": m_unwrap,
            r"^<usize as Sub<&usize>>::sub$": m_sub_ref, r"^<usize as AddAssign<&usize>>::add_assign$": m_add_assign,
            r"^<usize as SubAssign<&usize>>::sub_assign$": m_sub_assign,
            r"^<&VecDeque<OwnedCell> as IntoIterator>::into_iter$": m_deque_iter,
            r"vec_deque::Iter<'_, OwnedCell> as Iterator>::next$": m_deque_next,
            r"RangeInclusive::<usize>::new$": m_range_new, r"RangeInclusive<usize> as Iterator>::rev$": m_ident,
            r"^<Rev<std::ops::RangeInclusive<usize>> as IntoIterator>::into_iter$": m_ident,
            r"^<Rev<std::ops::RangeInclusive<usize>> as Iterator>::next$": m_rev_next,
            r"^std::mem::size_of::<.*>$": m_size_of, r"<impl usize>::saturating_mul$": m_sat_mul,
            r"<impl usize>::div_ceil$": m_div_ceil}


BUF = "storage/core/buffer.rs"
CELLRS = "storage/cell.rs"


def _balance_plan(env, ob, N, page_size, min_keys):
    H = repr_c_size(env, CELLRS, "CellHeader")
    PH = repr_c_size(env, "storage/page.rs", "BtreePageHeader")
    sizeof = {"M": PH, "u16": 2, "u64": 8, "CellHeader": H}
    ctx = mirsmt.Ctx()
    seq = [Cell(Agg(ctx, f"cell{i}", "storage::cell::OwnedCell")) for i in range(N)]
    dq = Agg(ctx, None, "VecDeque<OwnedCell>")
    dq.seq = seq
    inline = {r"^OwnedCell::storage_size$": (CELLRS, "storage_size", r"&OwnedCell\) -> usize"),
              r"^OwnedCell::total_size$": (CELLRS, "total_size", r"&OwnedCell\) -> usize"),
              r"BtreeOps>::overflow_threshold$": (BUF, "overflow_threshold", None),
              r"BtreeOps>::underflow_threshold$": (BUF, "underflow_threshold", None),
              r"^MemBlock::<M>::usable_space$": (BUF, "usable_space", None),
              r"BtreeOps>::max_payload_size_in$|^Self::max_payload_size_in$|::max_payload_size_in$": (BUF, "max_payload_size_in", None)}
    f = env.mir.find("tree/bplustree.rs", "compute_best_cell_distribution")
    mdl = dict(COMMON_MODELS)
    mdl.update(_container_models(N, seq, sizeof))
    ex = mirsmt.Executor(env.mir, ctx, inline=inline, models=mdl, loop_bound=N + 2, max_paths=200000)
    # the named constant CELL_HEADER_SIZE is size_of::<CellHeader>() (read from its definition in the dump)
    hname = ex.named_const(type("C", (), {"const_text": "storage::cell::CELL_HEADER_SIZE"})(), "usize").term
    # --- precondition: what Btree::insert / CellBuilder let into a page (payload padded to 8, at most the ideal maximum)
    hi = env.struct_fields(CELLRS, "OwnedCell").index("header")
    si = env.struct_fields(CELLRS, "CellHeader").index("size")
    usable = page_size - PH
    # largest padded payload a stored cell can have: the real BtreeOps::ideal_max_payload_size(page_size, min_keys),
    # executed from its MIR with the same models, plus the 8-byte overflow page id an overflow cell carries
    fi = env.mir.find(BUF, "ideal_max_payload_size")
    exi = mirsmt.Executor(env.mir, ctx, inline=inline, models=mdl, loop_bound=2)
    exi.const_values = {"CELL_HEADER_SIZE": H, "CELL_ALIGNMENT": env.const_value("common/mod.rs", "CELL_ALIGNMENT")}
    ri = [rv for p_, rv in exi.run(fi, [Leaf(_u(page_size), "usize"), Leaf(_u(min_keys), "usize")]) if not p_.panics and not p_.cut]
    ideal = mirsmt.const_of(ri[0].term) if len(ri) == 1 and isinstance(ri[0], Leaf) else None
    if ideal is None:
        raise Unsupported("ideal_max_payload_size did not evaluate to a literal for this page size / min_keys")
    maxp = ideal + 8
    A = [f"(= {hname} {_u(H)})"]
    szs = []
    for i in range(N):
        sym = seq[i].val.field_cell(str(hi), "storage::cell::CellHeader").val.field_cell(str(si), "u64").val.term
        A += [f"(bvuge {sym} {_u(8)})", f"(bvule {sym} {_u(maxp)})", f"(= (bvand {sym} {_u(7)}) {_u(0)})"]
        szs.append(sym)
    online = OnlineZ3(ctx, A)
    ex.prune = online
    try:
        res = ex.run(f, [Ref(Cell(dq)), Leaf(_u(page_size), "usize")])
    finally:
        online.close()
    env.queries += online.n
    env.solver_s += online.t
    store = [f"(bvadd {s_} {_u(H + 2)})" for s_ in szs]
    pre = conj(A)
    queries, meta = [], []
    n_ok = 0
    for path, rv in res:
        pc = conj(path.pc)
        if path.cut:
            queries.append(conj([pre, pc])); meta.append(("cut", path.cut, path))
            continue
        for (prefix, cond, msg) in path.side:
            queries.append(conj([pre] + prefix + [f"(not {cond})"])); meta.append(("panic", msg, path))
        if path.panics:
            queries.append(conj([pre, pc])); meta.append(("panic", path.panics, path))
            continue
        counts = [mirsmt.const_of(c.val.term) for c in rv.fields["1"].val.items]
        if any(c is None for c in counts):
            raise Unsupported("a page count of the plan is not a literal")
        n_ok += 1
        bad = None
        if sum(counts) != N:
            bad = "plan_distributes_every_cell_exactly_once"
        elif any(c < 1 for c in counts):
            bad = "plan_has_no_empty_page"
        if bad:
            queries.append(conj([pre, pc])); meta.append(("law", bad, path, counts))
            continue
        k = 0
        for c in counts:
            real = store[k] if c == 1 else "(bvadd " + " ".join(store[k:k + c]) + ")"
            k += c
            queries.append(conj([pre, pc, f"(bvugt {real} {_u(usable)})"]))
            meta.append(("law", "cells_planned_for_a_page_fit_in_the_page", path, counts))
    badp = cvc5_all_unsat(env, ctx, [conj([pre] + pcx) for pcx in ex.pruned])
    # vacuity witness: some complete path is feasible under the precondition
    wit = disj([conj(p.pc) for p, rv in res if not p.cut and not p.panics])
    w = env.check(ctx, [conj([pre, wit])])[0]
    fails, incon = {}, []
    if badp:
        incon.append("cvc5 does not confirm a branch z3 ruled out during exploration: " + badp[0])
    if w["verdict"] != "sat":
        incon.append("vacuity: no feasible complete path (" + w["verdict"] + ")")
    # the expected answer to every query is unsat: ask for whole batches at once (one disjunction per batch) and bisect
    # only the batches that come back sat
    n_q = [1]

    def bisect(idx):
        if not idx:
            return
        r = env.check(ctx, [disj([queries[i] for i in idx])], want_values=szs if len(idx) == 1 else None)[0]
        n_q[0] += 1
        if r["verdict"] == "unsat":
            return
        if r["verdict"] != "sat":
            incon.append(r["verdict"])
            return
        if len(idx) > 1:
            # only one witness per violated law is needed: drop the indices whose law is already reported
            mid = len(idx) // 2
            bisect(idx[:mid])
            bisect([i for i in idx[mid:] if key_of(meta[i]) not in fails or meta[i][0] in ("cut", "pruned")])
            return
        m_ = meta[idx[0]]
        if m_[0] == "cut":
            incon.append("feasible path cut: " + m_[1])
            return
        if m_[0] == "pruned":
            incon.append("solvers disagree on a branch pruned during exploration")
            return
        key = key_of(m_)
        if key not in fails:
            sizes = [r["model"].get(s_) for s_ in szs] if r.get("model") else None
            fails[key] = {"sizes": sizes, "detail": m_[1], "counts": m_[3] if len(m_) > 3 else None}

    def key_of(m_):
        return "plan_panics" if m_[0] == "panic" else m_[1]
    B = 8
    for i in range(0, len(queries), B):
        bisect(list(range(i, min(i + B, len(queries)))))
    kw = dict(paths=len(res), queries=n_q[0] + len(ex.pruned) + online.n, conditions=len(queries), pruned=len(ex.pruned))
    return fails, incon, kw, dict(H=H, PH=PH, ideal=ideal, maxp=maxp, usable=usable, ok_paths=n_ok)


def gen_balance_native(name, cases, page_size):
    body = []
    for k, (sizes, law) in enumerate(cases):
        body.append(f"""
#[test]
fn plan_{k}() {{
    // violated law reported by the solver: {law}
    let sizes: [usize; {len(sizes)}] = {sizes!r};
    let mut cells: VecDeque<OwnedCell> = VecDeque::new();
    for s in sizes {{
        let mut c = OwnedCell::new(&[0u8; 8]);
        *c.metadata_mut() = CellHeader::new(s, s, false);
        cells.push_back(c);
    }}
    let (_t, counts) = Btree::<BtreeWriteAccessor>::compute_best_cell_distribution(&cells, {page_size});
    assert_eq!(counts.iter().sum::<usize>(), sizes.len(), "plan_distributes_every_cell_exactly_once: {{counts:?}}");
    assert!(counts.iter().all(|c| *c >= 1), "plan_has_no_empty_page: {{counts:?}}");
    let mut k = 0;
    for c in &counts {{
        let real: usize = cells.iter().skip(k).take(*c).map(|c| c.storage_size()).sum();
        assert!(real <= BtreePage::usable_space({page_size}), "cells_planned_for_a_page_fit_in_the_page: {{counts:?}} page holds {{real}}");
        k += c;
    }}
}}""")
    return ("// host: tree/bplustree.rs\n// generated from solver models (engine M, C10.balance_plan): the real planner on the concrete cell sizes\n"
            "use super::*;\nuse crate::storage::cell::{CellHeader, OwnedCell};\n" + "\n".join(body) + "\n")


def run_balance_plan(env, ob, Ns, page_size=4096, min_keys=3):
    allf, incon, paths, queries, info = {}, [], 0, 0, {}
    for N in Ns:
        fails, inc, kw, inf = _balance_plan(env, ob, N, page_size, min_keys)
        paths += kw["paths"]; queries += kw["queries"]; info[N] = inf
        incon += [f"N={N}: {x}" for x in inc]
        for k, v in fails.items():
            allf.setdefault(k, dict(v, N=N))
    kw = dict(paths=paths, queries=queries, events=info)
    if allf:
        r = result(ob, "violated", failed=sorted(allf), cex={"cases": allf}, **kw)
        cases = [(v["sizes"], k) for k, v in sorted(allf.items()) if v.get("sizes") and None not in v["sizes"]]
        if cases:
            nm = "c10_balance_plan_" + re.sub(r"\W+", "_", ob["id"]).strip("_").lower()
            r["native_code"] = {"name": nm, "code": gen_balance_native(nm, cases, page_size)}
        return r
    if incon:
        return result(ob, "inconclusive", reason="; ".join(sorted(set(incon)))[:300], **kw)
    return result(ob, "discharged", **kw)


BP_FUNCS = ("Btree::compute_best_cell_distribution,OwnedCell::storage_size,OwnedCell::total_size,BtreeOps::overflow_threshold,"
            "BtreeOps::underflow_threshold,MemBlock::usable_space")
BP_ASSUME = ("cell payload sizes: multiples of 8 in [8, ideal_max_payload_size(page, min_keys)] (what CellBuilder stores in a "
             "page); size_of of the two repr(C) headers computed from their field lists; std containers replaced by models "
             "(Vec<usize> / VecDeque / RangeInclusive.rev(): literal lengths and indices along each path)")


@obligation(id="C10.balance_plan[2..6 cells]", funcs=BP_FUNCS, assume=BP_ASSUME,
            bounds="page 4096, min_keys 3, every sequence of 2..6 cells with ANY admissible sizes; every path of the planner")
def c10_balance_plan_q(env, ob):
    return run_balance_plan(env, ob, [2, 3, 4, 5, 6])


@obligation(id="C10.balance_plan[7 cells]", tier="thorough", funcs=BP_FUNCS, assume=BP_ASSUME,
            bounds="page 4096, min_keys 3, every sequence of 7 cells with ANY admissible sizes (three pages)")
def c10_balance_plan_t(env, ob):
    return run_balance_plan(env, ob, [7])


@obligation(id="C10.balance_plan[8 cells]", tier="off", funcs=BP_FUNCS, assume=BP_ASSUME,
            bounds="page 4096, min_keys 3, every sequence of 8 cells with ANY admissible sizes (three pages with room to spare)")
def c10_balance_plan_t8(env, ob):
    return run_balance_plan(env, ob, [8])


# =====================================================================================================================
# driver interface
# =====================================================================================================================
def registry():
    return OBLS


def select(prop, tier, only=None):
    out = []
    for o in OBLS:
        if prop not in o["props"]:
            continue
        if tier_rank(o["tier"]) > tier_rank(tier):
            continue
        if only and not re.search(only, o["id"]):
            continue
        out.append(o)
    return out


def dump_mir(scratch):
    out = os.path.join(scratch.dir, "axmos.mir")
    if os.path.exists(out) and os.path.getsize(out) > 1000:
        return out, 0.0, ""
    crate = scratch.crate
    libf = os.path.join(crate, "src", "lib.rs")
    os.utime(libf, None)
    env = base_env()
    cmd = ["cargo", "+nightly", "rustc", "--offline", "--lib", "--target-dir", os.path.join(scratch.dir, "target-mir"),
           "--", "-Zunpretty=mir", "-C", "debug-assertions=off", "-C", "overflow-checks=on"]
    t0 = time.time()
    p = subprocess.run(cmd, cwd=crate, env=env, capture_output=True, text=True)
    if p.returncode != 0 or len(p.stdout) < 1000:
        return None, time.time() - t0, (p.stderr or "")[-2000:]
    open(out, "w").write(p.stdout)
    return out, time.time() - t0, ""


def run_obligations(scratch, obls, tier):
    mirpath, secs, err = dump_mir(scratch)
    meta = {"cmd": "cargo +nightly rustc --lib -- -Zunpretty=mir -C overflow-checks=on (scratch copy) ; z3 -in ; cvc5 --incremental",
            "mir_dump_s": round(secs, 1)}
    if mirpath is None:
        meta["build_error"] = err
        return [result(o, "inconclusive", reason="MIR dump failed", build_failed=True) for o in obls], meta
    return run_on_mir(mirpath, os.path.join(scratch.crate, "src"), obls, meta)


def run_on_mir(mirpath, srcdir, obls, meta=None):
    meta = meta if meta is not None else {}
    env = Env(mirpath, srcdir)
    meta["mir_lines"] = len(env.mir.lines)
    out = []
    for o in obls:
        q0, s0 = env.queries, env.solver_s
        t0 = time.time()
        try:
            r = o["run"](env, o)
        except Unsupported as e:
            r = result(o, "inconclusive", reason="unsupported MIR construct / lookup: " + str(e)[:300])
        except Exception as e:  # noqa
            r = result(o, "inconclusive", reason="engine error: " + repr(e)[:200] + " @ " + traceback.format_exc().splitlines()[-3].strip()[:120])
        r["queries"] = env.queries - q0
        r["solver_s"] = round(env.solver_s - s0, 3)
        r["duration_s"] = round(time.time() - t0, 2)
        out.append(r)
    meta["queries"] = env.queries
    meta["solver_s"] = round(env.solver_s, 2)
    return out, meta


# ---- native replay of M counterexamples ------------------------------------------------------------------------------
def native_test_path(name):
    return os.path.join(NATIVE_DIR, name + ".rs")


def replay(scratch, cands, prop):
    """Each M obligation names a native scenario test (harness/native/<name>.rs, `// host: <src file>`): a test that
    drives the real code (public API or the kernel itself with the counterexample's values) and FAILS iff the defect
    shows.  The test is injected under cfg(test) into the scratch copy and run with the repo's own toolchain."""
    out = {}
    names = sorted({c.get("native") for c in cands if c.get("native") and not c.get("native_code")})
    gen = {c["native_code"]["name"]: c["native_code"]["code"] for c in cands if c.get("native_code")}
    res = run_native(scratch, names, gen) if (names or gen) else {}
    for c in cands:
        n = c["native_code"]["name"] if c.get("native_code") else c.get("native")
        if not n:
            out[c["id"]] = {"reproduced": False, "replay": None, "panic": "no native scenario registered for this obligation"}
            continue
        r = res.get(n, {})
        path = None
        if r.get("failed"):
            d = os.path.join(REPLAY_DIR, prop)
            os.makedirs(d, exist_ok=True)
            path = os.path.join(d, n + ".mreplay")
            with open(path, "w") as f:
                json.dump({"obligation": c["id"], "native_test": n, "generated_code": (c.get("native_code") or {}).get("code"),
                           "failed": c.get("failed"), "cex": c.get("cex"),
                           "panic": r.get("panic"), "rerun": "/verif/bin/check --replay " + path}, f, indent=1, default=str)
        out[c["id"]] = {"reproduced": bool(r.get("failed")), "replay": path, "panic": r.get("panic", r.get("log", "")[-300:])}
    return out


def run_native(scratch, names, generated=None):
    """names: registered scenarios (harness/native/<n>.rs); generated: {name: source text} produced from a solver model"""
    inj = {}
    generated = generated or {}
    names = list(names) + [g for g in generated if g not in names]
    for n in names:
        if n in generated:
            txt = generated[n]
            p = os.path.join(scratch.dir, "gen_" + n + ".rs")
            open(p, "w").write(txt)
        else:
            p = native_test_path(n)
            txt = open(p).read()
        host = re.search(r"// host: (\S+)", txt).group(1)
        vdir = os.path.join(scratch.crate, "src", "__verif")
        os.makedirs(vdir, exist_ok=True)
        dst = os.path.join(vdir, "native_" + n + ".rs")
        shutil.copyfile(p, dst)
        with open(os.path.join(scratch.crate, "src", host), "a") as f:
            f.write(f'\n#[cfg(test)] #[path = "{dst}"] mod __verif_native_{n};\n')
        inj[n] = host
    env = base_env()
    env["CARGO_TARGET_DIR"] = os.path.join(scratch.dir, "target-native")
    env["RUST_BACKTRACE"] = "0"
    cmd = ["cargo", "test", "--offline", "--lib", "-p", "axmosdb", "__verif_native_", "--", "--test-threads", "2"]
    rc, txt, wall = run(cmd, cwd=scratch.src, env=env, timeout=1800)
    out = {}
    for n in names:
        failed = re.findall(r"^test (\S*__verif_native_" + re.escape(n) + r"\S*) \.\.\. FAILED", txt, re.M)
        ok = re.findall(r"^test (\S*__verif_native_" + re.escape(n) + r"\S*) \.\.\. ok", txt, re.M)
        panic = ""
        m = re.search(r"---- \S*__verif_native_" + re.escape(n) + r"\S* stdout ----\n(.*?)(?=\n----|\nfailures:)", txt, re.S)
        if m:
            panic = " | ".join(m.group(1).strip().splitlines()[:3])
        out[n] = {"failed": bool(failed), "ok": bool(ok), "panic": panic, "log": "" if (failed or ok) else txt[-1500:]}
    return out


def replay_file(path):
    d = json.load(open(path))
    sc = Scratch("mreplay")
    try:
        gen = {d["native_test"]: d["generated_code"]} if d.get("generated_code") else None
        r = run_native(sc, [] if gen else [d["native_test"]], gen)[d["native_test"]]
        if r["failed"]:
            print("REPLAY: native scenario still fails on the current tree:", r["panic"])
            return 1
        if r["ok"]:
            print("REPLAY: native scenario passes on the current tree")
            return 0
        print(r["log"])
        return 2
    finally:
        sc.cleanup()


if __name__ == "__main__":
    # dev entry: python3 -m axv.mir_engine <mir file> <crate src dir> [regex]
    mirp, src = sys.argv[1], sys.argv[2]
    rx = sys.argv[3] if len(sys.argv) > 3 else "."
    obls = [o for o in OBLS if re.search(rx, o["id"])]
    res, meta = run_on_mir(mirp, src, obls)
    for r in res:
        print(f"{r['status']:13} {r['id']:55} paths={r.get('paths')} q={r.get('queries')} {r.get('duration_s')}s  {r.get('failed') or ''} {r.get('reason') or ''}")
        if r.get("cex"):
            print("      cex:", json.dumps(r["cex"], default=str)[:600])
    print(meta)
