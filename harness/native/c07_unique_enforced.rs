// host: lib.rs
// Native scenario for the C07 unique obligations: duplicates of live keys are rejected; keys of deleted, rolled-back or
// changed-away rows are free; an UPDATE that keeps its own key is accepted.
use crate::{DBConfig, Database};

#[test]
fn unique_decisions_follow_visibility() {
    let dir = tempfile::TempDir::new().unwrap();
    let db = Database::create(dir.path().join("t.db"), DBConfig::default()).unwrap();
    db.execute("CREATE TABLE t (id BIGINT, code BIGINT, pad BIGINT, v BIGINT)").unwrap();
    db.execute("CREATE UNIQUE INDEX idx_code ON t(code)").unwrap();
    db.execute("INSERT INTO t VALUES (1, 100, 0, 0)").unwrap();
    db.execute("INSERT INTO t VALUES (2, 200, 0, 0)").unwrap();
    assert!(db.execute("INSERT INTO t VALUES (3, 100, 0, 0)").is_err(), "duplicate of a live key accepted");
    // rolled-back insert leaves the key free
    {
        let mut s = db.session().unwrap();
        s.execute("INSERT INTO t VALUES (4, 400, 0, 0)").unwrap();
        s.abort_transaction().unwrap();
        std::mem::forget(s);
    }
    assert!(db.execute("INSERT INTO t VALUES (5, 400, 0, 0)").is_ok(), "key of a rolled-back INSERT is not free");
    // deleted row leaves the key free
    db.execute("DELETE FROM t WHERE id = 2").unwrap();
    let r6 = db.execute("INSERT INTO t VALUES (6, 200, 0, 0)"); assert!(r6.is_ok(), "key of a deleted row is not free: {:?}", r6.err());
    // an update that does not touch the key is not a conflict with itself (v is not adjacent to the indexed column:
    // see the known finding C06.index_entry_follows_update)
    let r7 = db.execute("UPDATE t SET v = 7 WHERE id = 1"); assert!(r7.is_ok(), "UPDATE conflicts with its own row: {:?}", r7.err());
    assert!(db.execute("INSERT INTO t VALUES (9, 400, 0, 0)").is_err(), "duplicate of a re-used key accepted");
}

#[test]
fn unique_holds_whatever_the_other_columns_contain() {
    let dir = tempfile::TempDir::new().unwrap();
    let db = Database::create(dir.path().join("t.db"), DBConfig::default()).unwrap();
    db.execute("CREATE TABLE a (id BIGINT, email TEXT, nick TEXT, UNIQUE(email))").unwrap();
    db.execute("INSERT INTO a VALUES (1, 'a@x.org', 'al')").unwrap();
    assert!(db.execute("INSERT INTO a VALUES (2, 'a@x.org', NULL)").is_err(), "duplicate key accepted because an unrelated column is NULL");
    assert!(db.execute("INSERT INTO a (id, email) VALUES (3, 'a@x.org')").is_err(), "duplicate key accepted because an unrelated column is omitted");
    db.execute("INSERT INTO a VALUES (4, 'b@x.org', NULL)").unwrap();
}

#[test]
fn key_deleted_and_reinserted_in_one_transaction_stays_taken() {
    let dir = tempfile::TempDir::new().unwrap();
    let db = Database::create(dir.path().join("t.db"), DBConfig::default()).unwrap();
    db.execute("CREATE TABLE u (id BIGINT, name TEXT, UNIQUE(name))").unwrap();
    db.execute("INSERT INTO u VALUES (1, 'k')").unwrap();
    {
        let mut s = db.session().unwrap();
        s.execute("DELETE FROM u WHERE id = 1").unwrap();
        s.execute("INSERT INTO u VALUES (2, 'k')").unwrap();
        s.commit_transaction().unwrap();
        std::mem::forget(s);
    }
    assert!(db.execute("INSERT INTO u VALUES (3, 'k')").is_err(), "key re-inserted by the deleting transaction is free again");
}

#[test]
fn key_of_a_row_whose_delete_was_rolled_back_stays_taken() {
    let dir = tempfile::TempDir::new().unwrap();
    let db = Database::create(dir.path().join("t.db"), DBConfig::default()).unwrap();
    db.execute("CREATE TABLE r (id BIGINT, name TEXT, UNIQUE(name))").unwrap();
    db.execute("INSERT INTO r VALUES (1, 'k')").unwrap();
    db.execute("INSERT INTO r VALUES (2, 'm')").unwrap();
    {
        let mut s = db.session().unwrap();
        s.execute("DELETE FROM r WHERE id = 1").unwrap();
        s.abort_transaction().unwrap();
        std::mem::forget(s);
    }
    // the DELETE never happened: the row is there and its key is taken
    assert!(db.execute("INSERT INTO r VALUES (3, 'k')").is_err(), "key of a row whose DELETE was rolled back is free");
    assert!(db.execute("UPDATE r SET name = 'k' WHERE id = 2").is_err(), "UPDATE to the key of a row whose DELETE was rolled back accepted");
    let n = db.execute("SELECT id FROM r WHERE name = 'k'").unwrap().into_rows().unwrap().len();
    assert_eq!(n, 1, "rows with the unique key after the rolled-back DELETE");
}
