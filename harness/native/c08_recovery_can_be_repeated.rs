// host: lib.rs
// Native scenario for the C08 obligations: the log is replayed over a data file that already contains what it describes
// (crash inside a checkpoint: pages and header written, log not yet emptied) - open succeeds, the contents are the
// acknowledged ones, and a second open changes nothing.
use crate::{DBConfig, Database};
use std::path::{Path, PathBuf};

fn ids(db: &Database) -> Vec<i64> {
    let rows = db.execute("SELECT id FROM t").unwrap().into_rows().unwrap();
    let mut v: Vec<i64> = rows.iterrows().map(|r| r[0].as_big_int().unwrap().value()).collect();
    v.sort();
    v
}

fn wal_of(p: &Path) -> PathBuf {
    p.parent().unwrap().join("axmos.log")
}

#[test]
fn log_replayed_over_an_up_to_date_data_file() {
    let dir = tempfile::TempDir::new().unwrap();
    let path = dir.path().join("t.db");
    let db = Database::create(&path, DBConfig::default()).unwrap();
    db.execute("CREATE TABLE t (id BIGINT, v INT)").unwrap();
    db.execute("INSERT INTO t VALUES (1, 10)").unwrap();
    db.flush().unwrap();
    for i in 2..7 {
        db.execute(&format!("INSERT INTO t VALUES ({}, {})", i, i * 10)).unwrap();
    }
    let expected: Vec<i64> = (1..7).collect();
    assert_eq!(ids(&db), expected);
    // the log as a crash inside the coming checkpoint leaves it ...
    let image_dir = tempfile::TempDir::new().unwrap();
    let image = image_dir.path().join("t.db");
    db.pager().write().flush_wal().unwrap();
    std::fs::copy(wal_of(&path), wal_of(&image)).unwrap();
    // ... and the data file as the checkpoint wrote it
    db.flush().unwrap();
    std::fs::copy(&path, &image).unwrap();
    let r = Database::open(&image, DBConfig::default());
    assert!(r.is_ok(), "open fails when the log is replayed over a data file that already has the rows: {:?}", r.err().map(|e| e.to_string()));
    let rec = r.unwrap();
    assert_eq!(ids(&rec), expected, "contents after recovery");
    rec.execute("INSERT INTO t VALUES (7, 70)").unwrap();
    drop(rec);
    let again = Database::open(&image, DBConfig::default()).expect("second open");
    assert_eq!(ids(&again), (1..8).collect::<Vec<i64>>(), "a second open changes the contents");
    drop(again);
    drop(db);
}
