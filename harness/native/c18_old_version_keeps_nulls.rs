// host: storage/tuple.rs
// Native scenario for C18.delta_records_all_null_flags: a column that was NULL in the old version and is NOT touched by
// the update must still decode as NULL when a reader steps back to the old version.
use super::*;
use crate::schema::{Column, Schema};
use crate::types::{DataType, DataTypeKind, Int64};
use std::collections::{HashMap, HashSet};

#[test]
fn old_version_of_untouched_null_column_is_null() {
    let schema = Schema::new_table(vec![
        Column::new_with_defaults(DataTypeKind::BigInt, "id"),
        Column::new_with_defaults(DataTypeKind::BigInt, "a"),
        Column::new_with_defaults(DataTypeKind::BigInt, "b"),
    ]);
    // version 0 written by transaction 1: a = NULL, b = 7
    let row = Row::new(Box::new([DataType::BigInt(Int64(1)), DataType::Null, DataType::BigInt(Int64(7))]));
    let mut tuple = TupleBuilder::from_schema(&schema).build(&row, 1).unwrap();
    // transaction 9 updates b only (value index 1)
    let mut m = HashMap::new();
    m.insert(1usize, DataType::BigInt(Int64(8)));
    tuple.add_version_with(&m, 9, &schema).unwrap();
    // stamp the newest version with the updater (the pinned tree forgets to: known finding C03.update_stamp) so that a
    // reader that cannot see transaction 9 has to fall back to version 0
    let hdr = TupleHeader::new(tuple.version(), 9, None);
    let mut bytes = tuple.effective_data().to_vec();
    hdr.write_to(&mut bytes, 0);
    // reader 5: transaction 1 committed, transaction 9 not yet started
    let snap = Snapshot::new(5, 5, Some(1), HashSet::new(), HashSet::new());
    let reader = TupleReader::from_schema(&schema);
    let layout = reader.parse_for_snapshot(&bytes, &snap).unwrap().expect("version 0 must be visible to reader 5");
    let r = TupleRef::new(&bytes, layout);
    let old = r.to_row_with(&schema).expect("old version must decode");
    assert!(matches!(old[1], DataType::Null), "column a was NULL in version 0 but decodes as {:?}", old[1]);
    assert!(matches!(old[2], DataType::BigInt(Int64(7))), "column b of version 0 decodes as {:?}", old[2]);
}
