// replay for obligation C19.eq_implies_hash_eq[Float,Float/zero] (harness c19_eqhash_float_float_zero)
// harness-file: c19_types.rs
// failed: eq_implies_hash_eq
// native outcome when recorded: playback build failed
// re-run: /verif/bin/check --replay /verif/replays/C19/c19_eqhash_float_float_zero.rs
#[test]
fn kani_concrete_playback_c19_eqhash_float_float_zero_5050685244065076730() {
    let concrete_vals: Vec<Vec<u8>> = vec![
        // 0
        vec![0, 0, 0, 0],
        // 0
        vec![0, 0, 0, 0],
    ];
    kani::concrete_playback_run(concrete_vals, c19_eqhash_float_float_zero);
}

#[test]
fn kani_concrete_playback_c19_eqhash_float_float_zero_8471651020482697368() {
    let concrete_vals: Vec<Vec<u8>> = vec![
        // 0
        vec![0, 0, 0, 0],
        // -0
        vec![0, 0, 0, 128],
    ];
    kani::concrete_playback_run(concrete_vals, c19_eqhash_float_float_zero);
}

