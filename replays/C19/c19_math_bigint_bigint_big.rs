// replay for obligation C19.cmp_matches_math[BigInt,BigInt/big] (harness c19_math_bigint_bigint_big)
// harness-file: c19_types.rs
// failed: cmp_matches_math
// native outcome when recorded: playback build failed
// re-run: /verif/bin/check --replay /verif/replays/C19/c19_math_bigint_bigint_big.rs
#[test]
fn kani_concrete_playback_c19_math_bigint_bigint_big_11163806978204599469() {
    let concrete_vals: Vec<Vec<u8>> = vec![
        // 405323966463344672
        vec![32, 0, 0, 0, 0, 0, 160, 5],
        // 405323966463344608
        vec![224, 255, 255, 255, 255, 255, 159, 5],
    ];
    kani::concrete_playback_run(concrete_vals, c19_math_bigint_bigint_big);
}

#[test]
fn kani_concrete_playback_c19_math_bigint_bigint_big_15676705859808992665() {
    let concrete_vals: Vec<Vec<u8>> = vec![
        // 0
        vec![0, 0, 0, 0, 0, 0, 0, 0],
        // -4611686018427387902
        vec![2, 0, 0, 0, 0, 0, 0, 192],
    ];
    kani::concrete_playback_run(concrete_vals, c19_math_bigint_bigint_big);
}

