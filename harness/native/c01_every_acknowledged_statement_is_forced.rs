// host: lib.rs
// Native scenario for C01.commit_order: EVERY kind of acknowledged autocommit statement is on disk when it returns - a
// crash image taken right after it (no later statement, no checkpoint) recovers it.  DDL reports no affected rows, a
// SELECT neither: the force must not depend on what the statement reports.
use crate::{DBConfig, Database};

fn crash_image(dir: &std::path::Path) -> tempfile::TempDir {
    let img = tempfile::TempDir::new().unwrap();
    std::fs::copy(dir.join("test.db"), img.path().join("test.db")).unwrap();
    std::fs::copy(dir.join("axmos.log"), img.path().join("axmos.log")).unwrap();
    img
}

#[test]
fn table_created_by_the_last_statement_before_the_crash_exists() {
    let dir = tempfile::TempDir::new().unwrap();
    let db = Database::create(dir.path().join("test.db"), DBConfig::default()).unwrap();
    db.execute("CREATE TABLE orders (id BIGINT, v INT)").unwrap();
    let img = crash_image(dir.path());
    let re = Database::open(img.path().join("test.db"), DBConfig::default()).expect("open after the crash");
    let r = re.execute("SELECT id FROM orders");
    assert!(r.is_ok(), "table created by an acknowledged CREATE TABLE is gone after the crash: {:?}", r.err().map(|e| e.to_string()));
    drop(re);
    // and a row written by the last statement before the crash
    db.execute("INSERT INTO orders VALUES (1, 10)").unwrap();
    let img = crash_image(dir.path());
    let re = Database::open(img.path().join("test.db"), DBConfig::default()).expect("open after the second crash");
    let n = re.execute("SELECT id FROM orders").unwrap().into_rows().unwrap().len();
    assert_eq!(n, 1, "row written by the last acknowledged INSERT is gone after the crash");
    std::mem::forget(db);
}
