// host: lib.rs
// Native scenario for C01.finished_transaction_logs_no_abort: a session is dropped (the normal end of its life) after
// its COMMIT returned; the process dies later; the committed rows are there after reopening.  Also: an explicit
// ROLLBACK issued after COMMIT does not take the commit back.
use crate::{DBConfig, Database};
use std::path::{Path, PathBuf};

fn wal_of(p: &Path) -> PathBuf {
    p.parent().unwrap().join("axmos.log")
}
fn ids(db: &Database) -> Vec<i64> {
    let rows = db.execute("SELECT id FROM t").unwrap().into_rows().unwrap();
    let mut v: Vec<i64> = rows.iterrows().map(|r| r[0].as_big_int().unwrap().value()).collect();
    v.sort();
    v
}

#[test]
fn commit_survives_the_drop_of_its_session_and_a_crash() {
    let dir = tempfile::TempDir::new().unwrap();
    let path = dir.path().join("t.db");
    let db = Database::create(&path, DBConfig::default()).unwrap();
    db.execute("CREATE TABLE t (id BIGINT, v INT)").unwrap();
    db.flush().unwrap();
    {
        let mut s = db.session().unwrap();
        s.execute("INSERT INTO t VALUES (1, 10)").unwrap();
        s.execute("INSERT INTO t VALUES (2, 20)").unwrap();
        s.commit_transaction().unwrap();
    } // session dropped after its COMMIT returned
    {
        let mut s = db.session().unwrap();
        s.execute("INSERT INTO t VALUES (3, 30)").unwrap();
        s.commit_transaction().unwrap();
        s.abort_transaction().unwrap(); // ROLLBACK after COMMIT: nothing left to roll back
    }
    db.execute("INSERT INTO t VALUES (4, 40)").unwrap();
    assert_eq!(ids(&db), vec![1, 2, 3, 4], "live database");
    let img = tempfile::TempDir::new().unwrap();
    let ipath = img.path().join("t.db");
    std::fs::copy(&path, &ipath).unwrap();
    std::fs::copy(wal_of(&path), wal_of(&ipath)).unwrap();
    let rec = Database::open(&ipath, DBConfig::default()).expect("open after the crash");
    assert_eq!(ids(&rec), vec![1, 2, 3, 4], "acknowledged commits of dropped sessions are lost after a crash");
}
