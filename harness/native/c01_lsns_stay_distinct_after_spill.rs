// host: io/wal.rs
// Native scenario for C17.push_step[...] law last_lsn_is_the_lsn_just_appended (also C01): the pager numbers the next
// record last_lsn()+1, so last_lsn() must follow every append - also once records land beyond block zero.
use super::*;
use crate::storage::wal::{OwnedRecord, RecordType};

fn rec(lsn: u64, payload: usize) -> OwnedRecord {
    let redo = vec![7u8; payload];
    OwnedRecord::new(lsn, 1, None, Some(1), Some(lsn), RecordType::Insert, &[], &redo)
}

#[test]
fn last_lsn_follows_appends_beyond_block_zero() {
    let dir = tempfile::tempdir().unwrap();
    let path = dir.path().join("w.log");
    let mut wal = WriteAheadLog::create(&path).unwrap();
    let big = wal.max_record_size() * 2 / 3;
    let mut next = 0u64;
    for _ in 0..6 {
        // what Pager::push_to_log does
        let lsn = wal.last_lsn().map(|l| l + 1).unwrap_or(0);
        assert_eq!(lsn, next, "the log hands out an LSN twice once records spill out of block zero");
        wal.push(rec(lsn, big)).unwrap();
        next += 1;
    }
    std::mem::forget(wal);
}
