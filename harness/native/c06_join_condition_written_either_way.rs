// host: lib.rs
// Native scenario for C06.join_keys_are_oriented: `ON a.id = b.aid` and `ON b.aid = a.id` are the same join, whichever
// table comes first and whichever join algorithm the cost model picks; an equality between two columns of the same
// input is a filter, not a key.
use crate::{DBConfig, Database};

fn pairs(db: &Database, q: &str) -> Vec<(Option<i64>, Option<i64>)> {
    let rows = db.execute(q).unwrap_or_else(|e| panic!("`{q}` failed: {e}")).into_rows().unwrap();
    let get = |d: &crate::types::DataType| if matches!(d, crate::types::DataType::Null) { None } else { d.to_f64().map(|x| x as i64) };
    let mut out: Vec<(Option<i64>, Option<i64>)> = rows.iterrows().map(|r| (get(&r[0]), get(&r[1]))).collect();
    out.sort();
    out
}

#[test]
fn equi_join_condition_can_be_written_either_way_round() {
    let dir = tempfile::TempDir::new().unwrap();
    let db = Database::create(dir.path().join("t.db"), DBConfig::default()).unwrap();
    db.execute("CREATE TABLE a (id BIGINT, x BIGINT)").unwrap();
    db.execute("CREATE TABLE b (bid BIGINT, aid BIGINT, y BIGINT)").unwrap();
    db.execute("INSERT INTO a VALUES (1, 10), (2, 20), (3, 30), (4, 4)").unwrap();
    db.execute("INSERT INTO b VALUES (100, 1, 7), (101, 1, 8), (102, 3, 9), (1, 50, 0), (3, 2, 5), (4, 4, 4)").unwrap();
    let inner = vec![(Some(1), Some(100)), (Some(1), Some(101)), (Some(2), Some(3)), (Some(3), Some(102)), (Some(4), Some(4))];
    for q in ["SELECT a.id, b.bid FROM a JOIN b ON a.id = b.aid", "SELECT a.id, b.bid FROM a JOIN b ON b.aid = a.id",
              "SELECT a.id, b.bid FROM b JOIN a ON a.id = b.aid", "SELECT a.id, b.bid FROM b JOIN a ON b.aid = a.id"] {
        assert_eq!(pairs(&db, q), inner, "{q}");
    }
    db.execute("INSERT INTO a VALUES (9, 90)").unwrap();
    let mut left = inner.clone();
    left.push((Some(9), None));
    assert_eq!(pairs(&db, "SELECT a.id, b.bid FROM a LEFT JOIN b ON b.aid = a.id"), left, "LEFT JOIN, condition names the right table first");
    assert_eq!(pairs(&db, "SELECT a.id, b.bid FROM a LEFT JOIN b ON a.id = b.aid"), left, "LEFT JOIN");
    // two keys, one of them reversed
    assert_eq!(pairs(&db, "SELECT a.id, b.bid FROM a JOIN b ON b.aid = a.id AND a.x = b.y"), vec![(Some(4), Some(4))], "two keys, first reversed");
    // an equality inside one input is a filter
    assert_eq!(pairs(&db, "SELECT a.id, b.bid FROM a JOIN b ON a.id = b.aid AND a.id = a.x"), vec![(Some(4), Some(4))], "same-side equality");
}
