// host: lib.rs
// Native scenario for C05.dml_counts_every_addressed_row: UPDATE and DELETE report how many rows the statement addressed,
// also when some of them already hold the assigned values.
use crate::{DBConfig, Database};

#[test]
fn update_and_delete_report_the_rows_they_address() {
    let dir = tempfile::TempDir::new().unwrap();
    let db = Database::create(dir.path().join("t.db"), DBConfig::default()).unwrap();
    db.execute("CREATE TABLE o (id BIGINT, status TEXT, qty INT)").unwrap();
    db.execute("INSERT INTO o VALUES (1, 'new', 5)").unwrap();
    db.execute("INSERT INTO o VALUES (2, 'done', 7)").unwrap();
    db.execute("INSERT INTO o VALUES (3, 'new', NULL)").unwrap();
    let n = db.execute("UPDATE o SET status = 'done'").unwrap().rows_affected();
    assert_eq!(n, Some(3), "UPDATE addressing 3 rows (one already holds the value)");
    let n = db.execute("UPDATE o SET status = 'done'").unwrap().rows_affected();
    assert_eq!(n, Some(3), "the same UPDATE again");
    let n = db.execute("UPDATE o SET qty = NULL WHERE id = 3").unwrap().rows_affected();
    assert_eq!(n, Some(1), "UPDATE of a NULL to NULL");
    let n = db.execute("DELETE FROM o WHERE qty = 7").unwrap().rows_affected();
    assert_eq!(n, Some(1), "DELETE of one row");
    let n = db.execute("DELETE FROM o WHERE qty = 7").unwrap().rows_affected();
    assert_eq!(n, Some(0), "DELETE of nothing");
}
