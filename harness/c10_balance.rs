// Kani harnesses (child module of crates/axmos-db/src/tree/bplustree.rs).  See /verif/HARNESS_GUIDE.md
// C10 -- the rebalancing plan.  `Btree::balance` gathers the cells of a node and its siblings, asks
// `compute_best_cell_distribution(&cells, page_size)` how many cells go to each sibling page and then pushes the cells
// page by page following the answer.  The answer depends only on the byte sizes of the cells, in order; the property's
// own text says where tests cannot reach: "rebalancing depends on byte sizes of neighbouring cells, so the failing cases
// are size/order combinations".  Here the sizes are symbolic.
//
// The function reads a cell only through `OwnedCell::storage_size()` = CELL_HEADER_SIZE + header.size + slot, a header
// field: every cell is allocated with an 8-byte payload and its *header* is then overwritten with a symbolic size
// (public API: `metadata_mut`, `CellHeader::new`), so no allocation has a symbolic size.
// @limits jobs=8 mem_gb=48
#![allow(unused_imports, dead_code, unused_variables, unused_mut, clippy::all)]
use super::*;
use crate::storage::cell::{CELL_HEADER_SIZE, CellHeader, OwnedCell};

const C10B_PS: usize = 4096;
const C10B_SLOT: usize = std::mem::size_of::<crate::storage::cell::Slot>();

pub(crate) fn c10b_stub_format(_a: std::fmt::Arguments<'_>) -> String {
    String::new()
}

/// largest stored payload `Btree::insert` lets into a page of this size with `min_keys` cells per page
/// (CellBuilder spills anything larger to an overflow chain): max_payload_size_in(usable / min_keys)
fn c10b_max_payload(min_keys: usize) -> usize {
    BtreePage::ideal_max_payload_size(C10B_PS, min_keys)
}

fn c10b_cell(size: usize) -> OwnedCell {
    let mut c = OwnedCell::new(&[0u8; 8]);
    *c.metadata_mut() = CellHeader::new(size, size, false);
    c
}

/// symbolic padded payload size of a cell a tree with `min_keys` can hold: multiple of the cell alignment, 8..=max
fn c10b_any_size(max: usize) -> usize {
    let k: usize = kani::any();
    kani::assume(k >= 1 && k <= max / 8);
    k.wrapping_mul(8)
}

/// Runs the real planner on `N` cells of symbolic sizes and checks the plan against what `balance` does with it.
fn c10b_plan<const N: usize>(min_keys: usize) {
    let max = c10b_max_payload(min_keys);
    let mut sizes = [0usize; N];
    let mut cells: VecDeque<OwnedCell> = VecDeque::with_capacity(N);
    let mut i = 0;
    while i < N {
        sizes[i] = c10b_any_size(max);
        cells.push_back(c10b_cell(sizes[i]));
        i += 1;
    }
    kani::cover!(true, "reach");
    let (_totals, counts) = Btree::<BtreeWriteAccessor>::compute_best_cell_distribution(&cells, C10B_PS);
    // (1) the plan is a partition of the cells, in order, into non-empty pages
    let mut sum = 0usize;
    let mut nonempty = true;
    let mut fits = true;
    let mut within_threshold = true;
    let capacity = BtreePage::usable_space(C10B_PS);
    let threshold = BtreePage::overflow_threshold(C10B_PS);
    let mut p = 0;
    let mut next = 0usize;
    while p < counts.len() {
        let c = counts[p];
        nonempty &= c >= 1;
        // (2) what really lands in page p when `balance` pushes `c` cells starting at `next`
        let mut real = 0usize;
        let mut k = 0;
        while k < c && next < N {
            real = real.wrapping_add(CELL_HEADER_SIZE + sizes[next] + C10B_SLOT);
            next += 1;
            k += 1;
        }
        fits &= real <= capacity;
        within_threshold &= real <= threshold;
        sum = sum.wrapping_add(c);
        p += 1;
    }
    assert!(sum == N, "plan_distributes_every_cell_exactly_once");
    assert!(nonempty, "plan_has_no_empty_page");
    assert!(fits, "cells_planned_for_a_page_fit_in_the_page");
    assert!(within_threshold, "cells_planned_for_a_page_stay_within_the_overflow_threshold");
    std::mem::forget(cells);
    std::mem::forget(counts);
    std::mem::forget(_totals);
}

macro_rules! c10b_h {
    ($name:ident, $n:expr, $mk:expr, $unw:expr) => {
        #[kani::proof]
        #[kani::unwind($unw)]
        #[kani::stub(std::fmt::format, c10b_stub_format)]
        fn $name() {
            c10b_plan::<$n>($mk);
        }
    };
}

// @obl harness=c10b_plan_3 id=C10.balance_plan[3cells/min_keys=3] tier=off funcs="Btree::compute_best_cell_distribution,BtreeOps::overflow_threshold,BtreeOps::underflow_threshold" bounds="page 4096, 3 cells, every padded payload size 8..=max for min_keys 3 (multiples of 8)" stubs="std::fmt::format"
c10b_h!(c10b_plan_3, 3, 3, 6);
// @obl harness=c10b_plan_4 id=C10.balance_plan[4cells/min_keys=3] tier=off funcs="Btree::compute_best_cell_distribution,BtreeOps::overflow_threshold,BtreeOps::underflow_threshold" bounds="page 4096, 4 cells, every padded payload size 8..=max for min_keys 3" stubs="std::fmt::format"
c10b_h!(c10b_plan_4, 4, 3, 7);
// @obl harness=c10b_plan_5 id=C10.balance_plan[5cells/min_keys=3] tier=off funcs="Btree::compute_best_cell_distribution,BtreeOps::overflow_threshold,BtreeOps::underflow_threshold" bounds="page 4096, 5 cells, every padded payload size 8..=max for min_keys 3" stubs="std::fmt::format"
c10b_h!(c10b_plan_5, 5, 3, 8);
// @obl harness=c10b_plan_6 id=C10.balance_plan[6cells/min_keys=3] tier=off funcs="Btree::compute_best_cell_distribution,BtreeOps::overflow_threshold,BtreeOps::underflow_threshold" bounds="page 4096, 6 cells (three pages possible), every padded payload size 8..=max for min_keys 3" stubs="std::fmt::format"
c10b_h!(c10b_plan_6, 6, 3, 9);
