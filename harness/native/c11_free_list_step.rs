// host: io/pager.rs
// Native scenario for the C11 free-list obligations (alloc_step / dealloc_step / released_node_is_a_free_page): drives the
// real Pager: pages released in any order are handed out again, oldest first, before the file grows - also when they
// are no longer resident in the cache; head and tail recorded in page zero always describe the walked list; a released
// interior node (right child set) ends the list; page zero cannot be released.
use super::*;
use crate::storage::page::{BtreePage, OverflowPage};
use crate::{DBConfig, DEFAULT_BTREE_MIN_KEYS, DEFAULT_BTREE_NUM_SIBLINGS_PER_SIDE, DEFAULT_PAGE_SIZE, default_num_workers};

fn walk(pager: &mut Pager) -> Vec<PageId> {
    let mut pages = Vec::new();
    let mut cur = pager.header_unchecked().first_free_page;
    while let Some(id) = cur {
        assert!(!pages.contains(&id), "free list is cyclic at page {id}");
        assert!(pages.len() < 64, "free list runs away: {pages:?}");
        pages.push(id);
        cur = pager.with_page::<OverflowPage, _, _>(id, |p| p.next()).unwrap();
    }
    assert_eq!(pages.last().copied(), pager.header_unchecked().last_free_page, "recorded tail is not the last page of the list");
    pages
}

#[test]
fn free_list_steps() {
    let dir = tempfile::tempdir().unwrap();
    let path = dir.path().join("c11.db");
    let cfg = DBConfig::new(DEFAULT_PAGE_SIZE, 16, default_num_workers(), DEFAULT_BTREE_MIN_KEYS, DEFAULT_BTREE_NUM_SIBLINGS_PER_SIDE);
    let mut pager = Pager::from_config(cfg, &path).unwrap();
    let ids: Vec<PageId> = (0..8).map(|_| pager.allocate_page::<BtreePage>().unwrap()).collect();
    assert!(pager.dealloc_page::<BtreePage>(PAGE_ZERO).is_err(), "page zero was released");
    assert!(walk(&mut pager).is_empty());
    // an interior node: its right child must not survive as the free page's successor
    pager.with_page_mut::<BtreePage, _, _>(ids[6], |p| p.metadata_mut().right_child = Some(ids[0])).unwrap();
    let freed = vec![ids[1], ids[4], ids[3], ids[6]];
    for (k, id) in freed.iter().enumerate() {
        pager.dealloc_page::<BtreePage>(*id).unwrap();
        assert_eq!(walk(&mut pager), freed[..=k].to_vec(), "after releasing {id}");
    }
    pager.flush().unwrap(); // checkpoint: the free pages leave the cache
    let total = pager.total_allocated_pages();
    for (k, expected) in freed.iter().enumerate() {
        let id = pager.allocate_page::<BtreePage>().unwrap();
        assert_eq!(id, *expected, "allocation did not take the head of the free list");
        assert_eq!(pager.total_allocated_pages(), total, "file grew although the free list was not empty");
        assert_eq!(walk(&mut pager), freed[k + 1..].to_vec(), "after reusing {id}");
        let (slots, rc) = pager.with_page::<BtreePage, _, _>(id, |p| (p.metadata().num_slots, p.metadata().right_child)).unwrap();
        assert!(slots == 0 && rc.is_none(), "reused page is not an empty node");
    }
    let fresh = pager.allocate_page::<BtreePage>().unwrap();
    assert_eq!(u64::from(fresh), total, "with an empty free list the file grows by one page");
}
