// replay for obligation C05.binop[Eq,Neq,Lt,Le,Gt,Ge][BigInt,BigInt/big] (harness c05_cmp_bigint_big)
// harness-file: c05_eval.rs
// failed: eq_matches_math
// native outcome when recorded: panicked: thread 'runtime::eval::__verif_c05_eval::kani_concrete_playback_c05_cmp_bigint_big_1892770939779112720' (29115) panicked at /var/tmp/axv-c05-c4oe8d76/src/crates/axmos-db/src/__verif/c05_eval.rs:233:5: | eq_matches_math
// re-run: /verif/bin/check --replay /verif/replays/C05/c05_cmp_bigint_big.rs
#[test]
fn kani_concrete_playback_c05_cmp_bigint_big_13031967181641073099() {
    let concrete_vals: Vec<Vec<u8>> = vec![
        // -9223372036854775808
        vec![0, 0, 0, 0, 0, 0, 0, 128],
        // -9223372036854775808
        vec![0, 0, 0, 0, 0, 0, 0, 128],
    ];
    kani::concrete_playback_run(concrete_vals, c05_cmp_bigint_big);
}

#[test]
fn kani_concrete_playback_c05_cmp_bigint_big_1892770939779112720() {
    let concrete_vals: Vec<Vec<u8>> = vec![
        // -40532396646334468
        vec![252, 255, 255, 255, 255, 255, 111, 255],
        // -40532396646334464
        vec![0, 0, 0, 0, 0, 0, 112, 255],
    ];
    kani::concrete_playback_run(concrete_vals, c05_cmp_bigint_big);
}

