// host: lib.rs
// Native scenario for C13.remove_decision: a row whose DELETE was rolled back must still be there after VACUUM.
use crate::{DBConfig, Database};

fn count(db: &Database) -> i64 {
    let r = db.execute("SELECT COUNT(*) FROM t").unwrap();
    r.into_rows().unwrap().first().unwrap()[0].as_big_int().unwrap().value()
}

#[test]
fn vacuum_keeps_row_whose_delete_rolled_back() {
    let dir = tempfile::TempDir::new().unwrap();
    let db = Database::create(dir.path().join("t.db"), DBConfig::default()).unwrap();
    db.execute("CREATE TABLE t (id BIGINT, v INT)").unwrap();
    db.execute("INSERT INTO t VALUES (1, 10)").unwrap();
    db.execute("INSERT INTO t VALUES (2, 20)").unwrap();
    {
        let mut s = db.session().unwrap();
        s.execute("DELETE FROM t WHERE id = 1").unwrap();
        s.abort_transaction().unwrap();
        std::mem::forget(s);
    }
    assert_eq!(count(&db), 2, "precondition: rolled-back delete is invisible before vacuum");
    db.vacuum().unwrap();
    assert_eq!(count(&db), 2, "VACUUM removed a row whose DELETE had been rolled back");
}
