// host: lib.rs
// Native scenario for C06.index_scan_is_exhaustive: an upper bound on the SECOND column of a composite index (values
// not monotone along the index) selects the same rows through the index as through a table scan.
use crate::{DBConfig, Database};

fn ids(db: &Database, sql: &str) -> Vec<i64> {
    let mut v: Vec<i64> = db.execute(sql).unwrap().into_rows().unwrap().iterrows().map(|r| r[0].as_big_int().unwrap().value()).collect();
    v.sort();
    v
}

#[test]
fn bound_on_second_index_column_loses_no_rows() {
    let dir = tempfile::TempDir::new().unwrap();
    let db = Database::create(dir.path().join("t.db"), DBConfig::default()).unwrap();
    db.execute("CREATE TABLE t (id BIGINT, a INT, b INT, c TEXT)").unwrap();
    db.execute("CREATE UNIQUE INDEX idx_t_ba ON t (b, a)").unwrap();
    let a_vals: [i64; 12] = [50, 3, 40, 7, 30, 11, 20, 15, 10, 19, 5, 2];
    let mut data = Vec::new();
    for (i, a) in a_vals.iter().enumerate() {
        let id = i as i64;
        let b = (id - 3) * 10;
        db.execute(&format!("INSERT INTO t VALUES ({}, {}, {}, 'r{}')", id, a, b, id)).unwrap();
        data.push((id, *a, b));
    }
    assert!(db.explain("SELECT id FROM t WHERE a < 26").unwrap().contains("IndexScan"), "scenario no longer uses the index");
    let mut want: Vec<i64> = data.iter().filter(|(_, a, _)| *a < 26).map(|(id, _, _)| *id).collect();
    want.sort();
    assert_eq!(ids(&db, "SELECT id FROM t WHERE a + 0 < 26"), want, "table scan vs reference");
    assert_eq!(ids(&db, "SELECT id FROM t WHERE a < 26"), want, "index scan loses rows");
    let mut want2: Vec<i64> = data.iter().filter(|(_, a, b)| *b >= 0 && *a < 26).map(|(id, _, _)| *id).collect();
    want2.sort();
    assert_eq!(ids(&db, "SELECT id FROM t WHERE b >= 0 AND a < 26"), want2, "index scan with two bounds loses rows");
}

#[test]
fn equality_on_part_of_a_composite_key_returns_every_match() {
    let dir = tempfile::TempDir::new().unwrap();
    let db = Database::create(dir.path().join("t.db"), DBConfig::default()).unwrap();
    db.execute("CREATE TABLE s (id BIGINT, room INT, seat INT)").unwrap();
    db.execute("CREATE UNIQUE INDEX idx_s ON s (room, seat)").unwrap();
    let mut id = 0;
    for room in 1..=4 {
        for seat in 1..=5 {
            id += 1;
            db.execute(&format!("INSERT INTO s VALUES ({id}, {room}, {seat})")).unwrap();
        }
    }
    assert_eq!(ids(&db, "SELECT id FROM s WHERE room = 3").len(), 5, "equality on the leading key column loses rows");
    assert_eq!(ids(&db, "SELECT id FROM s WHERE seat = 2").len(), 4, "equality on the second key column loses rows");
    assert_eq!(ids(&db, "SELECT id FROM s WHERE room >= 3 AND room <= 3").len(), 5, "closed range on the leading key column loses rows");
}
