// replay for obligation C19.cast_value[Double->BigInt] (harness c19_cast_double_bigint)
// harness-file: c19_types.rs
// failed: cast_is_truncation
// native outcome when recorded: playback build failed
// re-run: /verif/bin/check --replay /verif/replays/C19/c19_cast_double_bigint.rs
#[test]
fn kani_concrete_playback_c19_cast_double_bigint_11382590807280574576() {
    let concrete_vals: Vec<Vec<u8>> = vec![
        // 0
        vec![0, 0, 0, 0, 0, 0, 0, 0],
    ];
    kani::concrete_playback_run(concrete_vals, c19_cast_double_bigint);
}

#[test]
fn kani_concrete_playback_c19_cast_double_bigint_14226352797416545615() {
    let concrete_vals: Vec<Vec<u8>> = vec![
        // 9.223372e+18
        vec![0, 0, 0, 0, 0, 0, 224, 67],
    ];
    kani::concrete_playback_run(concrete_vals, c19_cast_double_bigint);
}

