// host: tcp/mod.rs
// Native scenario for C20.framing_exact_length: a frame cut short in the middle of its body is an error, never a
// shorter message.
use super::*;

#[test]
fn truncated_frame_is_rejected() {
    // announces 1000 bytes, delivers 2 (which on their own decode as a valid request)
    let mut wire: Vec<u8> = Vec::new();
    wire.extend_from_slice(&1000u32.to_le_bytes());
    wire.extend_from_slice(&[PROTOCOL_VERSION, 0xFF]);
    let mut rd: &[u8] = &wire[..];
    match read_message(&mut rd) {
        Ok(m) => panic!("truncated frame returned as a {}-byte message", m.len()),
        Err(_) => {}
    }
    // and a complete frame still works
    let mut ok: Vec<u8> = Vec::new();
    write_message(&mut ok, &[PROTOCOL_VERSION, 0x07]).unwrap();
    let mut rd: &[u8] = &ok[..];
    assert_eq!(read_message(&mut rd).unwrap(), vec![PROTOCOL_VERSION, 0x07]);
}
