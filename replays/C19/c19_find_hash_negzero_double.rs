// replay for obligation C19.eq_implies_hash_eq[Double,Double/-0.0] (harness c19_find_hash_negzero_double)
// harness-file: c19_types.rs
// failed: eq_implies_hash_eq
// native outcome when recorded: panicked: thread 'types::__verif_c19_types::kani_concrete_playback_c19_find_hash_negzero_double_3076847326499894595' (14023) panicked at /var/tmp/axv-c19-6fdwgloi/src/crates/axmos-db/src/__verif/c19_types.rs:413:1: | eq_implies_hash_eq | note: run with `RUST_BACKTRACE=1` environment variable to display a backtrace
// re-run: /verif/bin/check --replay /verif/replays/C19/c19_find_hash_negzero_double.rs
#[test]
fn kani_concrete_playback_c19_find_hash_negzero_double_15433674710516950460() {
    let concrete_vals: Vec<Vec<u8>> = vec![
        // -0
        vec![0, 0, 0, 0, 0, 0, 0, 128],
        // -0
        vec![0, 0, 0, 0, 0, 0, 0, 128],
    ];
    kani::concrete_playback_run(concrete_vals, c19_find_hash_negzero_double);
}

#[test]
fn kani_concrete_playback_c19_find_hash_negzero_double_3076847326499894595() {
    let concrete_vals: Vec<Vec<u8>> = vec![
        // -0
        vec![0, 0, 0, 0, 0, 0, 0, 128],
        // 0
        vec![0, 0, 0, 0, 0, 0, 0, 0],
    ];
    kani::concrete_playback_run(concrete_vals, c19_find_hash_negzero_double);
}

