// host: lib.rs
// Native scenario for C01.checkpoint_order: the on-disk image right after a checkpoint (flush / vacuum) reopens and
// still contains every acknowledged commit.
use crate::{DBConfig, Database};

fn crash_image(dir: &std::path::Path) -> tempfile::TempDir {
    let img = tempfile::TempDir::new().unwrap();
    std::fs::copy(dir.join("test.db"), img.path().join("test.db")).unwrap();
    std::fs::copy(dir.join("axmos.log"), img.path().join("axmos.log")).unwrap();
    img
}

fn count(db: &Database) -> i64 {
    db.execute("SELECT COUNT(*) FROM t").unwrap().into_rows().unwrap().first().unwrap()[0].as_big_int().unwrap().value()
}

#[test]
fn image_right_after_checkpoint_reopens() {
    let dir = tempfile::TempDir::new().unwrap();
    let db = Database::create(dir.path().join("test.db"), DBConfig::default()).unwrap();
    db.execute("CREATE TABLE t (id BIGINT, v INT)").unwrap();
    for i in 0..9 {
        db.execute(&format!("INSERT INTO t VALUES ({}, {})", i, i)).unwrap();
    }
    db.flush().unwrap();
    let img = crash_image(dir.path());
    let re = Database::open(img.path().join("test.db"), DBConfig::default());
    assert!(re.is_ok(), "database does not reopen from the image taken right after a checkpoint: {:?}", re.err());
    assert_eq!(count(&re.unwrap()), 9, "commits acknowledged before the checkpoint are missing");
    std::mem::forget(db);
}
