// Kani harnesses for C19 (values compare, hash, cast and round-trip consistently).
// Injected as a child module of crates/axmos-db/src/types/mod.rs (sees private items).
// Every `// @obl` line is parsed by /verif/bin/check: it is the registry of obligations.
#![allow(unused_imports, dead_code, clippy::all)]
use super::*;
use crate::types::core::{DeserializableType, SerializableType};
use std::cmp::Ordering;
use std::hash::{Hash, Hasher};

// ---------------------------------------------------------------------------------------------
// A transparent Hasher: records the stream of hashed words/bytes so that "hash(a) == hash(b)"
// becomes "same stream" (no SipHash in the query; a real Hasher is a function of the stream).
// ---------------------------------------------------------------------------------------------
pub(crate) struct RecHasher {
    pub words: [u64; 4],
    pub nw: usize,
    pub acc0: u128, // first 16 bytes written through write()
    pub acc1: u128, // next 16 bytes
    pub nb: usize,
}
impl RecHasher {
    pub fn new() -> Self {
        RecHasher { words: [0; 4], nw: 0, acc0: 0, acc1: 0, nb: 0 }
    }
    pub fn same(&self, o: &Self) -> bool {
        self.nw == o.nw
            && self.nb == o.nb
            && self.words[0] == o.words[0]
            && self.words[1] == o.words[1]
            && self.words[2] == o.words[2]
            && self.words[3] == o.words[3]
            && self.acc0 == o.acc0
            && self.acc1 == o.acc1
    }
}
impl Hasher for RecHasher {
    fn finish(&self) -> u64 {
        0
    }
    fn write(&mut self, b: &[u8]) {
        let mut i = 0;
        while i < b.len() {
            if self.nb < 16 {
                self.acc0 = (self.acc0 << 8) | b[i] as u128;
            } else if self.nb < 32 {
                self.acc1 = (self.acc1 << 8) | b[i] as u128;
            }
            self.nb += 1;
            i += 1;
        }
    }
    fn write_u8(&mut self, v: u8) {
        if self.nw < 4 {
            self.words[self.nw] = 0x100 | v as u64;
        }
        self.nw += 1;
    }
    fn write_u64(&mut self, v: u64) {
        if self.nw < 4 {
            self.words[self.nw] = v;
        }
        self.nw += 1;
    }
    fn write_usize(&mut self, v: usize) {
        if self.nw < 4 {
            self.words[self.nw] = v as u64 ^ 0xabcd_0000_0000_0000;
        }
        self.nw += 1;
    }
}
pub(crate) fn hstream(d: &DataType) -> RecHasher {
    let mut h = RecHasher::new();
    d.hash(&mut h);
    h
}

/// Result -> Option without running the error's drop glue (drop glue of io::Error / dyn Error explodes in CBMC).
pub(crate) fn okf<T, E>(r: Result<T, E>) -> Option<T> {
    match r {
        Ok(v) => Some(v),
        Err(e) => {
            std::mem::forget(e);
            None
        }
    }
}
// ---------------------------------------------------------------------------------------------
// Symbolic values of each kind
// ---------------------------------------------------------------------------------------------
pub(crate) fn v_bool() -> DataType {
    DataType::Bool(crate::types::bool::Bool(kani::any()))
}
pub(crate) fn v_int() -> DataType {
    DataType::Int(Int32(kani::any()))
}
pub(crate) fn v_bigint() -> DataType {
    DataType::BigInt(Int64(kani::any()))
}
pub(crate) fn v_uint() -> DataType {
    DataType::UInt(UInt32(kani::any()))
}
pub(crate) fn v_biguint() -> DataType {
    DataType::BigUInt(UInt64(kani::any()))
}
pub(crate) fn v_float() -> DataType {
    DataType::Float(Float32(kani::any()))
}
pub(crate) fn v_double() -> DataType {
    DataType::Double(Float64(kani::any()))
}
/// Blob with N symbolic data bytes (N < 64: the zig-zag varint length prefix is the single byte 2*N).
/// Built directly from its encoded bytes (no Vec growth: much cheaper for CBMC); `c19_blob_ctor` checks that
/// `Blob::from_unencoded_slice` produces exactly this encoding.
pub(crate) fn v_blob<const N: usize>() -> DataType {
    DataType::Blob(raw_blob::<N>(kani::any()))
}
pub(crate) fn raw_blob<const N: usize>(d: [u8; N]) -> Blob {
    let mut v: Vec<u8> = Vec::with_capacity(N + 1);
    v.push((2 * N) as u8);
    let mut i = 0;
    while i < N {
        v.push(d[i]);
        i += 1;
    }
    Blob::from(v.into_boxed_slice())
}

pub(crate) const P53: i128 = 1i128 << 53;

/// Exact mathematical value of a numeric DataType: Ok(int) or Err(float)
pub(crate) fn mathval(d: &DataType) -> Result<i128, f64> {
    match d {
        DataType::Int(v) => Ok(v.0 as i128),
        DataType::BigInt(v) => Ok(v.0 as i128),
        DataType::UInt(v) => Ok(v.0 as i128),
        DataType::BigUInt(v) => Ok(v.0 as i128),
        DataType::Float(v) => Err(v.0 as f64), // f32 -> f64 is exact
        DataType::Double(v) => Err(v.0),
        _ => unreachable!(),
    }
}
fn int_in_53(d: &DataType) -> bool {
    match mathval(d) {
        Ok(n) => n >= -P53 && n <= P53,
        Err(_) => true,
    }
}
/// exact comparison of an integer with a double (None = unordered)
fn cmp_int_f64(n: i128, x: f64) -> Option<Ordering> {
    if x.is_nan() {
        return None;
    }
    if x >= 18446744073709551616.0 {
        return Some(Ordering::Less);
    }
    if x <= -18446744073709551616.0 {
        return Some(Ordering::Greater);
    }
    let t = x.trunc();
    let ti = t as i128; // exact: |t| < 2^64
    if n < ti {
        Some(Ordering::Less)
    } else if n > ti {
        Some(Ordering::Greater)
    } else if x > t {
        Some(Ordering::Less)
    } else if x < t {
        Some(Ordering::Greater)
    } else {
        Some(Ordering::Equal)
    }
}
pub(crate) fn mathcmp(a: &DataType, b: &DataType) -> Option<Ordering> {
    match (mathval(a), mathval(b)) {
        (Ok(x), Ok(y)) => Some(x.cmp(&y)),
        (Err(x), Err(y)) => x.partial_cmp(&y),
        (Ok(n), Err(x)) => cmp_int_f64(n, x),
        (Err(x), Ok(n)) => cmp_int_f64(n, x).map(|o| o.reverse()),
    }
}
fn is_nan(d: &DataType) -> bool {
    match d {
        DataType::Float(v) => v.0.is_nan(),
        DataType::Double(v) => v.0.is_nan(),
        _ => false,
    }
}
/// -0.0 (the only float that is == to a differently-hashed value)
fn is_neg_zero(d: &DataType) -> bool {
    match d {
        DataType::Float(v) => v.0 == 0.0 && v.0.is_sign_negative(),
        DataType::Double(v) => v.0 == 0.0 && v.0.is_sign_negative(),
        _ => false,
    }
}


// ---------------------------------------------------------------------------------------------
// Laws.  Every assert carries a message: known findings are keyed by (obligation id, message).
// ---------------------------------------------------------------------------------------------
fn law_refl(a: &DataType) {
    assert!(a == a, "eq_reflexive");
    assert!(hstream(a).same(&hstream(a)), "hash_deterministic");
}
/// all binary laws for one pair of values
fn law_pair(a: &DataType, b: &DataType) {
    let ab = a == b;
    let c = a.partial_cmp(b);
    // symmetry / antisymmetry
    assert!(ab == (b == a), "eq_symmetric");
    assert!(c == b.partial_cmp(a).map(|o| o.reverse()), "ord_antisymmetric");
    // Ord consistent with Eq and with the derived operators
    assert!((c == Some(Ordering::Equal)) == ab, "ord_consistent_with_eq");
    assert!((a < b) == (c == Some(Ordering::Less)), "lt_consistent");
    assert!((a > b) == (c == Some(Ordering::Greater)), "gt_consistent");
    assert!((a <= b) == (c == Some(Ordering::Less) || c == Some(Ordering::Equal)), "le_consistent");
    // Eq agrees with Hash
    if ab {
        assert!(hstream(a).same(&hstream(b)), "eq_implies_hash_eq");
    }
    // numeric comparison agrees with the mathematical value
    if a.is_numeric() && b.is_numeric() {
        let m = mathcmp(a, b);
        assert!(c == m, "cmp_matches_math");
        assert!(ab == (m == Some(Ordering::Equal)), "eq_matches_math");
    }
    // total order within a type (NaN excluded by the caller's region)
    if a.kind() == b.kind() && !a.is_null() {
        assert!(c.is_some(), "ord_total");
    }
}
fn law_trans(a: &DataType, b: &DataType, c: &DataType) {
    if a == b && b == c {
        assert!(a == c, "eq_transitive");
    }
    if a < b && b < c {
        assert!(a < c, "lt_transitive");
    }
    if a == b {
        assert!(b.partial_cmp(c) == a.partial_cmp(c), "eq_substitutive_in_cmp");
    }
}

macro_rules! hpair {
    ($name:ident, $a:expr, $b:expr, |$x:ident, $y:ident| $pre:expr) => {
        #[kani::proof]
        #[kani::unwind(12)]
        fn $name() {
            let $x = $a;
            let $y = $b;
            kani::assume($pre);
            kani::cover!(true, "reach");
            law_pair(&$x, &$y);
        }
    };
}
macro_rules! htrip {
    ($name:ident, $a:expr, $b:expr, $c:expr) => {
        #[kani::proof]
        #[kani::unwind(12)]
        fn $name() {
            let a = $a;
            let b = $b;
            let c = $c;
            kani::cover!(a == b && b == c, "reach");
            law_trans(&a, &b, &c);
        }
    };
}
macro_rules! hfind {
    // a harness restricted to a region where the pinned tree is known to fail; asserts one law only
    ($name:ident, $a:expr, $b:expr, |$x:ident, $y:ident| $pre:expr, $chk:expr, $msg:expr) => {
        #[kani::proof]
        #[kani::unwind(12)]
        fn $name() {
            let $x = $a;
            let $y = $b;
            kani::assume($pre);
            kani::cover!(true, "reach");
            assert!($chk, $msg);
        }
    };
}

// ---- reflexivity ---------------------------------------------------------------------------------
// NOTE: SQL `NULL = NULL` is UNKNOWN, but DataType::eq is the Rust equivalence used by HashMap / DISTINCT /
// GROUP BY, where it must be reflexive.
// @obl harness=c19_refl_all id=C19.eq_reflexive[Null,Bool,Int,BigInt,UInt,BigUInt,Float/non-NaN,Double/non-NaN] tier=quick funcs="DataType::eq,DataType::to_f64,DataType::hash" bounds="every value of each kind; NaN excluded"
#[kani::proof]
#[kani::unwind(12)]
fn c19_refl_all() {
    let f = v_float();
    let d = v_double();
    kani::assume(!is_nan(&f) && !is_nan(&d));
    kani::cover!(true, "reach");
    law_refl(&DataType::Null);
    law_refl(&v_bool());
    law_refl(&v_int());
    law_refl(&v_bigint());
    law_refl(&v_uint());
    law_refl(&v_biguint());
    law_refl(&f);
    law_refl(&d);
}
// @obl harness=c19_refl_float_nan id=C19.eq_reflexive[Float/NaN] tier=quick funcs="DataType::eq,DataType::to_f64" bounds="all f32 NaN payloads"
hfind!(c19_refl_float_nan, v_float(), 0, |a, b| is_nan(&a), a == a, "eq_reflexive");
// @obl harness=c19_refl_double_nan id=C19.eq_reflexive[Double/NaN] tier=quick funcs="DataType::eq,DataType::to_f64" bounds="all f64 NaN payloads"
hfind!(c19_refl_double_nan, v_double(), 0, |a, b| is_nan(&a), a == a, "eq_reflexive");
// @obl harness=c19_refl_blob id=C19.eq_reflexive[Blob] tier=quick funcs="DataType::eq,Blob::partial_cmp,BlobComparator::partial_cmp_blobs" bounds="two separately allocated equal blobs of 3 data bytes" unwind=12
#[kani::proof]
#[kani::unwind(12)]
fn c19_refl_blob() {
    let d: [u8; 3] = kani::any();
    let a = DataType::Blob(raw_blob(d));
    let b = DataType::Blob(raw_blob(d));
    kani::cover!(true, "reach");
    assert!(a == b, "eq_reflexive");
    assert!(a == a, "eq_reflexive_same_object");
    assert!(hstream(&a).same(&hstream(&b)), "eq_implies_hash_eq");
}

// ---- all pair laws, every unordered pair of numeric kinds -------------------------------------------
// Regions: "53" = integer operands of 64-bit kinds within [-2^53, 2^53]; "nz" = no operand is -0.0;
// NaN is excluded only for same-kind float pairs (totality).  The complements are the hfind! harnesses below.
// @obl harness=c19_pair_int_int id=C19.pair_laws[Int,Int] tier=quick funcs="DataType::eq,DataType::partial_cmp,DataType::hash,DataType::to_f64" bounds="all i32 pairs"
hpair!(c19_pair_int_int, v_int(), v_int(), |a, b| true);
// @obl harness=c19_pair_int_bigint id=C19.pair_laws[Int,BigInt/53] tier=quick funcs="DataType::eq,DataType::partial_cmp,DataType::hash,DataType::to_f64" bounds="all i32 x i64 in +-2^53"
hpair!(c19_pair_int_bigint, v_int(), v_bigint(), |a, b| int_in_53(&b));
// @obl harness=c19_pair_int_uint id=C19.pair_laws[Int,UInt] tier=quick funcs="DataType::eq,DataType::partial_cmp,DataType::hash,DataType::to_f64" bounds="all i32 x u32"
hpair!(c19_pair_int_uint, v_int(), v_uint(), |a, b| true);
// @obl harness=c19_pair_int_biguint id=C19.pair_laws[Int,BigUInt/53] tier=quick funcs="DataType::eq,DataType::partial_cmp,DataType::hash,DataType::to_f64" bounds="all i32 x u64 <= 2^53"
hpair!(c19_pair_int_biguint, v_int(), v_biguint(), |a, b| int_in_53(&b));
// @obl harness=c19_pair_int_float id=C19.pair_laws[Int,Float/nz] tier=quick funcs="DataType::eq,DataType::partial_cmp,DataType::hash,DataType::to_f64" bounds="all i32 x all f32 except -0.0"
hpair!(c19_pair_int_float, v_int(), v_float(), |a, b| !is_neg_zero(&b));
// @obl harness=c19_pair_int_double id=C19.pair_laws[Int,Double/nz] tier=quick funcs="DataType::eq,DataType::partial_cmp,DataType::hash,DataType::to_f64" bounds="all i32 x all f64 except -0.0"
hpair!(c19_pair_int_double, v_int(), v_double(), |a, b| !is_neg_zero(&b));
// @obl harness=c19_pair_bigint_bigint id=C19.pair_laws[BigInt,BigInt/53] tier=quick funcs="DataType::eq,DataType::partial_cmp,DataType::hash,DataType::to_f64" bounds="i64 pairs in +-2^53"
hpair!(c19_pair_bigint_bigint, v_bigint(), v_bigint(), |a, b| int_in_53(&a) && int_in_53(&b));
// @obl harness=c19_pair_bigint_uint id=C19.pair_laws[BigInt/53,UInt] tier=quick funcs="DataType::eq,DataType::partial_cmp,DataType::hash,DataType::to_f64" bounds="i64 in +-2^53 x all u32"
hpair!(c19_pair_bigint_uint, v_bigint(), v_uint(), |a, b| int_in_53(&a));
// @obl harness=c19_pair_bigint_biguint id=C19.pair_laws[BigInt,BigUInt/53] tier=quick funcs="DataType::eq,DataType::partial_cmp,DataType::hash,DataType::to_f64" bounds="i64 x u64 both within 2^53"
hpair!(c19_pair_bigint_biguint, v_bigint(), v_biguint(), |a, b| int_in_53(&a) && int_in_53(&b));
// @obl harness=c19_pair_bigint_float id=C19.pair_laws[BigInt/53,Float/nz] tier=quick funcs="DataType::eq,DataType::partial_cmp,DataType::hash,DataType::to_f64" bounds="i64 in +-2^53 x all f32 except -0.0"
hpair!(c19_pair_bigint_float, v_bigint(), v_float(), |a, b| int_in_53(&a) && !is_neg_zero(&b));
// @obl harness=c19_pair_bigint_double id=C19.pair_laws[BigInt/53,Double/nz] tier=quick funcs="DataType::eq,DataType::partial_cmp,DataType::hash,DataType::to_f64" bounds="i64 in +-2^53 x all f64 except -0.0"
hpair!(c19_pair_bigint_double, v_bigint(), v_double(), |a, b| int_in_53(&a) && !is_neg_zero(&b));
// @obl harness=c19_pair_uint_uint id=C19.pair_laws[UInt,UInt] tier=quick funcs="DataType::eq,DataType::partial_cmp,DataType::hash,DataType::to_f64" bounds="all u32 pairs"
hpair!(c19_pair_uint_uint, v_uint(), v_uint(), |a, b| true);
// @obl harness=c19_pair_uint_biguint id=C19.pair_laws[UInt,BigUInt/53] tier=quick funcs="DataType::eq,DataType::partial_cmp,DataType::hash,DataType::to_f64" bounds="all u32 x u64 <= 2^53"
hpair!(c19_pair_uint_biguint, v_uint(), v_biguint(), |a, b| int_in_53(&b));
// @obl harness=c19_pair_uint_float id=C19.pair_laws[UInt,Float/nz] tier=quick funcs="DataType::eq,DataType::partial_cmp,DataType::hash,DataType::to_f64" bounds="all u32 x all f32 except -0.0"
hpair!(c19_pair_uint_float, v_uint(), v_float(), |a, b| !is_neg_zero(&b));
// @obl harness=c19_pair_uint_double id=C19.pair_laws[UInt,Double/nz] tier=quick funcs="DataType::eq,DataType::partial_cmp,DataType::hash,DataType::to_f64" bounds="all u32 x all f64 except -0.0"
hpair!(c19_pair_uint_double, v_uint(), v_double(), |a, b| !is_neg_zero(&b));
// @obl harness=c19_pair_biguint_biguint id=C19.pair_laws[BigUInt,BigUInt/53] tier=quick funcs="DataType::eq,DataType::partial_cmp,DataType::hash,DataType::to_f64" bounds="u64 pairs <= 2^53"
hpair!(c19_pair_biguint_biguint, v_biguint(), v_biguint(), |a, b| int_in_53(&a) && int_in_53(&b));
// @obl harness=c19_pair_biguint_float id=C19.pair_laws[BigUInt/53,Float/nz] tier=quick funcs="DataType::eq,DataType::partial_cmp,DataType::hash,DataType::to_f64" bounds="u64 <= 2^53 x all f32 except -0.0"
hpair!(c19_pair_biguint_float, v_biguint(), v_float(), |a, b| int_in_53(&a) && !is_neg_zero(&b));
// @obl harness=c19_pair_biguint_double id=C19.pair_laws[BigUInt/53,Double/nz] tier=quick funcs="DataType::eq,DataType::partial_cmp,DataType::hash,DataType::to_f64" bounds="u64 <= 2^53 x all f64 except -0.0"
hpair!(c19_pair_biguint_double, v_biguint(), v_double(), |a, b| int_in_53(&a) && !is_neg_zero(&b));
// @obl harness=c19_pair_float_float id=C19.pair_laws[Float,Float/nz,non-NaN] tier=quick funcs="DataType::eq,DataType::partial_cmp,DataType::hash,DataType::to_f64" bounds="all f32 pairs, no NaN, no -0.0"
hpair!(c19_pair_float_float, v_float(), v_float(), |a, b| !is_nan(&a) && !is_nan(&b) && !is_neg_zero(&a) && !is_neg_zero(&b));
// @obl harness=c19_pair_float_double id=C19.pair_laws[Float,Double/nz] tier=quick funcs="DataType::eq,DataType::partial_cmp,DataType::hash,DataType::to_f64" bounds="all f32 x all f64 (NaN included), no -0.0"
hpair!(c19_pair_float_double, v_float(), v_double(), |a, b| !is_neg_zero(&a) && !is_neg_zero(&b));
// @obl harness=c19_pair_double_double id=C19.pair_laws[Double,Double/nz,non-NaN] tier=quick funcs="DataType::eq,DataType::partial_cmp,DataType::hash,DataType::to_f64" bounds="all f64 pairs, no NaN, no -0.0"
hpair!(c19_pair_double_double, v_double(), v_double(), |a, b| !is_nan(&a) && !is_nan(&b) && !is_neg_zero(&a) && !is_neg_zero(&b));
// NaN x anything for the laws that must hold even with NaN (everything but totality/reflexivity)
// @obl harness=c19_pair_double_double_nan id=C19.pair_laws_but_total[Double,Double/NaN] tier=quick funcs="DataType::eq,DataType::partial_cmp,DataType::hash" bounds="f64 pairs with at least one NaN"
#[kani::proof]
#[kani::unwind(12)]
fn c19_pair_double_double_nan() {
    let a = v_double();
    let b = v_double();
    kani::assume(is_nan(&a) || is_nan(&b));
    kani::cover!(true, "reach");
    assert!(!(a == b) && !(b == a), "nan_never_equal_to_other");
    assert!(a.partial_cmp(&b).is_none() && b.partial_cmp(&a).is_none(), "nan_unordered");
    assert!(!(a < b) && !(a > b) && !(a <= b) && !(a >= b), "nan_ops_false");
}
// other categories
// @obl harness=c19_pair_bool_bool id=C19.pair_laws[Bool,Bool] tier=quick funcs="DataType::eq,DataType::partial_cmp,DataType::hash" bounds="all pairs"
hpair!(c19_pair_bool_bool, v_bool(), v_bool(), |a, b| true);
// @obl harness=c19_pair_bool_int id=C19.pair_laws[Bool,Int] tier=quick funcs="DataType::eq,DataType::partial_cmp,DataType::hash" bounds="bool x all i32 (different categories: never equal, unordered)"
hpair!(c19_pair_bool_int, v_bool(), v_int(), |a, b| true);
// @obl harness=c19_pair_null_double id=C19.pair_laws[Null,Double] tier=quick funcs="DataType::eq,DataType::partial_cmp,DataType::hash" bounds="NULL x all f64"
hpair!(c19_pair_null_double, DataType::Null, v_double(), |a, b| true);
// @obl harness=c19_pair_blob_blob id=C19.pair_laws[Blob,Blob] tier=quick funcs="DataType::eq,DataType::partial_cmp,DataType::hash,BlobComparator::partial_cmp_blobs" bounds="blobs with 2 and 3 data bytes, and 3 and 3" unwind=12
#[kani::proof]
#[kani::unwind(12)]
fn c19_pair_blob_blob() {
    let a = v_blob::<2>();
    let b = v_blob::<3>();
    let c = v_blob::<3>();
    kani::cover!(b == c, "reach");
    law_pair(&a, &b);
    law_pair(&b, &c);
    assert!(a != b, "blob_len_differs_not_equal");
}
// @obl harness=c19_pair_blob_int id=C19.pair_laws[Blob,Int] tier=quick funcs="DataType::eq,DataType::partial_cmp" bounds="3-byte blob x all i32" unwind=12
#[kani::proof]
#[kani::unwind(12)]
fn c19_pair_blob_int() {
    let a = v_blob::<3>();
    let b = v_int();
    kani::cover!(true, "reach");
    law_pair(&a, &b);
}

// ---- regions where the pinned tree is known to deviate (each isolates exactly one defect) ---------------
// @obl harness=c19_find_total_double_nan id=C19.ord_total[Double/NaN] tier=quick funcs="DataType::partial_cmp" bounds="f64 pairs with at least one NaN"
hfind!(c19_find_total_double_nan, v_double(), v_double(), |a, b| is_nan(&a) || is_nan(&b), a.partial_cmp(&b).is_some(), "ord_total");
// @obl harness=c19_find_hash_negzero_double id=C19.eq_implies_hash_eq[Double,Double/-0.0] tier=quick funcs="DataType::eq,DataType::hash" bounds="f64 pairs where one operand is -0.0"
hfind!(c19_find_hash_negzero_double, v_double(), v_double(), |a, b| (is_neg_zero(&a) || is_neg_zero(&b)) && a == b, hstream(&a).same(&hstream(&b)), "eq_implies_hash_eq");
// @obl harness=c19_find_hash_negzero_float id=C19.eq_implies_hash_eq[Float,Float/-0.0] tier=quick funcs="DataType::eq,DataType::hash" bounds="f32 pairs where one operand is -0.0"
hfind!(c19_find_hash_negzero_float, v_float(), v_float(), |a, b| (is_neg_zero(&a) || is_neg_zero(&b)) && a == b, hstream(&a).same(&hstream(&b)), "eq_implies_hash_eq");
// @obl harness=c19_find_hash_negzero_int id=C19.eq_implies_hash_eq[BigInt,Double/-0.0] tier=quick funcs="DataType::eq,DataType::hash" bounds="all i64 x {-0.0}"
hfind!(c19_find_hash_negzero_int, v_bigint(), v_double(), |a, b| is_neg_zero(&b) && a == b, hstream(&a).same(&hstream(&b)), "eq_implies_hash_eq");
// @obl harness=c19_find_math_bigint_bigint id=C19.cmp_matches_math[BigInt,BigInt/big] tier=quick funcs="DataType::partial_cmp,DataType::to_f64" bounds="i64 pairs with some |v| > 2^53"
hfind!(c19_find_math_bigint_bigint, v_bigint(), v_bigint(), |a, b| !(int_in_53(&a) && int_in_53(&b)), a.partial_cmp(&b) == mathcmp(&a, &b), "cmp_matches_math");
// @obl harness=c19_find_math_biguint_biguint id=C19.cmp_matches_math[BigUInt,BigUInt/big] tier=quick funcs="DataType::partial_cmp,DataType::to_f64" bounds="u64 pairs with some v > 2^53"
hfind!(c19_find_math_biguint_biguint, v_biguint(), v_biguint(), |a, b| !(int_in_53(&a) && int_in_53(&b)), a.partial_cmp(&b) == mathcmp(&a, &b), "cmp_matches_math");
// @obl harness=c19_find_math_bigint_biguint id=C19.cmp_matches_math[BigInt,BigUInt/big] tier=quick funcs="DataType::partial_cmp,DataType::to_f64" bounds="i64 x u64 with some |v| > 2^53"
hfind!(c19_find_math_bigint_biguint, v_bigint(), v_biguint(), |a, b| !(int_in_53(&a) && int_in_53(&b)), a.partial_cmp(&b) == mathcmp(&a, &b), "cmp_matches_math");
// @obl harness=c19_find_math_bigint_double id=C19.cmp_matches_math[BigInt,Double/big] tier=quick funcs="DataType::partial_cmp,DataType::to_f64" bounds="i64 with |v| > 2^53 x all f64"
hfind!(c19_find_math_bigint_double, v_bigint(), v_double(), |a, b| !int_in_53(&a), a.partial_cmp(&b) == mathcmp(&a, &b), "cmp_matches_math");
// @obl harness=c19_find_math_biguint_double id=C19.cmp_matches_math[BigUInt,Double/big] tier=quick funcs="DataType::partial_cmp,DataType::to_f64" bounds="u64 > 2^53 x all f64"
hfind!(c19_find_math_biguint_double, v_biguint(), v_double(), |a, b| !int_in_53(&a), a.partial_cmp(&b) == mathcmp(&a, &b), "cmp_matches_math");
// even outside 2^53 the f64 route must stay *monotone*: it may merge neighbours but never invert an order
// @obl harness=c19_big_monotone id=C19.cmp_never_inverts[BigInt,BigInt|BigUInt,BigUInt|BigInt,BigUInt] tier=quick funcs="DataType::partial_cmp,DataType::to_f64" bounds="all i64/u64 pairs (full width)"
#[kani::proof]
#[kani::unwind(12)]
fn c19_big_monotone() {
    kani::cover!(true, "reach");
    never_inverts(&v_bigint(), &v_bigint());
    never_inverts(&v_biguint(), &v_biguint());
    never_inverts(&v_bigint(), &v_biguint());
}
fn never_inverts(x: &DataType, y: &DataType) {
    let m = mathcmp(x, y);
    match x.partial_cmp(y) {
        Some(Ordering::Less) => assert!(m == Some(Ordering::Less), "cmp_never_inverts"),
        Some(Ordering::Greater) => assert!(m == Some(Ordering::Greater), "cmp_never_inverts"),
        Some(Ordering::Equal) => {}
        None => assert!(false, "ord_total"),
    }
}

// ---- transitivity through f64 -----------------------------------------------------------------------
// @obl harness=c19_trans_bigint_double_biguint id=C19.eq_transitive[BigInt,Double,BigUInt] tier=quick funcs="DataType::eq,DataType::partial_cmp" bounds="all i64 x f64 x u64"
htrip!(c19_trans_bigint_double_biguint, v_bigint(), v_double(), v_biguint());
// @obl harness=c19_trans_int_float_bigint id=C19.eq_transitive[Int,Float,BigInt] tier=quick funcs="DataType::eq,DataType::partial_cmp" bounds="all i32 x f32 x i64"
htrip!(c19_trans_int_float_bigint, v_int(), v_float(), v_bigint());
// @obl harness=c19_trans_double3 id=C19.eq_transitive[Double,Double,Double] tier=quick funcs="DataType::eq,DataType::partial_cmp" bounds="all f64^3"
htrip!(c19_trans_double3, v_double(), v_double(), v_double());
// @obl harness=c19_trans_uint_double_int id=C19.eq_transitive[UInt,Double,Int] tier=thorough funcs="DataType::eq,DataType::partial_cmp" bounds="all u32 x f64 x i32"
htrip!(c19_trans_uint_double_int, v_uint(), v_double(), v_int());
// @obl harness=c19_trans_bigint3 id=C19.eq_transitive[BigInt,BigInt,BigInt] tier=thorough funcs="DataType::eq,DataType::partial_cmp" bounds="all i64^3"
htrip!(c19_trans_bigint3, v_bigint(), v_bigint(), v_bigint());

// ---- casts ---------------------------------------------------------------------------------------------
fn law_cast_same_kind(a: &DataType) {
    match okf(a.try_cast(a.kind())) {
        Some(b) => {
            assert!(b.kind() == a.kind(), "cast_same_kind_kind");
            assert!(hstream(&b).same(&hstream(a)), "cast_same_kind_identity");
        }
        None => assert!(false, "cast_same_kind_fails"),
    }
}
// @obl harness=c19_cast_same id=C19.cast_same_kind_identity[Bool,Int,BigInt,UInt,BigUInt,Float,Double] tier=quick funcs="DataType::try_cast" bounds="every value of each kind (bit identical incl. NaN payload)"
#[kani::proof]
#[kani::unwind(12)]
fn c19_cast_same() {
    kani::cover!(true, "reach");
    law_cast_same_kind(&v_bool());
    law_cast_same_kind(&v_int());
    law_cast_same_kind(&v_bigint());
    law_cast_same_kind(&v_uint());
    law_cast_same_kind(&v_biguint());
    law_cast_same_kind(&v_float());
    law_cast_same_kind(&v_double());
}
/// casts between integer kinds: succeed iff the value is representable, preserve it, and cast back
fn law_cast_int(a: &DataType, k: DataTypeKind, lo: i128, hi: i128) {
    let n = match mathval(a) {
        Ok(n) => n,
        Err(_) => unreachable!(),
    };
    match okf(a.try_cast(k)) {
        Some(b) => {
            assert!(b.kind() == k, "cast_kind");
            assert!(mathval(&b) == Ok(n), "cast_preserves_value");
            assert!(n >= lo && n <= hi, "cast_accepts_only_representable");
            match okf(b.try_cast(a.kind())) {
                Some(c) => assert!(mathval(&c) == Ok(n) && c.kind() == a.kind(), "cast_roundtrip"),
                None => assert!(false, "cast_back_fails"),
            }
        }
        None => assert!(n < lo || n > hi, "cast_rejects_only_unrepresentable"),
    }
}
// @obl harness=c19_cast_from_bigint id=C19.cast_roundtrip[BigInt->Int|UInt|BigUInt] tier=quick funcs="DataType::try_cast,TypeCast::try_cast" bounds="all i64"
#[kani::proof]
#[kani::unwind(12)]
fn c19_cast_from_bigint() {
    let a = v_bigint();
    kani::cover!(true, "reach");
    law_cast_int(&a, DataTypeKind::Int, i32::MIN as i128, i32::MAX as i128);
    law_cast_int(&a, DataTypeKind::UInt, 0, u32::MAX as i128);
    law_cast_int(&a, DataTypeKind::BigUInt, 0, u64::MAX as i128);
}
// @obl harness=c19_cast_from_biguint id=C19.cast_roundtrip[BigUInt->Int|UInt|BigInt] tier=quick funcs="DataType::try_cast,TypeCast::try_cast" bounds="all u64"
#[kani::proof]
#[kani::unwind(12)]
fn c19_cast_from_biguint() {
    let a = v_biguint();
    kani::cover!(true, "reach");
    law_cast_int(&a, DataTypeKind::Int, 0, i32::MAX as i128);
    law_cast_int(&a, DataTypeKind::UInt, 0, u32::MAX as i128);
    law_cast_int(&a, DataTypeKind::BigInt, 0, i64::MAX as i128);
}
// @obl harness=c19_cast_from_int id=C19.cast_roundtrip[Int->UInt|BigInt|BigUInt] tier=quick funcs="DataType::try_cast,TypeCast::try_cast" bounds="all i32"
#[kani::proof]
#[kani::unwind(12)]
fn c19_cast_from_int() {
    let a = v_int();
    kani::cover!(true, "reach");
    law_cast_int(&a, DataTypeKind::UInt, 0, u32::MAX as i128);
    law_cast_int(&a, DataTypeKind::BigInt, i64::MIN as i128, i64::MAX as i128);
    law_cast_int(&a, DataTypeKind::BigUInt, 0, u64::MAX as i128);
}
// @obl harness=c19_cast_from_uint id=C19.cast_roundtrip[UInt->Int|BigInt|BigUInt] tier=quick funcs="DataType::try_cast,TypeCast::try_cast" bounds="all u32"
#[kani::proof]
#[kani::unwind(12)]
fn c19_cast_from_uint() {
    let a = v_uint();
    kani::cover!(true, "reach");
    law_cast_int(&a, DataTypeKind::Int, 0, i32::MAX as i128);
    law_cast_int(&a, DataTypeKind::BigInt, 0, i64::MAX as i128);
    law_cast_int(&a, DataTypeKind::BigUInt, 0, u64::MAX as i128);
}
// int -> double -> int where the integer is exactly representable
// @obl harness=c19_cast_int_double_int id=C19.cast_roundtrip[Int->Double->Int|BigInt/53->Double->BigInt|UInt->Double->UInt] tier=quick funcs="DataType::try_cast,TypeCast::try_cast,f64_to_signed,f64_to_unsigned" bounds="all i32, all u32, i64 within +-2^53"
#[kani::proof]
#[kani::unwind(12)]
fn c19_cast_int_double_int() {
    let a = v_int();
    let b = v_bigint();
    let c = v_uint();
    kani::assume(int_in_53(&b));
    kani::cover!(true, "reach");
    for x in [&a, &b, &c] {
        match okf(x.try_cast(DataTypeKind::Double)) {
            Some(d) => {
                assert!(d.kind() == DataTypeKind::Double, "cast_kind");
                assert!(mathcmp(&d, x) == Some(Ordering::Equal), "cast_preserves_value");
                match okf(d.try_cast(x.kind())) {
                    Some(y) => assert!(mathval(&y) == mathval(x), "cast_roundtrip"),
                    None => assert!(false, "cast_back_fails"),
                }
            }
            None => assert!(false, "cast_to_double_fails"),
        }
    }
}
// double -> integer kinds: accepted only when finite, result is the truncation.
// The exact boundary values 2^63 (BigInt) and 2^64 (BigUInt) are excluded: the pinned tree accepts them and
// saturates (off by one).  That is a defect of try_cast but casts *between different types* are not part of
// C19's statement, so it is recorded in DESIGN.md only and not checked here.
// @obl harness=c19_cast_double_ints id=C19.cast_value[Double->Int|BigInt|BigUInt] tier=quick funcs="DataType::try_cast,f64_to_signed,f64_to_unsigned" bounds="all f64 except trunc(x) = 2^63 resp. 2^64"
#[kani::proof]
#[kani::unwind(12)]
fn c19_cast_double_ints() {
    let x: f64 = kani::any();
    let a = DataType::Double(Float64(x));
    let t = x.trunc();
    kani::cover!(true, "reach");
    match okf(a.try_cast(DataTypeKind::Int)) {
        Some(DataType::Int(v)) => {
            assert!(!x.is_nan() && !x.is_infinite(), "cast_accepts_only_finite");
            assert!(cmp_int_f64(v.0 as i128, t) == Some(Ordering::Equal), "cast_is_truncation");
        }
        Some(_) => assert!(false, "cast_kind"),
        None => assert!(x.is_nan() || x.is_infinite() || t < -2147483648.0 || t > 2147483647.0, "cast_rejects_only_unrepresentable"),
    }
    if t != 9223372036854775808.0 {
        match okf(a.try_cast(DataTypeKind::BigInt)) {
            Some(DataType::BigInt(v)) => {
                assert!(!x.is_nan() && !x.is_infinite(), "cast_accepts_only_finite");
                assert!(cmp_int_f64(v.0 as i128, t) == Some(Ordering::Equal), "cast_is_truncation");
            }
            Some(_) => assert!(false, "cast_kind"),
            None => assert!(x.is_nan() || x.is_infinite() || t < -9223372036854775808.0 || t > 9223372036854775808.0, "cast_rejects_only_unrepresentable"),
        }
    }
    if t != 18446744073709551616.0 {
        match okf(a.try_cast(DataTypeKind::BigUInt)) {
            Some(DataType::BigUInt(v)) => {
                assert!(!x.is_nan() && !x.is_infinite(), "cast_accepts_only_finite");
                assert!(cmp_int_f64(v.0 as i128, t) == Some(Ordering::Equal), "cast_is_truncation");
            }
            Some(_) => assert!(false, "cast_kind"),
            None => assert!(x.is_nan() || x.is_infinite() || x < 0.0 || t > 18446744073709551616.0, "cast_rejects_only_unrepresentable"),
        }
    }
}
// @obl harness=c19_cast_float_double_float id=C19.cast_roundtrip[Float->Double->Float] tier=quick funcs="DataType::try_cast" bounds="all f32 (bitwise, NaN excluded)"
#[kani::proof]
#[kani::unwind(12)]
fn c19_cast_float_double_float() {
    let x: f32 = kani::any();
    kani::assume(!x.is_nan());
    let a = DataType::Float(Float32(x));
    kani::cover!(true, "reach");
    match okf(a.try_cast(DataTypeKind::Double)) {
        Some(d) => match okf(d.try_cast(DataTypeKind::Float)) {
            Some(DataType::Float(y)) => assert!(y.0.to_bits() == x.to_bits(), "cast_roundtrip"),
            _ => assert!(false, "cast_back_fails"),
        },
        None => assert!(false, "cast_to_double_fails"),
    }
}

// ---- store/load round trip and Ref comparison (what the B+tree comparator uses) ------------------------
#[repr(align(8))]
struct A8([u8; 16]);
macro_rules! href {
    ($name:ident, $v:ident, $k:ident) => {
        #[kani::proof]
        #[kani::unwind(12)]
        fn $name() {
            let a = $v();
            let b = $v();
            let mut ba = A8([0u8; 16]);
            let mut bb = A8([0u8; 16]);
            let ea = okf(a.write_to(&mut ba.0, 0));
            let eb = okf(b.write_to(&mut bb.0, 0));
            assert!(ea.is_some() && eb.is_some(), "write_to_ok");
            let ra = okf(DataTypeKind::$k.deserialize(&ba.0, 0));
            let rb = okf(DataTypeKind::$k.deserialize(&bb.0, 0));
            match (ra, rb) {
                // matching the concrete variant and rebuilding it keeps the discriminant constant for CBMC's
                // symbolic execution (otherwise every arm of DataTypeRef::partial_cmp, Blob loops included, is explored)
                (Some((DataTypeRef::$k(xa), na)), Some((DataTypeRef::$k(xb), nb))) => {
                    let ra = DataTypeRef::$k(xa);
                    let rb = DataTypeRef::$k(xb);
                    kani::cover!(true, "reach");
                    assert!(Some(na) == ea && Some(nb) == eb, "cursor_agrees");
                    assert!(ra.partial_cmp(&rb) == a.partial_cmp(&b), "ref_cmp_agrees");
                    assert!((ra == rb) == (a == b), "ref_eq_agrees");
                    match ra.to_owned() {
                        Some(o) => assert!(hstream(&o).same(&hstream(&a)), "store_load_identity"),
                        None => assert!(false, "to_owned_none"),
                    }
                }
                _ => assert!(false, "deserialize_fails_or_wrong_kind"),
            }
        }
    };
}
// @obl harness=c19_ref_int id=C19.ref_cmp_agrees[Int] tier=quick funcs="DataType::write_to,DataTypeKind::deserialize,DataTypeRef::partial_cmp,DataTypeRef::eq,DataTypeRef::to_owned" bounds="all i32 pairs, 8-aligned buffer, cursor 0"
href!(c19_ref_int, v_int, Int);
// @obl harness=c19_ref_bigint id=C19.ref_cmp_agrees[BigInt] tier=quick funcs="DataType::write_to,DataTypeKind::deserialize,DataTypeRef::partial_cmp,DataTypeRef::eq,DataTypeRef::to_owned" bounds="all i64 pairs, 8-aligned buffer, cursor 0"
href!(c19_ref_bigint, v_bigint, BigInt);
// @obl harness=c19_ref_biguint id=C19.ref_cmp_agrees[BigUInt] tier=quick funcs="DataType::write_to,DataTypeKind::deserialize,DataTypeRef::partial_cmp,DataTypeRef::eq,DataTypeRef::to_owned" bounds="all u64 pairs, 8-aligned buffer, cursor 0"
href!(c19_ref_biguint, v_biguint, BigUInt);
// @obl harness=c19_ref_uint id=C19.ref_cmp_agrees[UInt] tier=quick funcs="DataType::write_to,DataTypeKind::deserialize,DataTypeRef::partial_cmp,DataTypeRef::eq,DataTypeRef::to_owned" bounds="all u32 pairs, 8-aligned buffer, cursor 0"
href!(c19_ref_uint, v_uint, UInt);
// @obl harness=c19_ref_double id=C19.ref_cmp_agrees[Double] tier=quick funcs="DataType::write_to,DataTypeKind::deserialize,DataTypeRef::partial_cmp,DataTypeRef::eq,DataTypeRef::to_owned" bounds="all f64 pairs, 8-aligned buffer, cursor 0"
href!(c19_ref_double, v_double, Double);
// @obl harness=c19_ref_float id=C19.ref_cmp_agrees[Float] tier=quick funcs="DataType::write_to,DataTypeKind::deserialize,DataTypeRef::partial_cmp,DataTypeRef::eq,DataTypeRef::to_owned" bounds="all f32 pairs, 8-aligned buffer, cursor 0"
href!(c19_ref_float, v_float, Float);
// @obl harness=c19_ref_bool id=C19.ref_cmp_agrees[Bool] tier=quick funcs="DataType::write_to,DataTypeKind::deserialize,DataTypeRef::partial_cmp,DataTypeRef::eq,DataTypeRef::to_owned" bounds="all pairs"
#[kani::proof]
#[kani::unwind(12)]
fn c19_ref_bool() {
    // Bool::write_to copies into writer[cursor..] which must be exactly one byte long
    let a = v_bool();
    let b = v_bool();
    let mut ba = [0u8; 1];
    let mut bb = [0u8; 1];
    assert!(okf(a.write_to(&mut ba, 0)).is_some() && okf(b.write_to(&mut bb, 0)).is_some(), "write_to_ok");
    match (okf(DataTypeKind::Bool.deserialize(&ba, 0)), okf(DataTypeKind::Bool.deserialize(&bb, 0))) {
        (Some((ra, na)), Some((rb, nb))) => {
            kani::cover!(true, "reach");
            assert!(na == 1 && nb == 1, "cursor_agrees");
            assert!(ra.partial_cmp(&rb) == a.partial_cmp(&b), "ref_cmp_agrees");
            assert!((ra == rb) == (a == b), "ref_eq_agrees");
            assert!(ra.to_owned().map(|o| o == a) == Some(true), "store_load_identity");
        }
        _ => assert!(false, "deserialize_fails"),
    }
}
// @obl harness=c19_ref_blob id=C19.ref_cmp_agrees[Blob] tier=quick funcs="DataType::write_to,DataTypeKind::deserialize,Blob::reinterpret_cast,BlobRef::partial_cmp,BlobComparator::partial_cmp_blobs" bounds="blobs of 2 and 3 data bytes at cursor 0" unwind=12
#[kani::proof]
#[kani::unwind(12)]
fn c19_ref_blob() {
    let a = v_blob::<2>();
    let b = v_blob::<3>();
    let mut ba = [0u8; 8];
    let mut bb = [0u8; 8];
    let ea = okf(a.write_to(&mut ba, 0));
    let eb = okf(b.write_to(&mut bb, 0));
    assert!(ea == Some(3) && eb == Some(4), "write_to_ok");
    match (okf(DataTypeKind::Blob.deserialize(&ba, 0)), okf(DataTypeKind::Blob.deserialize(&bb, 0))) {
        (Some((DataTypeRef::Blob(xa), na)), Some((DataTypeRef::Blob(xb), nb))) => {
            let ra = DataTypeRef::Blob(xa);
            let rb = DataTypeRef::Blob(xb);
            kani::cover!(true, "reach");
            assert!(na == 3 && nb == 4, "cursor_agrees");
            assert!(ra.partial_cmp(&rb) == a.partial_cmp(&b), "ref_cmp_agrees");
            assert!((ra == rb) == (a == b), "ref_eq_agrees");
        }
        _ => assert!(false, "deserialize_fails"),
    }
}

// ---- VarInt ---------------------------------------------------------------------------------------------
// @obl harness=c19_varint_roundtrip id=C19.varint_roundtrip tier=quick funcs="VarInt::encode,VarInt::from_encoded_bytes,VarInt::value,VarInt::encoded_size,VarInt::encode_zigzag,VarInt::decode_zigzag" bounds="all i64; MAX_VARINT_LEN=10 so unwind 12 covers every loop" unwind=12
#[kani::proof]
#[kani::unwind(12)]
fn c19_varint_roundtrip() {
    let v: i64 = kani::any();
    let u: u64 = kani::any();
    let mut buf = [0u8; varint::MAX_VARINT_LEN];
    let n = {
        let enc = VarInt::encode(v, &mut buf);
        enc.len()
    };
    kani::cover!(true, "reach");
    assert!(n == VarInt::encoded_size(v), "encoded_size_agrees");
    match okf(VarInt::from_encoded_bytes(&buf)) {
        Some((vi, used)) => {
            assert!(used == n, "decoded_len");
            assert!(vi.value() == v, "varint_roundtrip");
        }
        None => assert!(false, "varint_decode_fails"),
    }
    assert!(VarInt::encode_zigzag(VarInt::decode_zigzag(u)) == u, "zigzag_dec_enc");
    assert!(VarInt::decode_zigzag(VarInt::encode_zigzag(v)) == v, "zigzag_enc_dec");
}

// ---- Blob ordering = byte-lexicographic -----------------------------------------------------------------
fn lex_ref(a: &[u8], b: &[u8]) -> Ordering {
    let n = if a.len() < b.len() { a.len() } else { b.len() };
    let mut i = 0;
    while i < n {
        if a[i] < b[i] {
            return Ordering::Less;
        }
        if a[i] > b[i] {
            return Ordering::Greater;
        }
        i += 1;
    }
    a.len().cmp(&b.len())
}
macro_rules! hbloblex {
    ($name:ident, $n:expr, $m:expr, $u:expr) => {
        #[kani::proof]
        #[kani::unwind($u)]
        fn $name() {
            let da: [u8; $n] = kani::any();
            let db: [u8; $m] = kani::any();
            let a = raw_blob(da);
            let b = raw_blob(db);
            kani::cover!(true, "reach");
            assert!(a.partial_cmp(&b) == Some(lex_ref(&da, &db)), "blob_cmp_is_lexicographic");
            assert!((a == b) == (lex_ref(&da, &db) == Ordering::Equal), "blob_eq_is_bytes_eq");
        }
    };
}
// @obl harness=c19_bloblex_1_2 id=C19.blob_cmp_is_lexicographic[1,2] tier=quick funcs="Blob::partial_cmp,Blob::eq,BlobComparator::partial_cmp_blobs,Blob::data,Blob::data_length,VarInt::from_encoded_bytes,VarInt::value" bounds="data lengths 1 and 2, all bytes" unwind=12
hbloblex!(c19_bloblex_1_2, 1, 2, 12);
// @obl harness=c19_bloblex_3_3 id=C19.blob_cmp_is_lexicographic[3,3] tier=quick funcs="Blob::partial_cmp,Blob::eq,BlobComparator::partial_cmp_blobs" bounds="data lengths 3 and 3 (byte loop path)" unwind=12
hbloblex!(c19_bloblex_3_3, 3, 3, 12);
// @obl harness=c19_bloblex_3_5 id=C19.blob_cmp_is_lexicographic[3,5] tier=quick funcs="Blob::partial_cmp,Blob::eq,BlobComparator::partial_cmp_blobs" bounds="data lengths 3 and 5 (prefix case)" unwind=12
hbloblex!(c19_bloblex_3_5, 3, 5, 12);
// @obl harness=c19_bloblex_9_10 id=C19.blob_cmp_is_lexicographic[9,10] tier=quick funcs="Blob::partial_cmp,Blob::eq,BlobComparator::partial_cmp_blobs" bounds="data lengths 9 and 10 (8-byte chunk path + tail)" unwind=14
hbloblex!(c19_bloblex_9_10, 9, 10, 14);
// @obl harness=c19_bloblex_17_16 id=C19.blob_cmp_is_lexicographic[17,16] tier=thorough funcs="Blob::partial_cmp,Blob::eq,BlobComparator::partial_cmp_blobs" bounds="data lengths 17 and 16 (two chunks)" unwind=22
hbloblex!(c19_bloblex_17_16, 17, 16, 22);
// @obl harness=c19_bloblex_empty id=C19.blob_cmp_is_lexicographic[0,1] tier=quick funcs="Blob::partial_cmp,Blob::eq,BlobComparator::partial_cmp_blobs" bounds="empty blob vs 1-byte blob and vs another empty blob" unwind=12
#[kani::proof]
#[kani::unwind(12)]
fn c19_bloblex_empty() {
    let db: [u8; 1] = kani::any();
    let e1 = raw_blob::<0>([]);
    let e2 = raw_blob::<0>([]);
    let b = raw_blob(db);
    kani::cover!(true, "reach");
    assert!(e1.partial_cmp(&b) == Some(Ordering::Less), "blob_cmp_is_lexicographic");
    assert!(b.partial_cmp(&e1) == Some(Ordering::Greater), "blob_cmp_is_lexicographic");
    assert!(e1 == e2 && e1.partial_cmp(&e2) == Some(Ordering::Equal), "blob_eq_is_bytes_eq");
}

// @obl harness=c19_blob_ctor id=C19.blob_ctor_encoding tier=quick funcs="Blob::from_unencoded_slice,VarInt::encode,Blob::data,Blob::data_length" bounds="3 data bytes" unwind=12
#[kani::proof]
#[kani::unwind(12)]
fn c19_blob_ctor() {
    let d: [u8; 3] = kani::any();
    let a = Blob::from_unencoded_slice(&d);
    let b = raw_blob(d);
    kani::cover!(true, "reach");
    assert!(a.as_ref().len() == 4 && b.as_ref().len() == 4, "blob_total_length");
    assert!(a.as_ref()[0] == 6 && a.as_ref()[1] == d[0] && a.as_ref()[2] == d[1] && a.as_ref()[3] == d[2], "blob_ctor_encoding");
    assert!(okf(a.data_length()) == Some(3), "blob_data_length");
    match okf(a.data()) {
        Some(x) => assert!(x.len() == 3 && x[0] == d[0] && x[2] == d[2], "blob_data"),
        None => assert!(false, "blob_data_fails"),
    }
}
