// host: lib.rs
// Native scenario for C02.commit_record_only_after_validation: a commit that FAILS (here: the session was already
// rolled back, so the coordinator refuses the state transition) must not leave the transaction classified
// `needs_redo`: the Commit record is appended before the coordinator is asked.
use crate::{DBConfig, Database};

#[test]
fn failed_commit_is_not_redone() {
    let dir = tempfile::TempDir::new().unwrap();
    let db = Database::create(dir.path().join("t.db"), DBConfig::default()).unwrap();
    db.execute("CREATE TABLE t (id BIGINT, v INT)").unwrap();
    let before = db.pager().write().run_analysis().unwrap();
    let mut s = db.session().unwrap();
    s.execute("INSERT INTO t VALUES (1, 10)").unwrap();
    s.abort_transaction().unwrap();
    let r = s.commit_transaction();
    std::mem::forget(s);
    assert!(r.is_err(), "commit after rollback must be refused");
    let after = db.pager().write().run_analysis().unwrap();
    let newly_redo: Vec<_> = after.needs_redo.difference(&before.needs_redo).collect();
    assert!(newly_redo.is_empty(), "transaction(s) {:?} whose commit FAILED are classified needs_redo", newly_redo);
}
