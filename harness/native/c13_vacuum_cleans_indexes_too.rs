// host: lib.rs
// Native scenario for C13.vacuum_covers_every_relation: an index entry written by a rolled-back INSERT is removed by
// VACUUM together with the table row, so that after VACUUM (which forgets the aborted ids) the key is still free.
use crate::{DBConfig, Database};

#[test]
fn rolled_back_index_entry_is_gone_after_vacuum() {
    let dir = tempfile::TempDir::new().unwrap();
    let db = Database::create(dir.path().join("t.db"), DBConfig::default()).unwrap();
    db.execute("CREATE TABLE codes (id BIGINT, code BIGINT)").unwrap();
    db.execute("CREATE UNIQUE INDEX idx_code ON codes(code)").unwrap();
    db.execute("INSERT INTO codes VALUES (1, 100)").unwrap();
    {
        let mut s = db.session().unwrap();
        s.execute("INSERT INTO codes VALUES (2, 200)").unwrap();
        s.abort_transaction().unwrap();
        std::mem::forget(s);
    }
    db.execute("INSERT INTO codes VALUES (3, 300)").unwrap();
    db.vacuum().unwrap();
    let r = db.execute("INSERT INTO codes VALUES (4, 200)");
    assert!(r.is_ok(), "key written only by a rolled-back transaction is taken after VACUUM: {:?}", r.err());
    assert!(db.execute("INSERT INTO codes VALUES (5, 200)").is_err(), "duplicate accepted after VACUUM");
    assert!(db.execute("INSERT INTO codes VALUES (5, 100)").is_err(), "duplicate of an old key accepted after VACUUM");
}
