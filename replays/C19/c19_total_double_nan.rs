// replay for obligation C19.ord_total[Double/NaN] (harness c19_total_double_nan)
// harness-file: c19_types.rs
// failed: ord_total
// native outcome when recorded: playback build failed
// re-run: /verif/bin/check --replay /verif/replays/C19/c19_total_double_nan.rs
#[test]
fn kani_concrete_playback_c19_total_double_nan_5581254781582157204() {
    let concrete_vals: Vec<Vec<u8>> = vec![
        // 0
        vec![0, 0, 0, 0, 0, 0, 0, 0],
        // +NaN
        vec![0, 0, 0, 0, 0, 0, 248, 127],
    ];
    kani::concrete_playback_run(concrete_vals, c19_total_double_nan);
}

