// Kani harnesses for C05 (aggregates): the Accumulator kernel of HashAggregate.  Child module of
// crates/axmos-db/src/runtime/ops/aggregate.rs.
#![allow(unused_imports, dead_code, clippy::all)]
use super::*;
use crate::types::{Float64, Int64};

fn okf<T, E>(r: Result<T, E>) -> Option<T> {
    match r {
        Ok(v) => Some(v),
        Err(e) => {
            std::mem::forget(e);
            None
        }
    }
}
pub(crate) fn stub_format(_a: std::fmt::Arguments<'_>) -> String {
    String::new()
}
const P53: i64 = 1i64 << 53;
/// value i of a 3-row group: NULL or a BIGINT within +-2^53 (above that DataType comparison goes through f64: known C19 finding)
fn cell(null: bool, x: i64) -> DataType {
    if null {
        DataType::Null
    } else {
        DataType::BigInt(Int64(x))
    }
}
fn as_i64(d: &DataType) -> Option<i64> {
    match d {
        DataType::BigInt(v) => Some(v.0),
        _ => None,
    }
}

fn minmax_case(n0: bool, n1: bool, n2: bool) {
    let xs: [i64; 3] = kani::any();
    kani::assume(xs[0] >= -P53 && xs[0] <= P53 && xs[1] >= -P53 && xs[1] <= P53 && xs[2] >= -P53 && xs[2] <= P53);
    let nulls = [n0, n1, n2];
    let mut mn = Accumulator::Min { min: None };
    let mut mx = Accumulator::Max { max: None };
    let mut rmin: Option<i64> = None;
    let mut rmax: Option<i64> = None;
    let mut i = 0;
    while i < 3 {
        // concrete NULL pattern: the enum discriminant stays a constant for CBMC (otherwise every DataType arm,
        // Blob clone/compare loops included, is explored at each step)
        let d = if nulls[i] { DataType::Null } else { DataType::BigInt(Int64(xs[i])) };
        let a = okf(mn.accumulate(&d)).is_some();
        let b = okf(mx.accumulate(&d)).is_some();
        assert!(a && b, "accumulate_ok");
        if !nulls[i] {
            rmin = Some(match rmin {
                None => xs[i],
                Some(m) => if xs[i] < m { xs[i] } else { m },
            });
            rmax = Some(match rmax {
                None => xs[i],
                Some(m) => if xs[i] > m { xs[i] } else { m },
            });
        }
        std::mem::forget(d);
        i += 1;
    }
    match (okf(mn.finalize()), okf(mx.finalize())) {
        (Some(a), Some(b)) => {
            let ok_min = match rmin {
                None => matches!(a, DataType::Null),
                Some(m) => as_i64(&a) == Some(m),
            };
            let ok_max = match rmax {
                None => matches!(b, DataType::Null),
                Some(m) => as_i64(&b) == Some(m),
            };
            assert!(ok_min, "min_ignores_nulls_and_is_the_minimum");
            assert!(ok_max, "max_ignores_nulls_and_is_the_maximum");
            std::mem::forget(a);
            std::mem::forget(b);
        }
        _ => assert!(false, "finalize_ok"),
    }
}
macro_rules! hminmax {
    ($name:ident, $a:expr, $b:expr, $c:expr) => {
        #[kani::proof]
        #[kani::unwind(5)]
        fn $name() {
            kani::cover!(true, "reach");
            minmax_case($a, $b, $c);
        }
    };
}
// @obl harness=c05_agg_minmax_vvv id=C05.aggregate[MIN,MAX/v,v,v] tier=quick funcs="Accumulator::accumulate,Accumulator::finalize,DataType::partial_cmp" bounds="group of 3 non-NULL BIGINT rows in +-2^53" unwind=5
hminmax!(c05_agg_minmax_vvv, false, false, false);
// @obl harness=c05_agg_minmax_nvv id=C05.aggregate[MIN,MAX/NULL,v,v] tier=quick funcs="Accumulator::accumulate,Accumulator::finalize,DataType::partial_cmp" bounds="group of 3 rows, first NULL, BIGINT in +-2^53" unwind=5
hminmax!(c05_agg_minmax_nvv, true, false, false);
// @obl harness=c05_agg_minmax_vnv id=C05.aggregate[MIN,MAX/v,NULL,v] tier=quick funcs="Accumulator::accumulate,Accumulator::finalize,DataType::partial_cmp" bounds="group of 3 rows, middle NULL" unwind=5
hminmax!(c05_agg_minmax_vnv, false, true, false);
// @obl harness=c05_agg_minmax_nnn id=C05.aggregate[MIN,MAX/NULL,NULL,NULL] tier=quick funcs="Accumulator::accumulate,Accumulator::finalize" bounds="all-NULL group" unwind=5
hminmax!(c05_agg_minmax_nnn, true, true, true);
// @obl harness=c05_agg_minmax_nnv id=C05.aggregate[MIN,MAX/NULL,NULL,v] tier=thorough funcs="Accumulator::accumulate,Accumulator::finalize,DataType::partial_cmp" bounds="two leading NULLs" unwind=5
hminmax!(c05_agg_minmax_nnv, true, true, false);

fn sum_case(n0: bool, n1: bool, n2: bool) {
    let xs: [i64; 3] = kani::any();
    let lim = 1i64 << 40;
    kani::assume(xs[0] >= -lim && xs[0] <= lim && xs[1] >= -lim && xs[1] <= lim && xs[2] >= -lim && xs[2] <= lim);
    let nulls = [n0, n1, n2];
    let mut sm = Accumulator::Sum { sum: None };
    let mut av = Accumulator::Avg { sum: None, count: 0 };
    let mut ct = Accumulator::Count { count: 0 };
    let mut rs: Option<i64> = None;
    let mut rn: u64 = 0;
    let mut i = 0;
    while i < 3 {
        let d = if nulls[i] { DataType::Null } else { DataType::BigInt(Int64(xs[i])) };
        let a = okf(sm.accumulate(&d)).is_some();
        let b = okf(av.accumulate(&d)).is_some();
        assert!(a && b, "accumulate_ok");
        if !nulls[i] {
            // COUNT is only fed non-NULL rows here: whether COUNT(col) must skip NULLs is the caller's business
            assert!(okf(ct.accumulate(&d)).is_some(), "accumulate_ok");
            rs = Some(rs.unwrap_or(0) + xs[i]);
            rn += 1;
        }
        std::mem::forget(d);
        i += 1;
    }
    match (okf(sm.finalize()), okf(av.finalize()), okf(ct.finalize())) {
        (Some(s), Some(a), Some(c)) => {
            let ok_sum = match rs {
                None => matches!(s, DataType::Null),
                Some(t) => as_i64(&s) == Some(t),
            };
            let ok_avg = match rs {
                None => matches!(a, DataType::Null),
                Some(t) => matches!(&a, DataType::Double(x) if x.0 == (t as f64) / (rn as f64)),
            };
            assert!(ok_sum, "sum_ignores_nulls_and_adds_the_rest");
            assert!(ok_avg, "avg_is_sum_over_count_of_non_nulls");
            assert!(as_i64(&c) == Some(rn as i64), "count_counts_rows_fed");
            std::mem::forget(s);
            std::mem::forget(a);
            std::mem::forget(c);
        }
        _ => assert!(false, "finalize_ok"),
    }
}
macro_rules! hsum {
    ($name:ident, $a:expr, $b:expr, $c:expr) => {
        #[kani::proof]
        #[kani::unwind(5)]
        #[kani::stub(std::fmt::format, stub_format)]
        fn $name() {
            kani::cover!(true, "reach");
            sum_case($a, $b, $c);
        }
    };
}
// @obl harness=c05_agg_sum_vvv id=C05.aggregate[SUM,AVG,COUNT/v,v,v] tier=off funcs="Accumulator::accumulate,Accumulator::finalize,DataType::add" stubs="std::fmt::format" bounds="3 non-NULL BIGINT rows in +-2^40 (no overflow)" unwind=5
hsum!(c05_agg_sum_vvv, false, false, false);
// @obl harness=c05_agg_sum_nvn id=C05.aggregate[SUM,AVG,COUNT/NULL,v,NULL] tier=off funcs="Accumulator::accumulate,Accumulator::finalize,DataType::add" bounds="NULL, value, NULL" unwind=5
hsum!(c05_agg_sum_nvn, true, false, true);
// @obl harness=c05_agg_sum_nnn id=C05.aggregate[SUM,AVG,COUNT/NULL,NULL,NULL] tier=off funcs="Accumulator::accumulate,Accumulator::finalize" bounds="all-NULL group" unwind=5
hsum!(c05_agg_sum_nnn, true, true, true);


// COUNT(expr) counts the rows where expr is not NULL; COUNT(*) counts rows.  The property text names this case
// ("COUNT(col) counting NULLs"); the operator feeds `accumulate` for COUNT(expr) and `accumulate_star` for COUNT(*).
fn count_case(n0: bool, n1: bool, n2: bool) {
    let xs: [i64; 3] = kani::any();
    let nulls = [n0, n1, n2];
    let mut ct = Accumulator::Count { count: 0 };
    let mut st = Accumulator::Count { count: 0 };
    let mut rn: i64 = 0;
    let mut i = 0;
    while i < 3 {
        let d = if nulls[i] { DataType::Null } else { DataType::BigInt(Int64(xs[i])) };
        assert!(okf(ct.accumulate(&d)).is_some(), "accumulate_ok");
        st.accumulate_star();
        if !nulls[i] {
            rn += 1;
        }
        std::mem::forget(d);
        i += 1;
    }
    match (okf(ct.finalize()), okf(st.finalize())) {
        (Some(c), Some(s)) => {
            assert!(as_i64(&c) == Some(rn), "count_of_an_expression_skips_nulls");
            assert!(as_i64(&s) == Some(3), "count_star_counts_every_row");
            std::mem::forget(c);
            std::mem::forget(s);
        }
        _ => assert!(false, "finalize_ok"),
    }
}
macro_rules! hcount {
    ($name:ident, $a:expr, $b:expr, $c:expr) => {
        #[kani::proof]
        #[kani::unwind(5)]
        fn $name() {
            kani::cover!(true, "reach");
            count_case($a, $b, $c);
        }
    };
}
// @obl harness=c05_agg_count_vvv id=C05.aggregate[COUNT/v,v,v] tier=quick funcs="Accumulator::accumulate,Accumulator::accumulate_star,Accumulator::finalize" bounds="group of 3 non-NULL BIGINT rows (any values)" unwind=5 native=c05_count_skips_nulls
hcount!(c05_agg_count_vvv, false, false, false);
// @obl harness=c05_agg_count_nvn id=C05.aggregate[COUNT/NULL,v,NULL] tier=quick funcs="Accumulator::accumulate,Accumulator::accumulate_star,Accumulator::finalize" bounds="NULL, value, NULL: COUNT(expr) = 1, COUNT(*) = 3" unwind=5 native=c05_count_skips_nulls
hcount!(c05_agg_count_nvn, true, false, true);
// @obl harness=c05_agg_count_nnn id=C05.aggregate[COUNT/NULL,NULL,NULL] tier=quick funcs="Accumulator::accumulate,Accumulator::accumulate_star,Accumulator::finalize" bounds="all-NULL group: COUNT(expr) = 0, COUNT(*) = 3" unwind=5 native=c05_count_skips_nulls
hcount!(c05_agg_count_nnn, true, true, true);
