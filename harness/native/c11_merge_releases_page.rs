// host: tree/tests/mod.rs
// Native scenario for C11.merged_sibling_is_released (and the free-list step obligations at tree level): while keys are
// removed from the high end, the low end and the middle of the key range, every page of the file other than page zero is
// either reachable from the root or on the free list - never both, never neither.
use super::utils::{TestConfig, TestDb, key_bytes_for_value, make_tuple, test_schema};
use crate::{
    storage::{BtreeOps, page::{BtreePage, OverflowPage}},
    tree::{accessor::BtreeWriteAccessor, bplustree::Btree},
    types::PageId,
};
use std::collections::{BTreeSet, VecDeque};

fn tree_pages(db: &TestDb, root: PageId) -> BTreeSet<PageId> {
    let mut pager = db.pager.write();
    let mut pages = BTreeSet::new();
    let mut queue = VecDeque::from([root]);
    while let Some(id) = queue.pop_front() {
        assert!(pages.insert(id), "page {id} is reachable twice from the root");
        let children: Vec<PageId> = pager.with_page::<BtreePage, _, _>(id, |p| p.iter_children().collect()).unwrap();
        queue.extend(children);
    }
    pages
}

fn free_pages(db: &TestDb, ctx: &str) -> BTreeSet<PageId> {
    let mut pager = db.pager.write();
    let mut pages = BTreeSet::new();
    let mut last = None;
    let mut cur = pager.header_unchecked().first_free_page;
    while let Some(id) = cur {
        assert!(pages.insert(id), "{ctx}: free list is cyclic at page {id}");
        last = Some(id);
        cur = pager.with_page::<OverflowPage, _, _>(id, |p| p.next()).unwrap();
    }
    assert_eq!(last, pager.header_unchecked().last_free_page, "{ctx}: recorded tail is not the end of the free list");
    pages
}

fn audit(db: &TestDb, root: PageId, ctx: &str) {
    let live = tree_pages(db, root);
    let free = free_pages(db, ctx);
    let total = db.pager.write().total_allocated_pages();
    let both: Vec<PageId> = live.intersection(&free).copied().collect();
    assert!(both.is_empty(), "{ctx}: pages {both:?} are tree nodes and free at once");
    let lost: Vec<PageId> = (1..total).filter(|id| !live.contains(id) && !free.contains(id)).collect();
    assert!(lost.is_empty(), "{ctx}: pages {lost:?} belong neither to the tree nor to the free list");
}

fn run(order: &str) {
    let config = TestConfig::default();
    let db = TestDb::new(&format!("c11_native_{order}"), &config).expect("test db");
    let schema = test_schema();
    let root = db.pager.write().allocate_page::<BtreePage>().unwrap();
    let mut tree = Btree::new(root, db.pager.clone(), config.min_keys, config.siblings).with_accessor(BtreeWriteAccessor::new());
    let n = 300u64;
    for k in 0..n {
        tree.insert(root, make_tuple(&schema, k, 1), &schema).unwrap();
    }
    audit(&db, root, "after the inserts");
    let mut keys: Vec<u64> = (0..n).collect();
    match order {
        "desc" => keys.reverse(),
        "mid" => keys.sort_by_key(|k| (*k as i64 - 150).abs()),
        _ => {}
    }
    for k in keys {
        tree.remove(root, &key_bytes_for_value(k), &schema).unwrap();
        audit(&db, root, &format!("[{order}] after deleting key {k}"));
    }
}

#[test]
#[serial_test::serial]
fn every_page_has_one_owner_while_the_tree_shrinks() {
    run("desc");
    run("asc");
    run("mid");
}
