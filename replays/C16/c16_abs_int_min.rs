// replay for obligation C16.abs[Int/MIN] (harness c16_abs_int_min)
// harness-file: c16_arith.rs
// failed: attempt to negate with overflow
// native outcome when recorded: panicked: thread 'types::__verif_c16_arith::kani_concrete_playback_c16_abs_int_min_14681435335179615594' (6938) panicked at /home/runner/.rustup/toolchains/nightly-2026-08-21-x86_64-unknown-linux-gnu/lib/rustlib/src/rust/library/core/src/num/mod.rs:429:5: | attempt to negate with overflow
// re-run: /verif/bin/check --replay /verif/replays/C16/c16_abs_int_min.rs
#[test]
fn kani_concrete_playback_c16_abs_int_min_14681435335179615594() {
    let concrete_vals: Vec<Vec<u8>> = vec![
    ];
    kani::concrete_playback_run(concrete_vals, c16_abs_int_min);
}

