// Kani harnesses (child module of crates/axmos-db/src/io/disk/mod.rs).  See /verif/HARNESS_GUIDE.md
// Intentionally empty.  The WAL harnesses need a `DBFile` but must not depend on this file: the driver injects a
// harness file only when one of ITS obligations is selected (and `--replay` injects exactly one file), so a helper
// defined here would be missing from those builds.  c17_wal_io.rs builds its never-used DBFile by transmuting a
// struct with the same field list (`f: File, p: PathBuf`) instead.
#![allow(unused_imports, dead_code, clippy::all)]
use super::*;
