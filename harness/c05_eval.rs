// Kani harnesses (child module of crates/axmos-db/src/runtime/eval.rs).  See /verif/HARNESS_GUIDE.md
// C05: the scalar kernels of the expression evaluator follow SQL three-valued logic, mathematical comparison,
//      checked integer / IEEE double arithmetic.  `eval_binary_op` / `eval_unary_op` are called DIRECTLY (private
//      methods; this is a child module).  They never touch `self.row` / `self.schema`, so the evaluator is built
//      over an empty Row and an empty Schema (its HashMap gets a fixed-key RandomState: `HashMap::new()` would
//      reach getrandom).  The recursive `evaluate` is NOT called (boxed recursion does not terminate in CBMC).
// C16: unary minus on MIN (panic) lives here too because `eval_unary_op` is private to this file.
#![allow(unused_imports, dead_code, clippy::all)]
use super::*;
use crate::types::{Float32, Float64, Int32, Int64, UInt32, UInt64};
use std::cmp::Ordering;
use std::collections::HashMap;

fn okf<T, E>(r: Result<T, E>) -> Option<T> {
    match r {
        Ok(v) => Some(v),
        Err(e) => {
            std::mem::forget(e);
            None
        }
    }
}
fn mk_schema() -> Schema {
    let rs: std::collections::hash_map::RandomState = unsafe { std::mem::transmute::<[u64; 2], _>([0u64, 0u64]) };
    Schema { columns: Vec::new(), num_keys: 0, table_constraints: None, column_index: HashMap::with_hasher(rs), table_indexes: None }
}
/// Outcome of a kernel call: Err / a single value.  (A result list of length != 1 is reported as `Many`.)
enum Out {
    Err,
    One(DataType),
    Many,
}
fn bin(ev: &ExpressionEvaluator<'_>, a: &DataType, b: &DataType, op: BinaryOperator) -> Out {
    match okf(ev.eval_binary_op(vec![a.clone()], vec![b.clone()], op, None)) {
        None => Out::Err,
        Some(mut v) => {
            let out = if v.len() == 1 {
                match v.pop() {
                    Some(x) => Out::One(x),
                    None => Out::Many,
                }
            } else {
                Out::Many
            };
            std::mem::forget(v);
            out
        }
    }
}
fn un(ev: &ExpressionEvaluator<'_>, a: &DataType, op: UnaryOperator) -> Out {
    match okf(ev.eval_unary_op(a.clone(), op, None)) {
        None => Out::Err,
        Some(x) => Out::One(x),
    }
}
fn is_null_out(o: &Out) -> bool {
    matches!(o, Out::One(DataType::Null))
}
fn is_bool_out(o: &Out, want: bool) -> bool {
    matches!(o, Out::One(DataType::Bool(Bool(b))) if *b == want)
}
macro_rules! with_ev {
    ($ev:ident, $body:block) => {{
        let row = Row::new_empty();
        let schema = mk_schema();
        {
            let $ev = ExpressionEvaluator::new(&row, &schema);
            $body
        }
        std::mem::forget(schema);
        std::mem::forget(row);
    }};
}

fn v_int() -> DataType {
    DataType::Int(Int32(kani::any()))
}
fn v_bigint() -> DataType {
    DataType::BigInt(Int64(kani::any()))
}
fn v_uint() -> DataType {
    DataType::UInt(UInt32(kani::any()))
}
fn v_biguint() -> DataType {
    DataType::BigUInt(UInt64(kani::any()))
}
fn v_float() -> DataType {
    DataType::Float(Float32(kani::any()))
}
fn v_double() -> DataType {
    DataType::Double(Float64(kani::any()))
}
fn v_bool() -> DataType {
    DataType::Bool(Bool(kani::any()))
}

// =====================================================================================================================
// AND / OR: Kleene truth tables
// =====================================================================================================================
/// SQL truth value of a Null|Bool operand: None = UNKNOWN
fn tv(d: &DataType) -> Option<bool> {
    match d {
        DataType::Bool(Bool(b)) => Some(*b),
        _ => None,
    }
}
fn and3(a: Option<bool>, b: Option<bool>) -> Option<bool> {
    if a == Some(false) || b == Some(false) {
        Some(false)
    } else if a.is_none() || b.is_none() {
        None
    } else {
        Some(true)
    }
}
fn or3(a: Option<bool>, b: Option<bool>) -> Option<bool> {
    if a == Some(true) || b == Some(true) {
        Some(true)
    } else if a.is_none() || b.is_none() {
        None
    } else {
        Some(false)
    }
}
fn out_is_tv(o: &Out, want: Option<bool>) -> bool {
    match want {
        None => is_null_out(o),
        Some(b) => is_bool_out(o, b),
    }
}
fn logic_law(ev: &ExpressionEvaluator<'_>, a: &DataType, b: &DataType) {
    let o = bin(ev, a, b, BinaryOperator::And);
    assert!(out_is_tv(&o, and3(tv(a), tv(b))), "and_follows_3vl_truth_table");
    std::mem::forget(o);
    let o = bin(ev, a, b, BinaryOperator::Or);
    assert!(out_is_tv(&o, or3(tv(a), tv(b))), "or_follows_3vl_truth_table");
    std::mem::forget(o);
}
// @obl harness=c05_binop_logic id=C05.binop[And,Or][Null|Bool_x_Null|Bool] tier=quick funcs="ExpressionEvaluator::eval_binary_op,ExpressionEvaluator::logical_and,ExpressionEvaluator::logical_or" bounds="all 9 combinations of NULL/TRUE/FALSE for both operators" unwind=4
#[kani::proof]
#[kani::unwind(4)]
fn c05_binop_logic() {
    kani::cover!(true, "reach");
    with_ev!(ev, {
        let n = DataType::Null;
        logic_law(&ev, &n, &n);
        logic_law(&ev, &n, &v_bool());
        logic_law(&ev, &v_bool(), &n);
        logic_law(&ev, &v_bool(), &v_bool());
    });
}
// a non-boolean operand of AND/OR is a type error, not a panic and not a truth value
// @obl harness=c05_binop_logic_type id=C05.binop[And,Or][Bool_x_BigInt] tier=quick funcs="ExpressionEvaluator::eval_binary_op,ExpressionEvaluator::logical_and,ExpressionEvaluator::logical_or" bounds="Bool x BigInt and BigInt x Bool, all values" unwind=4
#[kani::proof]
#[kani::unwind(4)]
fn c05_binop_logic_type() {
    kani::cover!(true, "reach");
    with_ev!(ev, {
        let (b, i) = (v_bool(), v_bigint());
        let o = bin(&ev, &b, &i, BinaryOperator::And);
        assert!(matches!(o, Out::Err), "and_non_bool_is_type_error");
        std::mem::forget(o);
        let o = bin(&ev, &i, &b, BinaryOperator::Or);
        assert!(matches!(o, Out::Err), "or_non_bool_is_type_error");
        std::mem::forget(o);
    });
}

// =====================================================================================================================
// comparisons
// =====================================================================================================================
const P53: i128 = 1i128 << 53;
fn mathval(d: &DataType) -> Result<i128, f64> {
    match d {
        DataType::Int(v) => Ok(v.0 as i128),
        DataType::BigInt(v) => Ok(v.0 as i128),
        DataType::UInt(v) => Ok(v.0 as i128),
        DataType::BigUInt(v) => Ok(v.0 as i128),
        DataType::Float(v) => Err(v.0 as f64),
        DataType::Double(v) => Err(v.0),
        _ => unreachable!(),
    }
}
fn in53(d: &DataType) -> bool {
    match mathval(d) {
        Ok(n) => n >= -P53 && n <= P53,
        Err(_) => true,
    }
}
/// exact comparison of an integer with a double (None = unordered)
fn cmp_int_f64(n: i128, x: f64) -> Option<Ordering> {
    if x.is_nan() {
        return None;
    }
    if x >= 18446744073709551616.0 {
        return Some(Ordering::Less);
    }
    if x <= -18446744073709551616.0 {
        return Some(Ordering::Greater);
    }
    let t = x.trunc();
    let ti = t as i128;
    if n < ti {
        Some(Ordering::Less)
    } else if n > ti {
        Some(Ordering::Greater)
    } else if x > t {
        Some(Ordering::Less)
    } else if x < t {
        Some(Ordering::Greater)
    } else {
        Some(Ordering::Equal)
    }
}
/// mathematical order of two numeric values; IEEE: NaN is unordered
fn mathcmp(a: &DataType, b: &DataType) -> Option<Ordering> {
    match (mathval(a), mathval(b)) {
        (Ok(x), Ok(y)) => Some(x.cmp(&y)),
        (Err(x), Err(y)) => x.partial_cmp(&y),
        (Ok(n), Err(x)) => cmp_int_f64(n, x),
        (Err(x), Ok(n)) => cmp_int_f64(n, x).map(|o| o.reverse()),
    }
}
fn cmp_one(ev: &ExpressionEvaluator<'_>, a: &DataType, b: &DataType, op: BinaryOperator, want: bool) -> bool {
    let o = bin(ev, a, b, op);
    let ok = is_bool_out(&o, want);
    std::mem::forget(o);
    ok
}
/// the six comparison operators against the order `m` (None = unordered: only <> is TRUE)
fn cmp_law(ev: &ExpressionEvaluator<'_>, a: &DataType, b: &DataType, m: Option<Ordering>) {
    let (lt, eq, gt) = (m == Some(Ordering::Less), m == Some(Ordering::Equal), m == Some(Ordering::Greater));
    assert!(cmp_one(ev, a, b, BinaryOperator::Eq, eq), "eq_matches_math");
    assert!(cmp_one(ev, a, b, BinaryOperator::Neq, !eq), "neq_matches_math");
    assert!(cmp_one(ev, a, b, BinaryOperator::Lt, lt), "lt_matches_math");
    assert!(cmp_one(ev, a, b, BinaryOperator::Le, lt || eq), "le_matches_math");
    assert!(cmp_one(ev, a, b, BinaryOperator::Gt, gt), "gt_matches_math");
    assert!(cmp_one(ev, a, b, BinaryOperator::Ge, gt || eq), "ge_matches_math");
}
macro_rules! hcmp {
    ($name:ident, $a:expr, $b:expr, |$x:ident, $y:ident| $pre:expr) => {
        #[kani::proof]
        #[kani::unwind(4)]
        fn $name() {
            let $x = $a;
            let $y = $b;
            kani::assume($pre);
            kani::cover!(true, "reach");
            with_ev!(ev, {
                let m = mathcmp(&$x, &$y);
                cmp_law(&ev, &$x, &$y, m);
            });
        }
    };
}
// @obl harness=c05_cmp_int_int id=C05.binop[Eq,Neq,Lt,Le,Gt,Ge][Int,Int] tier=quick funcs="ExpressionEvaluator::eval_binary_op,DataType::eq,DataType::partial_cmp" bounds="all i32 pairs" unwind=4
hcmp!(c05_cmp_int_int, v_int(), v_int(), |a, b| true);
// @obl harness=c05_cmp_bigint_bigint id=C05.binop[Eq,Neq,Lt,Le,Gt,Ge][BigInt,BigInt/53] tier=quick funcs="ExpressionEvaluator::eval_binary_op,DataType::eq,DataType::partial_cmp" bounds="i64 pairs within +-2^53" unwind=4
hcmp!(c05_cmp_bigint_bigint, v_bigint(), v_bigint(), |a, b| in53(&a) && in53(&b));
// @obl harness=c05_cmp_int_bigint id=C05.binop[Eq,Neq,Lt,Le,Gt,Ge][Int,BigInt/53] tier=thorough funcs="ExpressionEvaluator::eval_binary_op,DataType::eq,DataType::partial_cmp" bounds="all i32 x i64 within +-2^53" unwind=4
hcmp!(c05_cmp_int_bigint, v_int(), v_bigint(), |a, b| in53(&b));
// @obl harness=c05_cmp_double_double id=C05.binop[Eq,Neq,Lt,Le,Gt,Ge][Double,Double] tier=quick funcs="ExpressionEvaluator::eval_binary_op,DataType::eq,DataType::partial_cmp" bounds="all f64 pairs (IEEE: NaN unordered, -0.0 = +0.0)" unwind=4
hcmp!(c05_cmp_double_double, v_double(), v_double(), |a, b| true);
// @obl harness=c05_cmp_int_double id=C05.binop[Eq,Neq,Lt,Le,Gt,Ge][Int,Double] tier=quick funcs="ExpressionEvaluator::eval_binary_op,DataType::eq,DataType::partial_cmp" bounds="all i32 x all f64" unwind=4
hcmp!(c05_cmp_int_double, v_int(), v_double(), |a, b| true);
// @obl harness=c05_cmp_double_bigint id=C05.binop[Eq,Neq,Lt,Le,Gt,Ge][Double,BigInt/53] tier=thorough funcs="ExpressionEvaluator::eval_binary_op,DataType::eq,DataType::partial_cmp" bounds="all f64 x i64 within +-2^53" unwind=4
hcmp!(c05_cmp_double_bigint, v_double(), v_bigint(), |a, b| in53(&b));
// region where the pinned tree deviates: 64-bit integers beyond 2^53 are compared through f64
// @obl harness=c05_cmp_bigint_big id=C05.binop[Eq,Neq,Lt,Le,Gt,Ge][BigInt,BigInt/big] tier=quick funcs="ExpressionEvaluator::eval_binary_op,DataType::eq,DataType::partial_cmp" bounds="i64 pairs with some |v| > 2^53" unwind=4
hcmp!(c05_cmp_bigint_big, v_bigint(), v_bigint(), |a, b| !(in53(&a) && in53(&b)));
// @obl harness=c05_cmp_bool_bool id=C05.binop[Eq,Neq,Lt,Le,Gt,Ge][Bool,Bool] tier=quick funcs="ExpressionEvaluator::eval_binary_op,DataType::eq,DataType::partial_cmp" bounds="all pairs (FALSE < TRUE)" unwind=4
#[kani::proof]
#[kani::unwind(4)]
fn c05_cmp_bool_bool() {
    let (x, y): (bool, bool) = (kani::any(), kani::any());
    kani::cover!(true, "reach");
    with_ev!(ev, {
        cmp_law(&ev, &DataType::Bool(Bool(x)), &DataType::Bool(Bool(y)), Some(x.cmp(&y)));
    });
}

// full width: the comparison operators are exactly DataType's ==, !=, <, <=, >, >= (what c06_bounds.rs uses as the
// table-scan side of C06); exact or not, both plans evaluate the same function
fn delegates(ev: &ExpressionEvaluator<'_>, a: &DataType, b: &DataType) {
    assert!(cmp_one(ev, a, b, BinaryOperator::Eq, a == b), "eq_is_datatype_eq");
    assert!(cmp_one(ev, a, b, BinaryOperator::Neq, a != b), "neq_is_datatype_ne");
    assert!(cmp_one(ev, a, b, BinaryOperator::Lt, a < b), "lt_is_datatype_lt");
    assert!(cmp_one(ev, a, b, BinaryOperator::Le, a <= b), "le_is_datatype_le");
    assert!(cmp_one(ev, a, b, BinaryOperator::Gt, a > b), "gt_is_datatype_gt");
    assert!(cmp_one(ev, a, b, BinaryOperator::Ge, a >= b), "ge_is_datatype_ge");
}
// @obl harness=c05_cmp_delegates id=C05.binop_delegates[Eq,Neq,Lt,Le,Gt,Ge][BigInt,BigInt|BigInt,Double] tier=quick funcs="ExpressionEvaluator::eval_binary_op,DataType::eq,DataType::partial_cmp" bounds="all i64 pairs, all i64 x f64 (full width)" also=C06 unwind=4
#[kani::proof]
#[kani::unwind(4)]
fn c05_cmp_delegates() {
    kani::cover!(true, "reach");
    with_ev!(ev, {
        delegates(&ev, &v_bigint(), &v_bigint());
        delegates(&ev, &v_bigint(), &v_double());
    });
}

// NULL operand: every comparison and every arithmetic operator yields NULL
fn null_one(ev: &ExpressionEvaluator<'_>, a: &DataType, b: &DataType, op: BinaryOperator) {
    let o = bin(ev, a, b, op);
    assert!(is_null_out(&o), "null_operand_yields_null");
    std::mem::forget(o);
}
fn null_cmp(ev: &ExpressionEvaluator<'_>, a: &DataType, b: &DataType) {
    null_one(ev, a, b, BinaryOperator::Eq);
    null_one(ev, a, b, BinaryOperator::Neq);
    null_one(ev, a, b, BinaryOperator::Lt);
    null_one(ev, a, b, BinaryOperator::Le);
    null_one(ev, a, b, BinaryOperator::Gt);
    null_one(ev, a, b, BinaryOperator::Ge);
}
fn null_arith(ev: &ExpressionEvaluator<'_>, a: &DataType, b: &DataType) {
    null_one(ev, a, b, BinaryOperator::Plus);
    null_one(ev, a, b, BinaryOperator::Minus);
    null_one(ev, a, b, BinaryOperator::Multiply);
    null_one(ev, a, b, BinaryOperator::Divide);
    null_one(ev, a, b, BinaryOperator::Modulo);
}
// @obl harness=c05_binop_null_cmp id=C05.binop[Eq,Neq,Lt,Le,Gt,Ge][Null_x_any] tier=quick funcs="ExpressionEvaluator::eval_binary_op" bounds="NULL against NULL, Bool, BigInt, Double, both sides" unwind=4
#[kani::proof]
#[kani::unwind(4)]
fn c05_binop_null_cmp() {
    kani::cover!(true, "reach");
    with_ev!(ev, {
        let n = DataType::Null;
        null_cmp(&ev, &n, &n);
        null_cmp(&ev, &n, &v_bool());
        null_cmp(&ev, &v_bigint(), &n);
        null_cmp(&ev, &n, &v_double());
    });
}
// @obl harness=c05_binop_null_arith id=C05.binop[Plus,Minus,Multiply,Divide,Modulo][Null_x_any] tier=quick funcs="ExpressionEvaluator::eval_binary_op" bounds="NULL against NULL, Int, BigInt (0 and MIN included), Double, both sides" unwind=4
#[kani::proof]
#[kani::unwind(4)]
fn c05_binop_null_arith() {
    kani::cover!(true, "reach");
    with_ev!(ev, {
        let n = DataType::Null;
        null_arith(&ev, &n, &n);
        null_arith(&ev, &v_int(), &n);
        null_arith(&ev, &n, &v_bigint());
        null_arith(&ev, &v_double(), &n);
    });
}

// IS / IS NOT with a boolean right operand (`x IS TRUE`; `x IS NULL` is bound to IsNull and never reaches here)
// @obl harness=c05_binop_is_bool id=C05.binop[Is,IsNot][Bool,Bool] tier=quick funcs="ExpressionEvaluator::eval_binary_op" bounds="all pairs" unwind=4
#[kani::proof]
#[kani::unwind(4)]
fn c05_binop_is_bool() {
    let (x, y): (bool, bool) = (kani::any(), kani::any());
    kani::cover!(true, "reach");
    with_ev!(ev, {
        let (a, b) = (DataType::Bool(Bool(x)), DataType::Bool(Bool(y)));
        assert!(cmp_one(&ev, &a, &b, BinaryOperator::Is, x == y), "is_on_booleans");
        assert!(cmp_one(&ev, &a, &b, BinaryOperator::IsNot, x != y), "is_not_on_booleans");
    });
}
// SQL: `NULL IS TRUE` = FALSE, `NULL IS NOT TRUE` = TRUE (IS never yields UNKNOWN)
// @obl harness=c05_binop_is_null_lhs id=C05.binop[Is,IsNot][Null,Bool] tier=quick funcs="ExpressionEvaluator::eval_binary_op" bounds="NULL IS [NOT] TRUE/FALSE" unwind=4
#[kani::proof]
#[kani::unwind(4)]
fn c05_binop_is_null_lhs() {
    let y: bool = kani::any();
    kani::cover!(true, "reach");
    with_ev!(ev, {
        let (a, b) = (DataType::Null, DataType::Bool(Bool(y)));
        assert!(cmp_one(&ev, &a, &b, BinaryOperator::Is, false), "null_is_bool_is_false");
        assert!(cmp_one(&ev, &a, &b, BinaryOperator::IsNot, true), "null_is_not_bool_is_true");
    });
}

// =====================================================================================================================
// arithmetic: reference = the operands promoted as documented (types/numeric.rs) + checked i64/u64 / IEEE f64
// =====================================================================================================================
const ADD: u8 = 0;
const SUB: u8 = 1;
const MUL: u8 = 2;
const DIV: u8 = 3;
const REM: u8 = 4;
fn binop_of(op: u8) -> BinaryOperator {
    match op {
        ADD => BinaryOperator::Plus,
        SUB => BinaryOperator::Minus,
        MUL => BinaryOperator::Multiply,
        DIV => BinaryOperator::Divide,
        _ => BinaryOperator::Modulo,
    }
}
fn is_unsigned(d: &DataType) -> bool {
    matches!(d, DataType::UInt(_) | DataType::BigUInt(_))
}
fn is_floating(d: &DataType) -> bool {
    matches!(d, DataType::Float(_) | DataType::Double(_))
}
/// mathematical value of an integer operand
fn ival(d: &DataType) -> i128 {
    match mathval(d) {
        Ok(n) => n,
        Err(_) => unreachable!(),
    }
}
fn fval(d: &DataType) -> f64 {
    match d {
        DataType::Int(v) => v.0 as f64,
        DataType::BigInt(v) => v.0 as f64,
        DataType::UInt(v) => v.0 as f64,
        DataType::BigUInt(v) => v.0 as f64,
        DataType::Float(v) => v.0 as f64,
        DataType::Double(v) => v.0,
        _ => unreachable!(),
    }
}
/// Reference result.  Some(Some(v)): defined value v.  Some(None): outside the reference's domain (overflow of the
/// result type, division by zero, operand not representable in the promoted type) - nothing is claimed about the
/// value there (C16 decides whether it panics).  Integer pairs: signed if any operand is signed.
fn reference(op: u8, a: &DataType, b: &DataType) -> Option<DataType> {
    if is_floating(a) || is_floating(b) {
        let (x, y) = (fval(a), fval(b));
        let r = match op {
            ADD => x + y,
            SUB => x - y,
            MUL => x * y,
            DIV => x / y,
            _ => x % y,
        };
        return Some(DataType::Double(Float64(r)));
    }
    if is_unsigned(a) && is_unsigned(b) {
        let (x, y) = (ival(a) as u64, ival(b) as u64);
        let r = match op {
            ADD => x.checked_add(y),
            SUB => x.checked_sub(y),
            MUL => x.checked_mul(y),
            DIV => x.checked_div(y),
            _ => x.checked_rem(y),
        };
        return r.map(|v| DataType::BigUInt(UInt64(v)));
    }
    let (xa, ya) = (ival(a), ival(b));
    if xa > i64::MAX as i128 || ya > i64::MAX as i128 {
        return None; // BigUInt >= 2^63 next to a signed operand: not representable in the promoted type i64
    }
    let (x, y) = (xa as i64, ya as i64);
    let r = match op {
        ADD => x.checked_add(y),
        SUB => x.checked_sub(y),
        MUL => x.checked_mul(y),
        DIV => x.checked_div(y),
        _ => x.checked_rem(y),
    };
    r.map(|v| DataType::BigInt(Int64(v)))
}
/// bit-identical value of the same kind (NaN payloads: the reference and the code perform the same IEEE operation)
fn same_value(got: &DataType, want: &DataType) -> bool {
    match (got, want) {
        (DataType::BigInt(x), DataType::BigInt(y)) => x.0 == y.0,
        (DataType::BigUInt(x), DataType::BigUInt(y)) => x.0 == y.0,
        (DataType::Double(x), DataType::Double(y)) => x.0.to_bits() == y.0.to_bits() || (x.0.is_nan() && y.0.is_nan()),
        _ => false,
    }
}
// Cost note (measured): CBMC does not share the multiplier / divider circuit of the code with the one of the oracle, so
// "both operands symbolic" is only affordable for +,- (and * on integers, split per pair).  For *, /, % on doubles and
// /, % on integers one operand is symbolic at full width and the other is a constant (both orders): this still decides
// operator identity, operand order and the promotion of the symbolic operand for every value.
const S: u8 = 0; // symbolic operand
const C: u8 = 1; // constant operand
/// operand of kind k (0 Int, 1 BigInt, 2 UInt, 3 BigUInt, 4 Float, 5 Double): symbolic, or the constant 1000003 / 3.5
fn operand(mode: u8, k: u8) -> DataType {
    if mode == S {
        match k {
            0 => v_int(),
            1 => v_bigint(),
            2 => v_uint(),
            3 => v_biguint(),
            4 => v_float(),
            _ => v_double(),
        }
    } else {
        match k {
            0 => DataType::Int(Int32(1000003)),
            1 => DataType::BigInt(Int64(1000003)),
            2 => DataType::UInt(UInt32(1000003)),
            3 => DataType::BigUInt(UInt64(1000003)),
            4 => DataType::Float(Float32(3.5)),
            _ => DataType::Double(Float64(3.5)),
        }
    }
}
/// eval_binary_op on one pair inside the reference's domain
fn arith_eval(ev: &ExpressionEvaluator<'_>, op: u8, a: DataType, b: DataType) {
    let want = reference(op, &a, &b);
    kani::cover!(want.is_some(), "reach");
    if let Some(w) = &want {
        let o = bin(ev, &a, &b, binop_of(op));
        assert!(matches!(&o, Out::One(g) if same_value(g, w)), "arith_matches_reference");
        std::mem::forget(o);
    }
    std::mem::forget(want);
}
macro_rules! harith_eval {
    ($name:ident, $op:expr, $( ($ma:expr, $ka:expr, $mb:expr, $kb:expr) ),+) => {
        #[kani::proof]
        #[kani::unwind(4)]
        fn $name() {
            with_ev!(ev, {
                $( arith_eval(&ev, $op, operand($ma, $ka), operand($mb, $kb)); )+
            });
        }
    };
}
/// concrete operand of kind k holding the small integer v (negative only for signed kinds)
fn point(k: u8, v: i32) -> DataType {
    match k {
        0 => DataType::Int(Int32(v)),
        1 => DataType::BigInt(Int64(v as i64)),
        2 => DataType::UInt(UInt32(v as u32)),
        3 => DataType::BigUInt(UInt64(v as u64)),
        4 => DataType::Float(Float32(v as f32)),
        _ => DataType::Double(Float64(v as f64)),
    }
}
fn signed_kind(k: u8) -> bool {
    k != 2 && k != 3
}
// @obl harness=c05_binop_plus_int id=C05.binop[Plus][BigInt,BigInt|Int,Int|Int,BigInt] tier=quick funcs="ExpressionEvaluator::eval_binary_op,DataType::add" bounds="both operands symbolic, full width" assume="no i64 overflow" unwind=4
harith_eval!(c05_binop_plus_int, ADD, (S, 1, S, 1), (S, 0, S, 0), (S, 0, S, 1));
// @obl harness=c05_binop_plus_double id=C05.binop[Plus][Double,Double|Int,Double] tier=thorough funcs="ExpressionEvaluator::eval_binary_op,DataType::add" bounds="both operands symbolic, every f64 bit pattern / every i32" unwind=4
harith_eval!(c05_binop_plus_double, ADD, (S, 5, S, 5), (S, 0, S, 5));
// @obl harness=c05_binop_minus_int id=C05.binop[Minus][BigInt,BigInt|Int,Int|Int,BigInt] tier=quick funcs="ExpressionEvaluator::eval_binary_op,DataType::sub" bounds="both operands symbolic, full width" assume="no i64 overflow" unwind=4
harith_eval!(c05_binop_minus_int, SUB, (S, 1, S, 1), (S, 0, S, 0), (S, 0, S, 1));
// @obl harness=c05_binop_minus_double id=C05.binop[Minus][Double,Double|Double,BigInt] tier=thorough funcs="ExpressionEvaluator::eval_binary_op,DataType::sub" bounds="both operands symbolic, every f64 bit pattern / every i64" unwind=4
harith_eval!(c05_binop_minus_double, SUB, (S, 5, S, 5), (S, 5, S, 1));
// @obl harness=c05_binop_multiply_int id=C05.binop[Multiply][Int,Int|BigInt,BigInt] tier=thorough funcs="ExpressionEvaluator::eval_binary_op,DataType::mul" bounds="Int x Int both symbolic; BigInt symbolic (full width) x 1000003" assume="no i64 overflow" unwind=4
harith_eval!(c05_binop_multiply_int, MUL, (S, 0, S, 0), (S, 1, C, 1));
// @obl harness=c05_binop_multiply_double id=C05.binop[Multiply][Double,Double] tier=quick funcs="ExpressionEvaluator::eval_binary_op,DataType::mul" bounds="Double x 3.5 and 3.5 x Double, the other operand symbolic (every bit pattern)" unwind=4
harith_eval!(c05_binop_multiply_double, MUL, (S, 5, C, 5), (C, 5, S, 5));
// @obl harness=c05_binop_divide_int id=C05.binop[Divide][BigInt,BigInt] tier=quick funcs="ExpressionEvaluator::eval_binary_op,DataType::div" bounds="dividend 1000003, divisor symbolic full width (truncating division)" assume="divisor != 0" unwind=4
harith_eval!(c05_binop_divide_int, DIV, (C, 1, S, 1));
// @obl harness=c05_binop_divide_double id=C05.binop[Divide][Double,Double] tier=thorough funcs="ExpressionEvaluator::eval_binary_op,DataType::div" bounds="dividend symbolic (every bit pattern), divisor 3.5" unwind=4
harith_eval!(c05_binop_divide_double, DIV, (S, 5, C, 5));
// @obl harness=c05_binop_modulo id=C05.binop[Modulo][BigInt,BigInt] tier=quick funcs="ExpressionEvaluator::eval_binary_op,DataType::rem" bounds="dividend 1000003, divisor symbolic full width" assume="divisor != 0" unwind=4
harith_eval!(c05_binop_modulo, REM, (C, 1, S, 1));
// concrete points pin the conventions that the symbolic harnesses cannot afford: truncation toward zero, sign of the
// remainder = sign of the dividend, IEEE x / 0.0
// @obl harness=c05_binop_divmod_points id=C05.binop[Divide,Modulo][points] tier=quick funcs="ExpressionEvaluator::eval_binary_op,DataType::div,DataType::rem" bounds="(+-17) op (+-5) on BigInt, Int; 1.0 / 0.0, -1.0 / 0.0, 0.0 / 0.0 on Double (concrete)" unwind=4
#[kani::proof]
#[kani::unwind(4)]
fn c05_binop_divmod_points() {
    kani::cover!(true, "reach");
    with_ev!(ev, {
        let q = |a: DataType, b: DataType, op: BinaryOperator| bin(&ev, &a, &b, op);
        let o = q(point(1, -17), point(1, 5), BinaryOperator::Divide);
        assert!(matches!(&o, Out::One(DataType::BigInt(v)) if v.0 == -3), "integer_division_truncates_toward_zero");
        std::mem::forget(o);
        let o = q(point(1, 17), point(1, -5), BinaryOperator::Divide);
        assert!(matches!(&o, Out::One(DataType::BigInt(v)) if v.0 == -3), "integer_division_truncates_toward_zero");
        std::mem::forget(o);
        let o = q(point(1, -17), point(1, 5), BinaryOperator::Modulo);
        assert!(matches!(&o, Out::One(DataType::BigInt(v)) if v.0 == -2), "remainder_has_sign_of_dividend");
        std::mem::forget(o);
        let o = q(point(0, 17), point(0, -5), BinaryOperator::Modulo);
        assert!(matches!(&o, Out::One(DataType::BigInt(v)) if v.0 == 2), "remainder_has_sign_of_dividend");
        std::mem::forget(o);
        // (no concrete law for Double % Double: CBMC's model of f64 `%` is not fmod, e.g. -17.0 % 5.0 != -2.0 there)
        let o = q(point(5, 1), point(5, 0), BinaryOperator::Divide);
        assert!(matches!(&o, Out::One(DataType::Double(v)) if v.0 == f64::INFINITY), "double_division_by_zero_is_ieee");
        std::mem::forget(o);
        let o = q(point(5, -1), point(5, 0), BinaryOperator::Divide);
        assert!(matches!(&o, Out::One(DataType::Double(v)) if v.0 == f64::NEG_INFINITY), "double_division_by_zero_is_ieee");
        std::mem::forget(o);
        let o = q(point(5, 0), point(5, 0), BinaryOperator::Divide);
        assert!(matches!(&o, Out::One(DataType::Double(v)) if v.0.is_nan()), "double_division_by_zero_is_ieee");
        std::mem::forget(o);
    });
}

// ---- C05.value_arith: DataType::{add,sub,mul,div,rem} directly, every numeric type pair ---------------------------
fn value_op(op: u8, a: &DataType, b: &DataType) -> Option<DataType> {
    okf(match op {
        ADD => a.add(b),
        SUB => a.sub(b),
        MUL => a.mul(b),
        DIV => a.div(b),
        _ => a.rem(b),
    })
}
fn value_pair(op: u8, a: DataType, b: DataType) {
    let want = reference(op, &a, &b);
    kani::cover!(want.is_some(), "reach");
    if let Some(w) = &want {
        let r = value_op(op, &a, &b);
        assert!(matches!(&r, Some(g) if same_value(g, w)), "value_arith_matches_reference");
        std::mem::forget(r);
    }
    std::mem::forget(want);
}
/// every ordered pair of kinds (i, j), lo <= i < hi, that is an integer pair (float = false) resp. has a Float/Double
/// operand (float = true); operands symbolic (S) or the constant 1000003 / 3.5 (C)
fn pairs(op: u8, ma: u8, mb: u8, float: bool, lo: u8, hi: u8) {
    let mut i = lo;
    while i < hi {
        let mut j = 0u8;
        while j < 6 {
            if (i >= 4 || j >= 4) == float {
                value_pair(op, operand(ma, i), operand(mb, j));
            }
            j += 1;
        }
        i += 1;
    }
}
/// the same pairs at concrete points: 17 op 5, and -17 op 5 / 17 op -5 where the kind is signed
fn points(op: u8, float: bool) {
    let mut i = 0u8;
    while i < 6 {
        let mut j = 0u8;
        while j < 6 {
            if (i >= 4 || j >= 4) == float {
                value_pair(op, point(i, 17), point(j, 5));
                if signed_kind(i) {
                    value_pair(op, point(i, -17), point(j, 5));
                }
                if signed_kind(j) {
                    value_pair(op, point(i, 17), point(j, -5));
                }
            }
            j += 1;
        }
        i += 1;
    }
}
macro_rules! hvalue {
    ($name:ident, $op:expr, $ma:expr, $mb:expr, $float:expr, $lo:expr, $hi:expr) => {
        #[kani::proof]
        #[kani::unwind(8)]
        fn $name() {
            pairs($op, $ma, $mb, $float, $lo, $hi);
        }
    };
}
macro_rules! hpoints {
    ($name:ident, $op:expr, $float:expr) => {
        #[kani::proof]
        #[kani::unwind(8)]
        fn $name() {
            points($op, $float);
        }
    };
}
macro_rules! hvalue_list {
    ($name:ident, $( ($op:expr, $ma:expr, $ka:expr, $mb:expr, $kb:expr) ),+) => {
        #[kani::proof]
        #[kani::unwind(4)]
        fn $name() {
            $( value_pair($op, operand($ma, $ka), operand($mb, $kb)); )+
        }
    };
}
// integers: + and - with both operands symbolic for all 16 pairs --------------------------------------------------
// @obl harness=c05_value_add_int id=C05.value_arith[add][16_integer_pairs] tier=quick funcs="DataType::add,Promote::promote_lhs,Promote::promote_rhs" bounds="every ordered pair of {Int,BigInt,UInt,BigUInt}, both operands symbolic, full width" assume="operands representable in the promoted type, result representable (no overflow)" unwind=8
hvalue!(c05_value_add_int, ADD, S, S, false, 0, 4);
// @obl harness=c05_value_sub_int id=C05.value_arith[sub][16_integer_pairs] tier=quick funcs="DataType::sub,Promote::promote_lhs,Promote::promote_rhs" bounds="every ordered pair of {Int,BigInt,UInt,BigUInt}, both operands symbolic, full width" assume="operands representable in the promoted type, result representable (no overflow)" unwind=8
hvalue!(c05_value_sub_int, SUB, S, S, false, 0, 4);
// integers: *, /, % at concrete points for all 16 pairs, symbolic for representative pairs
// @obl harness=c05_value_muldivrem_int_points id=C05.value_arith[mul,div,rem][16_integer_pairs/points] tier=thorough funcs="DataType::mul,DataType::div,DataType::rem,Promote::promote_lhs,Promote::promote_rhs" bounds="every ordered integer pair at 17 op 5, -17 op 5, 17 op -5 (concrete: operator identity, operand order, truncation and sign conventions)" unwind=8
#[kani::proof]
#[kani::unwind(8)]
fn c05_value_muldivrem_int_points() {
    points(MUL, false);
    points(DIV, false);
    points(REM, false);
}
// @obl harness=c05_value_mul_narrow_signed id=C05.value_arith[mul][Int,Int|Int,UInt] tier=thorough funcs="DataType::mul,Promote::promote_lhs,Promote::promote_rhs" bounds="both symbolic, every value"
hvalue_list!(c05_value_mul_narrow_signed, (MUL, S, 0, S, 0), (MUL, S, 0, S, 2));
// @obl harness=c05_value_mul_narrow_unsigned id=C05.value_arith[mul][UInt,Int|UInt,UInt] tier=thorough funcs="DataType::mul,Promote::promote_lhs,Promote::promote_rhs" bounds="both symbolic, every value"
hvalue_list!(c05_value_mul_narrow_unsigned, (MUL, S, 2, S, 0), (MUL, S, 2, S, 2));
// @obl harness=c05_value_mul_wide_const id=C05.value_arith[mul][BigInt,BigInt|BigUInt,BigUInt|BigInt,BigUInt/sym_x_const] tier=thorough funcs="DataType::mul,Promote::promote_lhs,Promote::promote_rhs" bounds="left operand symbolic full width, right operand 1000003" assume="no overflow"
hvalue_list!(c05_value_mul_wide_const, (MUL, S, 1, C, 1), (MUL, S, 3, C, 3), (MUL, S, 1, C, 3));
// @obl harness=c05_value_mul_signed id=C05.value_arith[mul][BigInt,BigInt] tier=thorough funcs="DataType::mul,Promote::promote_lhs,Promote::promote_rhs" bounds="both symbolic, full width" assume="i64 product representable"
hvalue_list!(c05_value_mul_signed, (MUL, S, 1, S, 1));
// @obl harness=c05_value_mul_unsigned id=C05.value_arith[mul][UInt,BigUInt|BigUInt,BigUInt] tier=thorough funcs="DataType::mul,Promote::promote_lhs,Promote::promote_rhs" bounds="both symbolic, full width" assume="u64 product representable"
hvalue_list!(c05_value_mul_unsigned, (MUL, S, 2, S, 3), (MUL, S, 3, S, 3));
// @obl harness=c05_value_div_int_cs id=C05.value_arith[div][BigInt,BigInt|Int,Int/const_/_sym] tier=thorough funcs="DataType::div,Promote::promote_lhs,Promote::promote_rhs" bounds="dividend 1000003, divisor symbolic full width" assume="divisor != 0"
hvalue_list!(c05_value_div_int_cs, (DIV, C, 1, S, 1), (DIV, C, 0, S, 0));
// @obl harness=c05_value_div_uint_cs id=C05.value_arith[div][BigUInt,BigUInt|BigInt,UInt/const_/_sym] tier=thorough funcs="DataType::div,Promote::promote_lhs,Promote::promote_rhs" bounds="dividend 1000003, divisor symbolic full width" assume="divisor != 0"
hvalue_list!(c05_value_div_uint_cs, (DIV, C, 3, S, 3), (DIV, C, 1, S, 2));
// @obl harness=c05_value_rem_int_cs id=C05.value_arith[rem][BigInt,BigInt/const_%_sym] tier=thorough funcs="DataType::rem,Promote::promote_lhs,Promote::promote_rhs" bounds="dividend 1000003, divisor symbolic full width" assume="divisor != 0"
hvalue_list!(c05_value_rem_int_cs, (REM, C, 1, S, 1));
// @obl harness=c05_value_rem_uint_cs id=C05.value_arith[rem][BigUInt,BigUInt/const_%_sym] tier=thorough funcs="DataType::rem,Promote::promote_lhs,Promote::promote_rhs" bounds="dividend 1000003, divisor symbolic full width" assume="divisor != 0"
hvalue_list!(c05_value_rem_uint_cs, (REM, C, 3, S, 3));
// (dropped: symbolic dividend / constant divisor 1000003 on BigInt does not finish in 600 s - CBMC encodes division
//  relationally (q*b + r = a), so comparing the code's quotient with the oracle's needs a uniqueness proof over two
//  64-bit multipliers.  The constant-dividend harnesses above and the concrete points are what is affordable.)
// floats: + with one symbolic operand (each side) for all 20 pairs: decides every `as f64` promotion at full width ---
// @obl harness=c05_value_add_float_sc_a id=C05.value_arith[add][float_pairs,left_integer_kind/sym_+_const] tier=thorough funcs="DataType::add,Promote::promote_lhs,Promote::promote_rhs" bounds="the 8 ordered float pairs whose left kind is Int, BigInt, UInt or BigUInt; left operand symbolic (full width / every bit pattern), right operand 3.5 resp. 1000003" unwind=8
hvalue!(c05_value_add_float_sc_a, ADD, S, C, true, 0, 4);
// @obl harness=c05_value_add_float_sc_b id=C05.value_arith[add][float_pairs,left_Float|Double/sym_+_const] tier=thorough funcs="DataType::add,Promote::promote_lhs,Promote::promote_rhs" bounds="the 12 ordered pairs Float|Double x any kind; left operand symbolic, right constant" unwind=8
hvalue!(c05_value_add_float_sc_b, ADD, S, C, true, 4, 6);
// @obl harness=c05_value_add_float_cs_a id=C05.value_arith[add][float_pairs,left_integer_kind/const_+_sym] tier=thorough funcs="DataType::add,Promote::promote_lhs,Promote::promote_rhs" bounds="the 8 ordered float pairs whose left kind is Int, BigInt, UInt or BigUInt; right operand symbolic, left constant" unwind=8
hvalue!(c05_value_add_float_cs_a, ADD, C, S, true, 0, 4);
// @obl harness=c05_value_add_float_cs_b id=C05.value_arith[add][float_pairs,left_Float|Double/const_+_sym] tier=thorough funcs="DataType::add,Promote::promote_lhs,Promote::promote_rhs" bounds="the 12 ordered pairs Float|Double x any kind; right operand symbolic, left constant" unwind=8
hvalue!(c05_value_add_float_cs_b, ADD, C, S, true, 4, 6);
// floats: -, *, /, % at concrete points for all 20 pairs
// @obl harness=c05_value_float_points_submul id=C05.value_arith[sub,mul][20_float_pairs/points] tier=thorough funcs="DataType::sub,DataType::mul,Promote::promote_lhs,Promote::promote_rhs" bounds="every ordered pair with a Float/Double operand at 17 op 5, -17 op 5, 17 op -5 (concrete)" unwind=8
#[kani::proof]
#[kani::unwind(8)]
fn c05_value_float_points_submul() {
    points(SUB, true);
    points(MUL, true);
}
// @obl harness=c05_value_float_points_divrem id=C05.value_arith[div,rem][20_float_pairs/points] tier=thorough funcs="DataType::div,DataType::rem,Promote::promote_lhs,Promote::promote_rhs" bounds="every ordered pair with a Float/Double operand at 17 op 5, -17 op 5, 17 op -5 (concrete; % compared with CBMC's own model of f64 %)" unwind=8
#[kani::proof]
#[kani::unwind(8)]
fn c05_value_float_points_divrem() {
    points(DIV, true);
    points(REM, true);
}
// floats: symbolic operands for representative pairs
// @obl harness=c05_value_float_ss id=C05.value_arith[add,sub][Float,Float|BigInt,Double] tier=thorough funcs="DataType::add,DataType::sub" bounds="both operands symbolic, every bit pattern / every i64"
hvalue_list!(c05_value_float_ss, (ADD, S, 4, S, 4), (SUB, S, 1, S, 5));
// @obl harness=c05_value_float_sc id=C05.value_arith[sub,mul,div][Double,Double|Float,Double|BigInt,Double/sym_op_const] tier=thorough funcs="DataType::sub,DataType::mul,DataType::div" bounds="left operand symbolic (every bit pattern / every i64), right operand 3.5; for - and * also 3.5 op symbolic"
hvalue_list!(c05_value_float_sc, (SUB, S, 5, C, 5), (SUB, C, 5, S, 5), (MUL, S, 5, C, 5), (MUL, C, 4, S, 5), (MUL, S, 1, C, 5), (DIV, S, 5, C, 5));

// A BigUInt >= 2^63 next to a signed operand is silently reinterpreted as a negative i64 (`rhs.0 as i64`): where the
// code does not panic it returns a wrong value.  Reference here: exact integer arithmetic (i128).
// @obl harness=c05_value_add_biguint_wrap id=C05.value_arith[add][BigInt_x_BigUInt>=2^63] tier=quick funcs="DataType::add,Promote::promote_rhs" bounds="all i64 x u64 >= 2^63 whose wrapped i64 sum does not overflow (no panic)"
#[kani::proof]
#[kani::unwind(4)]
fn c05_value_add_biguint_wrap() {
    let (x, y): (i64, u64) = (kani::any(), kani::any());
    kani::assume(y > i64::MAX as u64);
    kani::assume(x.checked_add(y as i64).is_some()); // the code's own i64 addition does not trap
    kani::cover!(true, "reach");
    let r = value_op(ADD, &DataType::BigInt(Int64(x)), &DataType::BigUInt(UInt64(y)));
    let exact = x as i128 + y as i128;
    let ok = match &r {
        Some(DataType::BigInt(v)) => v.0 as i128 == exact,
        Some(DataType::BigUInt(v)) => v.0 as i128 == exact,
        Some(_) => false,
        None => true, // an error would be an acceptable answer
    };
    assert!(ok, "value_arith_is_exact_or_error");
    std::mem::forget(r);
}

// =====================================================================================================================
// unary operators
// =====================================================================================================================
// @obl harness=c05_unary_not id=C05.unop[Not][Null|Bool|BigInt] tier=quick funcs="ExpressionEvaluator::eval_unary_op" bounds="NOT NULL = NULL, NOT TRUE = FALSE, NOT FALSE = TRUE; NOT <integer> is a type error" unwind=4
#[kani::proof]
#[kani::unwind(4)]
fn c05_unary_not() {
    let b: bool = kani::any();
    kani::cover!(true, "reach");
    with_ev!(ev, {
        let o = un(&ev, &DataType::Null, UnaryOperator::Not);
        assert!(is_null_out(&o), "not_null_is_null");
        std::mem::forget(o);
        let o = un(&ev, &DataType::Bool(Bool(b)), UnaryOperator::Not);
        assert!(is_bool_out(&o, !b), "not_negates");
        std::mem::forget(o);
        let o = un(&ev, &v_bigint(), UnaryOperator::Not);
        assert!(matches!(o, Out::Err), "not_on_non_bool_is_type_error");
        std::mem::forget(o);
    });
}
// @obl harness=c05_unary_minus id=C05.unop[Minus,Plus][Null|Int|BigInt|Float|Double] tier=quick funcs="ExpressionEvaluator::eval_unary_op" bounds="every value except Int/BigInt MIN (see C16.unary_minus)" assume="operand != MIN" unwind=4
#[kani::proof]
#[kani::unwind(4)]
fn c05_unary_minus() {
    let (i, l, f, d): (i32, i64, f32, f64) = (kani::any(), kani::any(), kani::any(), kani::any());
    kani::assume(i != i32::MIN && l != i64::MIN);
    kani::cover!(true, "reach");
    with_ev!(ev, {
        let o = un(&ev, &DataType::Null, UnaryOperator::Minus);
        assert!(is_null_out(&o), "minus_null_is_null");
        std::mem::forget(o);
        let o = un(&ev, &DataType::Int(Int32(i)), UnaryOperator::Minus);
        assert!(matches!(&o, Out::One(DataType::Int(r)) if r.0 as i64 == -(i as i64)), "minus_negates_int");
        std::mem::forget(o);
        let o = un(&ev, &DataType::BigInt(Int64(l)), UnaryOperator::Minus);
        assert!(matches!(&o, Out::One(DataType::BigInt(r)) if r.0 as i128 == -(l as i128)), "minus_negates_bigint");
        std::mem::forget(o);
        let o = un(&ev, &DataType::Float(Float32(f)), UnaryOperator::Minus);
        assert!(matches!(&o, Out::One(DataType::Float(r)) if r.0.to_bits() == (f.to_bits() ^ 0x8000_0000)), "minus_flips_sign_float");
        std::mem::forget(o);
        let o = un(&ev, &DataType::Double(Float64(d)), UnaryOperator::Minus);
        assert!(matches!(&o, Out::One(DataType::Double(r)) if r.0.to_bits() == (d.to_bits() ^ (1u64 << 63))), "minus_flips_sign_double");
        std::mem::forget(o);
        let o = un(&ev, &DataType::BigInt(Int64(l)), UnaryOperator::Plus);
        assert!(matches!(&o, Out::One(DataType::BigInt(r)) if r.0 == l), "plus_is_identity");
        std::mem::forget(o);
        let o = un(&ev, &DataType::Null, UnaryOperator::Plus);
        assert!(is_null_out(&o), "plus_null_is_null");
        std::mem::forget(o);
        let o = un(&ev, &v_bool(), UnaryOperator::Minus);
        assert!(matches!(o, Out::Err), "minus_on_bool_is_type_error");
        std::mem::forget(o);
    });
}
// @obl harness=c16_unary_minus_int_min id=C16.unary_minus[Int/MIN] tier=quick funcs="ExpressionEvaluator::eval_unary_op" bounds="-(Int(i32::MIN))" unwind=4
#[kani::proof]
#[kani::unwind(4)]
fn c16_unary_minus_int_min() {
    kani::cover!(true, "reach");
    with_ev!(ev, {
        let o = un(&ev, &DataType::Int(Int32(i32::MIN)), UnaryOperator::Minus);
        std::mem::forget(o);
    });
}
// @obl harness=c16_unary_minus_bigint_min id=C16.unary_minus[BigInt/MIN] tier=quick funcs="ExpressionEvaluator::eval_unary_op" bounds="-(BigInt(i64::MIN))" unwind=4
#[kani::proof]
#[kani::unwind(4)]
fn c16_unary_minus_bigint_min() {
    kani::cover!(true, "reach");
    with_ev!(ev, {
        let o = un(&ev, &DataType::BigInt(Int64(i64::MIN)), UnaryOperator::Minus);
        std::mem::forget(o);
    });
}
// ABS(x) as the evaluator calls it (`Abs::call`): MIN panics, everything else is |x|
// @obl harness=c16_abs_call_min id=C16.abs_call[Int/MIN|BigInt/MIN] tier=quick funcs="Abs::call,DataType::abs" bounds="ABS(Int MIN), ABS(BigInt MIN)" unwind=4
#[kani::proof]
#[kani::unwind(4)]
fn c16_abs_call_min() {
    let which: bool = kani::any();
    kani::cover!(true, "reach");
    let arg = if which { DataType::Int(Int32(i32::MIN)) } else { DataType::BigInt(Int64(i64::MIN)) };
    let r = okf(Abs::call(vec![arg]));
    std::mem::forget(r);
}


