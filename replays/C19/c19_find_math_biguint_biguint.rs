// replay for obligation C19.cmp_matches_math[BigUInt,BigUInt/big] (harness c19_find_math_biguint_biguint)
// harness-file: c19_types.rs
// failed: cmp_matches_math
// native outcome when recorded: panicked: thread 'types::__verif_c19_types::kani_concrete_playback_c19_find_math_biguint_biguint_3719998859468382925' (14033) panicked at /var/tmp/axv-c19-6fdwgloi/src/crates/axmos-db/src/__verif/c19_types.rs:421:1: | cmp_matches_math
// re-run: /verif/bin/check --replay /verif/replays/C19/c19_find_math_biguint_biguint.rs
#[test]
fn kani_concrete_playback_c19_find_math_biguint_biguint_3719998859468382925() {
    let concrete_vals: Vec<Vec<u8>> = vec![
        // 396316767208603604ul
        vec![212, 255, 255, 255, 255, 255, 127, 5],
        // 396316767208603606ul
        vec![214, 255, 255, 255, 255, 255, 127, 5],
    ];
    kani::concrete_playback_run(concrete_vals, c19_find_math_biguint_biguint);
}

#[test]
fn kani_concrete_playback_c19_find_math_biguint_biguint_6627475300568735338() {
    let concrete_vals: Vec<Vec<u8>> = vec![
        // 9223372036854775808ul
        vec![0, 0, 0, 0, 0, 0, 0, 128],
        // 0ul
        vec![0, 0, 0, 0, 0, 0, 0, 0],
    ];
    kani::concrete_playback_run(concrete_vals, c19_find_math_biguint_biguint);
}

