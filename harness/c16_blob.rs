// Kani harnesses (child module of crates/axmos-db/src/types/blob.rs).  See /verif/HARNESS_GUIDE.md
// C16.like      : LIKE matching terminates and never panics on any data <= 4 bytes x pattern <= 3 bytes
// C05.like_ref  : ... and returns what a reference matcher returns (% any sequence, _ one byte, \ escapes the next byte)
// C16.decoders  : VarInt / Blob / fixed-size decoders on arbitrary bytes: Ok or Err, never a panic
#![allow(unused_imports, dead_code, clippy::all)]
use super::*;
use crate::types::DataTypeKind;

fn okf<T, E>(r: Result<T, E>) -> Option<T> {
    match r {
        Ok(v) => Some(v),
        Err(e) => {
            std::mem::forget(e);
            None
        }
    }
}

// =====================================================================================================================
// LIKE
// =====================================================================================================================
const DMAX: usize = 4;
const PMAX: usize = 3;
/// Reference matcher, the textbook recursion
///   m(i, j) = [j = |p|] i = |d|
///           | [p[j] = '\', j+1 < |p|] i < |d| && d[i] = p[j+1] && m(i+1, j+2)
///           | [p[j] = '%'] m(i, j+1) || (i < |d| && m(i+1, j))
///           | [p[j] = '_'] i < |d| && m(i+1, j+1)
///           | [otherwise]  i < |d| && d[i] = p[j] && m(i+1, j+1)
/// tabulated bottom-up over the fixed 5 x 4 table (recursion would need its own unwinding).
fn ref_like(d: &[u8; DMAX], n: usize, p: &[u8; PMAX], m: usize) -> bool {
    let mut t = [[false; PMAX + 1]; DMAX + 2];
    let mut jj = 0;
    while jj <= PMAX {
        let j = PMAX - jj;
        let mut ii = 0;
        while ii <= DMAX {
            let i = DMAX - ii;
            t[i][j] = if i > n || j > m {
                false
            } else if j == m {
                i == n
            } else {
                let c = p[j];
                if c == b'\\' {
                    j + 1 < m && i < n && d[i] == p[j + 1] && t[i + 1][j + 2]
                } else if c == b'%' {
                    t[i][j + 1] || (i < n && t[i + 1][j])
                } else if c == b'_' {
                    i < n && t[i + 1][j + 1]
                } else {
                    i < n && d[i] == c && t[i + 1][j + 1]
                }
            };
            ii += 1;
        }
        jj += 1;
    }
    t[0][0]
}
struct Shape {
    well_formed: bool,     // no dangling escape at the end
    has_escape: bool,      // some unescaped '\'
    unescaped_pct: bool,   // some unescaped '%'
    pct_before_esc: bool,  // an unescaped '%' occurs before an escape
    ends_with_pct: bool,   // last byte is '%'
}
fn shape(p: &[u8; PMAX], m: usize) -> Shape {
    let mut s = Shape { well_formed: true, has_escape: false, unescaped_pct: false, pct_before_esc: false, ends_with_pct: false };
    let mut esc_next = false;
    let mut j = 0;
    while j < PMAX {
        if j < m {
            if esc_next {
                esc_next = false;
            } else if p[j] == b'\\' {
                s.has_escape = true;
                if s.unescaped_pct {
                    s.pct_before_esc = true;
                }
                esc_next = true;
            } else if p[j] == b'%' {
                s.unescaped_pct = true;
            }
            if j + 1 == m {
                s.ends_with_pct = p[j] == b'%';
            }
        }
        j += 1;
    }
    s.well_formed = !esc_next;
    s
}
struct LikeIn {
    d: [u8; DMAX],
    n: usize,
    p: [u8; PMAX],
    m: usize,
}
fn like_in() -> LikeIn {
    let x = LikeIn { d: kani::any(), n: kani::any(), p: kani::any(), m: kani::any() };
    kani::assume(x.n <= DMAX && x.m <= PMAX);
    x
}
// Loop bound: every iteration of the main loop of match_pattern advances pattern_idx, advances data_idx or backtracks
// (which strictly increases backtrack_data_idx <= |data|); exhaustive native enumeration over {a,b,%,_,\} gives at most
// 12 iterations for |data| <= 4, |pattern| <= 3.  unwind 14 covers it and the unwinding assertions confirm it for all bytes.
// @obl harness=c16_like_total id=C16.like[data<=4,pattern<=3] tier=quick funcs="BlobRef::like_bytes,BlobRef::match_pattern,BlobRef::data,VarInt::from_encoded_bytes" bounds="every data of 0..=4 bytes (as an encoded blob), every pattern of 0..=3 bytes (dangling escapes included)" unwind=14
#[kani::proof]
#[kani::unwind(14)]
fn c16_like_total() {
    let x = like_in();
    let mut enc = [0u8; DMAX + 1];
    enc[0] = (2 * x.n) as u8; // zig-zag varint of the data length
    enc[1..].copy_from_slice(&x.d);
    kani::cover!(x.n == DMAX && x.m == PMAX, "reach");
    let blob = BlobRef::from(&enc[..x.n + 1]);
    let r = okf(blob.like_bytes(&x.p[..x.m]));
    assert!(r.is_some(), "like_on_well_formed_blob_is_ok");
}
fn like_agrees(x: &LikeIn) {
    // through the entry point the evaluator uses (BlobRef::like_bytes on the stored, length-prefixed value), so that a
    // shortcut placed in front of the matcher is checked against the reference as well
    let mut enc = [0u8; DMAX + 1];
    enc[0] = (2 * x.n) as u8; // zig-zag varint of the data length
    enc[1..].copy_from_slice(&x.d);
    let blob = BlobRef::from(&enc[..x.n + 1]);
    let got = okf(blob.like_bytes(&x.p[..x.m]));
    let want = ref_like(&x.d, x.n, &x.p, x.m);
    assert!(got == Some(want), "like_matches_reference");
}
// @obl harness=c05_like_ref_plain id=C05.like_ref[no_escape] tier=quick funcs="BlobRef::like_bytes,BlobRef::match_pattern" bounds="data 0..=4 bytes, pattern 0..=3 bytes without backslash" unwind=14
#[kani::proof]
#[kani::unwind(14)]
fn c05_like_ref_plain() {
    let x = like_in();
    let s = shape(&x.p, x.m);
    kani::assume(!s.has_escape);
    kani::cover!(x.n == DMAX && x.m == PMAX, "reach");
    like_agrees(&x);
}
// @obl harness=c05_like_ref_escape_ok id=C05.like_ref[escape,no_%_before_it,not_ending_in_escaped_%] tier=quick funcs="BlobRef::like_bytes,BlobRef::match_pattern" bounds="data 0..=4 bytes, pattern 0..=3 bytes with an escape" assume="pattern does not end in a dangling backslash" unwind=14
#[kani::proof]
#[kani::unwind(14)]
fn c05_like_ref_escape_ok() {
    let x = like_in();
    let s = shape(&x.p, x.m);
    kani::assume(s.has_escape && s.well_formed);
    kani::assume(!s.pct_before_esc && !(s.ends_with_pct && !s.unescaped_pct));
    kani::cover!(x.n == DMAX && x.m == PMAX, "reach");
    like_agrees(&x);
}
// failing region 1: after a mismatch on an escaped byte the matcher backtracks to the `%` but keeps `in_escape` set
// @obl harness=c05_like_ref_escape_after_pct id=C05.like_ref[escape_after_%] tier=quick funcs="BlobRef::like_bytes,BlobRef::match_pattern" bounds="data 0..=4 bytes, pattern 0..=3 bytes with an unescaped % before an escape" assume="pattern does not end in a dangling backslash" unwind=14
#[kani::proof]
#[kani::unwind(14)]
fn c05_like_ref_escape_after_pct() {
    let x = like_in();
    let s = shape(&x.p, x.m);
    kani::assume(s.has_escape && s.well_formed && s.pct_before_esc);
    kani::cover!(x.n == DMAX && x.m == PMAX, "reach");
    like_agrees(&x);
}
// failing region 2: "pattern exhausted, data left" accepts when the last pattern byte is '%' even if that % was escaped
// @obl harness=c05_like_ref_trailing_escaped_pct id=C05.like_ref[ends_in_escaped_%,no_wildcard_%] tier=quick funcs="BlobRef::like_bytes,BlobRef::match_pattern" bounds="data 0..=4 bytes, pattern 0..=3 bytes ending in \\% without an unescaped %" unwind=14
#[kani::proof]
#[kani::unwind(14)]
fn c05_like_ref_trailing_escaped_pct() {
    let x = like_in();
    let s = shape(&x.p, x.m);
    kani::assume(s.has_escape && s.well_formed && !s.pct_before_esc && s.ends_with_pct && !s.unescaped_pct);
    kani::cover!(x.n == DMAX && x.m >= 2, "reach");
    like_agrees(&x);
}

// =====================================================================================================================
// decoders on arbitrary bytes.  Precondition for `deserialize(buffer, cursor)`: cursor <= buffer.len()
// (a cursor beyond the buffer is a caller bug, not input data).
// =====================================================================================================================
const BMAX: usize = 12;
/// independent LEB128 reader: (raw zig-zag value, bytes used)
fn ref_varint(b: &[u8; BMAX], start: usize, n: usize) -> Option<(u64, usize)> {
    let mut raw = 0u64;
    let mut i = 0;
    while i < MAX_VARINT_LEN {
        if start + i >= n {
            return None;
        }
        let byte = b[start + i];
        raw |= ((byte & 0x7f) as u64) << (7 * i);
        if byte & 0x80 == 0 {
            return Some((raw, i + 1));
        }
        i += 1;
    }
    None
}
// @obl harness=c16_varint_total id=C16.decoders[VarInt/<=12] tier=quick funcs="VarInt::from_encoded_bytes,VarInt::value" bounds="every byte string of length 0..=12" unwind=13
#[kani::proof]
#[kani::unwind(13)]
fn c16_varint_total() {
    let b: [u8; BMAX] = kani::any();
    let n: usize = kani::any();
    kani::assume(n <= BMAX);
    kani::cover!(n == BMAX, "reach");
    match okf(VarInt::from_encoded_bytes(&b[..n])) {
        Some((vi, used)) => {
            assert!(used >= 1 && used <= MAX_VARINT_LEN && used <= n, "varint_used_within_buffer");
            assert!(b[used - 1] & 0x80 == 0, "varint_ends_at_terminator");
            let v = vi.value(); // must not hit unreachable!()
            match ref_varint(&b, 0, n) {
                Some((raw, u)) => assert!(u == used && VarInt::encode_zigzag(v) == raw, "varint_value_matches_reference"),
                None => assert!(false, "varint_accepts_only_terminated"),
            }
        }
        None => assert!(ref_varint(&b, 0, n).is_none(), "varint_rejects_only_unterminated"),
    }
}
/// length prefixes for which `offset + len as usize` wraps: negative length -k with k <= offset
fn blob_len_wraps(b: &[u8; BMAX], start: usize, n: usize) -> bool {
    match ref_varint(b, start, n) {
        Some((raw, used)) => raw & 1 == 1 && (raw >> 1) < used as u64,
        None => false,
    }
}
fn blob_decode(b: &[u8; BMAX], n: usize, cursor: usize) {
    match okf(Blob::reinterpret_cast(&b[cursor..n])) {
        Some((r, total)) => {
            assert!(total <= n - cursor && r.total_length() == total, "blob_ref_within_buffer");
            std::mem::forget(r);
        }
        None => {}
    }
    match okf(DataTypeKind::Blob.deserialize(&b[..n], cursor)) {
        Some((r, next)) => {
            assert!(next >= cursor && next <= n, "blob_cursor_within_buffer");
            std::mem::forget(r);
        }
        None => {}
    }
}
// @obl harness=c16_blob_decode_ok id=C16.decoders[Blob/<=12/length_prefix_does_not_wrap] tier=quick funcs="Blob::reinterpret_cast,Blob::deserialize,DataTypeKind::deserialize,VarInt::from_encoded_bytes,VarInt::value" bounds="every byte string of length 0..=12, every cursor <= length" assume="cursor <= len; not (length prefix = -k with k <= prefix size)" unwind=13
#[kani::proof]
#[kani::unwind(13)]
fn c16_blob_decode_ok() {
    let b: [u8; BMAX] = kani::any();
    let (n, cursor): (usize, usize) = (kani::any(), kani::any());
    kani::assume(n <= BMAX && cursor <= n);
    kani::assume(!blob_len_wraps(&b, cursor, n));
    kani::cover!(n == BMAX, "reach");
    blob_decode(&b, n, cursor);
}
// @obl harness=c16_blob_decode_neg_len id=C16.decoders[Blob/<=12/length_prefix_-k,k_<=_prefix_size] tier=off funcs="Blob::reinterpret_cast,Blob::deserialize,DataTypeKind::deserialize" bounds="every byte string of length 0..=12 whose varint length prefix decodes to -1 (1-byte prefix), -1..-2 (2-byte prefix), ..." assume="cursor <= len" unwind=13
#[kani::proof]
#[kani::unwind(13)]
fn c16_blob_decode_neg_len() {
    let b: [u8; BMAX] = kani::any();
    let (n, cursor): (usize, usize) = (kani::any(), kani::any());
    kani::assume(n <= BMAX && cursor <= n);
    kani::assume(blob_len_wraps(&b, cursor, n));
    kani::cover!(true, "reach");
    blob_decode(&b, n, cursor);
}

// fixed-size kinds: deserialize aligns the cursor up, then slices `buffer[aligned..][..SIZE]`
fn fixed_one(kind: DataTypeKind, size: usize, b: &[u8; BMAX], n: usize, cursor: usize, short_region: bool) {
    let aligned = (cursor + size - 1) & !(size - 1); // SIZE == ALIGN for Int/UInt/Float (4) and BigInt/BigUInt/Double (8)
    let short = aligned + size > n;
    kani::cover!(short == short_region, "reach");
    if short == short_region {
        match okf(kind.deserialize(&b[..n], cursor)) {
            Some((r, next)) => {
                assert!(next == aligned + size && next <= n, "fixed_cursor_advances_by_size");
                std::mem::forget(r);
            }
            None => {} // Err (e.g. bytemuck alignment of the base address) is an acceptable outcome
        }
    }
    let short_rc = size > n - cursor;
    if short_rc == short_region {
        let r = okf(kind.reinterpret_cast(&b[cursor..n]));
        std::mem::forget(r);
    }
}
fn fixed_all(short_region: bool) {
    let b: [u8; BMAX] = kani::any();
    let (n, cursor): (usize, usize) = (kani::any(), kani::any());
    kani::assume(n <= BMAX && cursor <= n);
    fixed_one(DataTypeKind::Int, 4, &b, n, cursor, short_region);
    fixed_one(DataTypeKind::UInt, 4, &b, n, cursor, short_region);
    fixed_one(DataTypeKind::Float, 4, &b, n, cursor, short_region);
    fixed_one(DataTypeKind::BigInt, 8, &b, n, cursor, short_region);
    fixed_one(DataTypeKind::BigUInt, 8, &b, n, cursor, short_region);
    fixed_one(DataTypeKind::Double, 8, &b, n, cursor, short_region);
}
// @obl harness=c16_fixed_decode_ok id=C16.decoders[Int,UInt,Float,BigInt,BigUInt,Double/<=12/value_fits] tier=quick funcs="DataTypeKind::deserialize,DataTypeKind::reinterpret_cast,BytemuckRef::try_from" bounds="every byte string of length 0..=12, every cursor <= length such that aligned(cursor) + SIZE <= length" assume="cursor <= len" unwind=4
#[kani::proof]
#[kani::unwind(4)]
fn c16_fixed_decode_ok() {
    fixed_all(false);
}
// @obl harness=c16_fixed_decode_short id=C16.decoders[Int,UInt,Float,BigInt,BigUInt,Double/<=12/buffer_too_short] tier=off funcs="DataTypeKind::deserialize,DataTypeKind::reinterpret_cast,BytemuckRef::try_from" bounds="every byte string of length 0..=12, every cursor <= length such that aligned(cursor) + SIZE > length" assume="cursor <= len" unwind=4
#[kani::proof]
#[kani::unwind(4)]
fn c16_fixed_decode_short() {
    fixed_all(true);
}
// @obl harness=c16_bool_null_decode id=C16.decoders[Bool,Null/<=12] tier=quick funcs="DataTypeKind::deserialize,Bool::deserialize,Bool::reinterpret_cast" bounds="every byte string of length 0..=12, every cursor <= length" assume="cursor <= len" unwind=4
#[kani::proof]
#[kani::unwind(4)]
fn c16_bool_null_decode() {
    let b: [u8; BMAX] = kani::any();
    let (n, cursor): (usize, usize) = (kani::any(), kani::any());
    kani::assume(n <= BMAX && cursor <= n);
    kani::cover!(cursor == n, "reach");
    match okf(DataTypeKind::Bool.deserialize(&b[..n], cursor)) {
        Some((r, next)) => {
            assert!(cursor < n && next == cursor + 1, "bool_consumes_one_byte");
            std::mem::forget(r);
        }
        None => assert!(cursor == n, "bool_rejects_only_empty"),
    }
    let r = okf(DataTypeKind::Bool.reinterpret_cast(&b[cursor..n]));
    std::mem::forget(r);
    let r = okf(DataTypeKind::Null.deserialize(&b[..n], cursor));
    assert!(r.is_none(), "null_kind_is_not_deserializable");
    std::mem::forget(r);
}
