"""Engine K: Kani/CBMC over the real crate (overlay build).  One `cargo kani` run per (property, tier)."""
import glob, json, os, re, shutil, time
from .common import (HARNESS_DIR, REPLAY_DIR, VERIF, Scratch, base_env, log, module_path_of, parse_obl_line, run,
                     tier_rank)

INJECT = json.load(open(os.path.join(HARNESS_DIR, "inject.json")))

UNWIND_RE = re.compile(r"unwinding assertion")


def registry():
    """All K obligations, parsed from `// @obl` lines in /verif/harness/*.rs."""
    obls = []
    for f in sorted(glob.glob(os.path.join(HARNESS_DIR, "*.rs"))):
        hf = os.path.basename(f)
        if hf not in INJECT:
            continue
        for ln in open(f):
            s = ln.strip()
            if s.startswith("// @obl"):
                d = parse_obl_line(s)
                d["file"] = hf
                d["engine"] = "kani"
                d.setdefault("tier", "quick")
                d["props"] = d["id"].split(".")[0:1] + [p for p in d.get("also", "").split(",") if p]
                d["fq"] = module_path_of(INJECT[hf], hf) + "::" + d["harness"]
                obls.append(d)
    return obls


def select(prop, tier, only=None):
    out = []
    for o in registry():
        if prop not in o["props"]:
            continue
        if tier_rank(o["tier"]) > tier_rank(tier):
            continue
        if only and not re.search(only, o["id"] + " " + o["harness"]):
            continue
        out.append(o)
    return out


def _kani_cmd(scratch, fqs, jobs, timeout_s, export, extra=()):
    cmd = ["cargo", "kani", "-p", "axmosdb", "-Z", "stubbing", "-Z", "unstable-options",
           "--default-unwind", "16", "--output-format", "terse", "--target-dir", scratch.target,
           "--harness-timeout", f"{int(timeout_s)}s", "--export-json", export, "--exact"]
    if jobs > 1:
        cmd += ["-j", str(jobs)]
    for fq in fqs:
        cmd += ["--harness", fq]
    cmd += list(extra)
    return cmd


def run_obligations(scratch, obls, tier, jobs=None, timeout_s=None, mem_gb=None):
    """Build the scratch copy under Kani and run the given harnesses.  Returns (results, meta)."""
    for hf in sorted({o["file"] for o in obls}):
        scratch.inject(hf, INJECT[hf])
    # a harness file may carry `// @limits jobs=N mem_gb=G`: the address-space limit is per process and kani-driver itself
    # needs several GB per worker thread to parse CBMC's output for the page-sized objects of C10
    lim = {}
    for hf in sorted({o["file"] for o in obls}):
        for ln in open(os.path.join(HARNESS_DIR, hf)):
            if ln.startswith("// @limits"):
                lim.update(parse_obl_line(ln.replace("@limits", "@obl")))
    jobs = jobs or int(os.environ.get("VERIF_JOBS") or lim.get("jobs") or ("12" if tier == "quick" else "8"))
    timeout_s = timeout_s or int(os.environ.get("VERIF_HARNESS_TIMEOUT") or (lim.get("timeout_s") if tier == "quick" else None)
                                 or ("300" if tier == "quick" else "1500"))
    mem_gb = mem_gb or float(os.environ.get("VERIF_MEM_GB") or lim.get("mem_gb") or ("16" if tier == "quick" else "28"))
    export = os.path.join(scratch.dir, "kani.json")
    logf = os.path.join(scratch.dir, "kani.log")
    fqs = [o["fq"] for o in obls]
    cmd = _kani_cmd(scratch, fqs, jobs, timeout_s, export)
    t0 = time.time()
    rc, out, wall = run(cmd, cwd=scratch.src, env=base_env(), mem_gb=mem_gb, logfile=logf,
                        timeout=timeout_s * (len(obls) // jobs + 2) + 900)
    meta = {"cmd": " ".join(cmd[:14]) + f" ... ({len(fqs)} x --harness)", "wall_s": round(wall, 1), "rc": rc,
            "jobs": jobs, "harness_timeout_s": timeout_s, "mem_limit_gb": mem_gb}
    if not os.path.exists(export):
        # build failure (harness does not compile against this tree) or driver crash
        tail = "\n".join(l for l in out.splitlines() if l.startswith("error") or "error[" in l)[:3000]
        # one harness file that no longer compiles (a private item it names was changed) must not take the obligations of
        # the other files down with it: drop the offending files and decide the rest
        broken = sorted({m for m in re.findall(r"-->\s*\S*?__verif/(\w+\.rs):", out) if m in scratch.injected})
        rest = [o for o in obls if o["file"] not in broken]
        if broken and rest and not getattr(scratch, "_retried", False):
            scratch._retried = True
            for hf in broken:
                host = os.path.join(scratch.crate, "src", INJECT[hf])
                txt = open(host).read()
                txt = re.sub(r"\n#\[cfg\(kani\)\] #\[path = \"[^\"]*" + re.escape(hf) + r"\"\] mod \w+;\n", "\n", txt)
                open(host, "w").write(txt)
                scratch.injected.pop(hf, None)
            log(f"harness file(s) {broken} do not compile against this tree: deciding the other {len(rest)} obligation(s)")
            res2, meta2 = run_obligations(scratch, rest, tier, jobs, timeout_s, mem_gb)
            meta2["build_error"] = (tail or out[-1500:])[:1500]
            meta2["dropped_harness_files"] = broken
            dead = [dict(o, status="inconclusive", reason="harness file does not compile against this tree: " + (tail[:200] or "see log"),
                         failed=[], solver_s=0.0, build_failed=True) for o in obls if o["file"] in broken]
            return res2 + dead, meta2
        meta["build_error"] = tail or out[-3000:]
        return [dict(o, status="inconclusive", reason="kani build/driver failed: " + (tail[:300] or "see log"),
                     failed=[], solver_s=0.0, build_failed=True) for o in obls], meta
    data = json.load(open(export))
    meta["tools"] = data.get("tools", {})
    by = {}
    for r in data["verification_results"]["results"]:
        by[r["harness_id"]] = r
    errs = {e["harness_id"]: e for e in data.get("error_details", [])}
    stats = {c["harness_id"]: (c.get("cbmc_stats") or {}) for c in data.get("cbmc", [])}
    pdet = {p["harness_id"]: p.get("property_details", {}) for p in data.get("property_details", [])}
    results = []
    for o in obls:
        r = by.get(o["fq"])
        res = dict(o)
        res["failed"] = []
        res["solver_s"] = 0.0
        if r is None:
            res.update(status="inconclusive", reason="harness not found in Kani output (name mismatch or not compiled)")
            results.append(res)
            continue
        st = stats.get(o["fq"], {})
        res["solver_s"] = round((st.get("runtime_decision_procedure_s") or 0.0) + (st.get("runtime_symex_s") or 0.0), 3)
        res["cbmc"] = {k: st.get(k) for k in ("vccs_generated", "vccs_remaining", "size_program_expression",
                                               "runtime_symex_s", "runtime_solver_s")}
        res["duration_s"] = round(r.get("duration_ms", 0) / 1000.0, 2)
        res["checks_total"] = pdet.get(o["fq"], {}).get("total_properties")
        e = errs.get(o["fq"], {})
        checks = r.get("checks", [])
        # CBMC's --nan-check ("NaN on addition" ...) flags IEEE operations that yield NaN: not a Rust panic, not a property
        failed = [c for c in checks if c.get("status") in ("Failure", "FAILURE") and c.get("category") != "NaN"]
        covers = [c for c in checks if c.get("category") == "cover" or "cover" in str(c.get("property_class", ""))]
        cover_ok = (pdet.get(o["fq"], {}).get("satisfied") or 0) >= 1
        if e.get("exit_status") == "timeout":
            res.update(status="inconclusive", reason=f"CBMC timed out after {timeout_s}s")
        elif r.get("status") == "Success" or (checks and not failed and not any(c.get("status") in ("Error", "Undetermined") and c.get("category") != "NaN" for c in checks) and e.get("exit_status") == "properties_failed"):
            if not cover_ok:
                res.update(status="inconclusive", reason="vacuity: reachability cover point not satisfied")
            else:
                res.update(status="discharged")
        else:
            unw = [c for c in failed if c.get("category") == "unwind" or UNWIND_RE.search(c.get("description", ""))]
            unsup = [c for c in failed if c.get("category") in ("unsupported_construct", "missing_definition")]
            real = [c for c in failed if c not in unw and c not in unsup]
            if not checks:
                res.update(status="inconclusive",
                           reason="CBMC produced no result (out of memory / crash): " + str(e.get("exit_status")))
            elif unsup:
                res.update(status="inconclusive", reason="construct unsupported by Kani is reachable: "
                           + "; ".join(str(c.get("description"))[:80] for c in unsup[:3]))
            elif unw and not real:
                res.update(status="inconclusive", reason="unwinding assertion failed: bound too small for this tree: "
                           + "; ".join(f"{c.get('function')}" for c in unw[:3]))
            elif real:
                res["failed"] = sorted({str(c.get("description", "?")).strip('"') for c in real})
                res["failed_detail"] = [{"description": c.get("description"), "function": c.get("function"),
                                         "file": (c.get("location") or {}).get("file"),
                                         "line": (c.get("location") or {}).get("line"),
                                         "category": c.get("category")} for c in real[:8]]
                res.update(status="violated")
            elif any(c.get("status") == "Error" for c in checks):
                res.update(status="inconclusive", reason="CBMC solver error on %d checks (resource limit: memory %s GB) - "
                           "not a verdict" % (sum(1 for c in checks if c.get("status") == "Error"), mem_gb))
            else:
                res.update(status="inconclusive", reason="Kani reports failure without a failed check: "
                           + json.dumps(e)[:200])
        results.append(res)
    shutil.copyfile(logf, os.path.join(scratch.dir, "kani.first.log"))
    return results, meta


PLAYBACK_RE = re.compile(r"(///[^\n]*\n)*#\[test\]\s*\nfn (kani_concrete_playback_\w+)\(\) \{.*?\n\}\n", re.S)


def _is_playback_of(test_name, harness):
    """kani_concrete_playback_<harness>_<hash>: exact harness name (c13_trim_horizon is a prefix of
    c13_trim_horizon_null_old - a prefix test appended the longer one's tests twice and the playback build failed)"""
    return re.match(r"^kani_concrete_playback_" + re.escape(harness) + r"_\d+$", test_name) is not None


def replay(scratch, cands, prop, timeout_s=1500):
    """For each candidate (a violated obligation): ask Kani for the concrete counterexample, append the generated unit
    test(s) to the scratch copy of the harness file and execute them natively with `cargo kani playback` (dev profile,
    real code, no solver).  Returns {harness: {"reproduced": bool, "replay": path, "tests": [...], "panic": str}}"""
    out = {}
    if not cands:
        return out
    tests = {}
    for o in cands:
        cmd = ["cargo", "kani", "-p", "axmosdb", "-Z", "stubbing", "-Z", "unstable-options", "-Z", "concrete-playback",
               "--concrete-playback=print", "--default-unwind", "16", "--output-format", "terse",
               "--target-dir", scratch.target, "--harness-timeout", f"{timeout_s}s", "--exact", "--harness", o["fq"]]
        rc, txt, wall = run(cmd, cwd=scratch.src, env=base_env(), timeout=timeout_s + 600)
        o["_cex_log"] = txt[-2000:]
        for m in PLAYBACK_RE.finditer(txt):
            tests[m.group(2)] = m.group(0)
    # append the generated unit tests to the scratch copy of the harness file (same module as the harness fn)
    for o in cands:
        mine = [t for n, t in tests.items() if _is_playback_of(n, o["harness"])]
        if mine:
            with open(scratch.injected[o["file"]], "a") as f:
                f.write("\n" + "\n".join(mine))
    if not tests:
        for o in cands:
            out[o["harness"]] = {"reproduced": False, "replay": None, "tests": [],
                                 "panic": "Kani produced no concrete playback test"}
        return out
    env = base_env()
    env["CARGO_TARGET_DIR"] = os.path.join(scratch.dir, "target-playback")
    env["RUST_BACKTRACE"] = "0"
    cmd = ["cargo", "kani", "playback", "-p", "axmosdb", "-Z", "concrete-playback", "--", "kani_concrete_playback_",
           "--test-threads", "1"]
    rc, txt, wall = run(cmd, cwd=scratch.src, env=env, timeout=1800)
    failed_tests = set(re.findall(r"^test (\S+) \.\.\. FAILED", txt, re.M))
    # a test that kills the process (abort on allocation failure, stack overflow) never prints its verdict
    crashed = set(re.findall(r"^test (\S+) \.\.\. (?!ok|FAILED|ignored)", txt, re.M)) if "signal" in txt else set()
    while crashed:
        # re-run the remaining tests one by one, skipping the ones that crashed the harness process
        failed_tests |= crashed
        cmd2 = cmd + sum([["--skip", c.split("::")[-1]] for c in failed_tests | set(re.findall(r"^test (\S+) \.\.\. ok", txt, re.M))], [])
        rc, t2, wall = run(cmd2, cwd=scratch.src, env=env, timeout=1800)
        txt += "\n" + t2
        failed_tests |= set(re.findall(r"^test (\S+) \.\.\. FAILED", t2, re.M))
        crashed = (set(re.findall(r"^test (\S+) \.\.\. (?!ok|FAILED|ignored)", t2, re.M)) if "signal" in t2 else set()) - failed_tests
    passed_tests = set(re.findall(r"^test (\S+) \.\.\. ok", txt, re.M))
    built = bool(failed_tests or passed_tests)
    for o in cands:
        mine = {n: t for n, t in tests.items() if _is_playback_of(n, o["harness"])}
        rep = [n for n in mine if any(ft.endswith("::" + n) for ft in failed_tests)]
        panic = ""
        for n in rep:
            m = re.search(r"---- \S*" + re.escape(n) + r" stdout ----\n(.*?)(?=\n----|\nfailures:)", txt, re.S)
            if m:
                panic = m.group(1).strip().splitlines()[0:3]
                panic = " | ".join(panic)
                break
        path = None
        if mine:
            d = os.path.join(REPLAY_DIR, prop)
            os.makedirs(d, exist_ok=True)
            path = os.path.join(d, o["harness"] + ".rs")
            with open(path, "w") as f:
                f.write(f"// replay for obligation {o['id']} (harness {o['harness']})\n")
                f.write(f"// harness-file: {o['file']}\n// failed: {'; '.join(o.get('failed', []))}\n")
                f.write(f"// native outcome when recorded: {'panicked: ' + panic if rep else ('did not fail' if built else 'playback build failed')}\n")
                f.write("// re-run: /verif/bin/check --replay " + path + "\n")
                for n in sorted(mine):
                    f.write(mine[n] + "\n")
        out[o["harness"]] = {"reproduced": bool(rep), "replay": path, "tests": sorted(mine), "panic": panic,
                             "built": built, "log_tail": "" if built else txt[-1500:]}
    return out


def replay_file(path):
    """`check --replay <file>`: run a recorded counterexample against /repo's current tree. exit 1 if it still fails."""
    txt = open(path).read()
    m = re.search(r"// harness-file: (\S+)", txt)
    hf = m.group(1)
    sc = Scratch("replay")
    try:
        dst = sc.inject(hf, INJECT[hf])
        with open(dst, "a") as f:
            f.write("\n" + txt)
        env = base_env()
        env["CARGO_TARGET_DIR"] = os.path.join(sc.dir, "target-playback")
        env["RUST_BACKTRACE"] = "0"
        cmd = ["cargo", "kani", "playback", "-p", "axmosdb", "-Z", "concrete-playback", "--",
               "kani_concrete_playback_", "--test-threads", "1"]
        rc, out, wall = run(cmd, cwd=sc.src, env=env, timeout=1800)
        failed = re.findall(r"^test (\S+) \.\.\. FAILED", out, re.M)
        if "signal" in out:
            failed += re.findall(r"^test (\S+) \.\.\. (?!ok|FAILED|ignored)", out, re.M)
        ok = re.findall(r"^test (\S+) \.\.\. ok", out, re.M)
        for l in out.splitlines():
            if l.startswith("test ") or "panicked at" in l:
                print(l)
        if failed:
            print(f"REPLAY: counterexample reproduces on the current tree ({len(failed)} test(s) fail)")
            return 1
        if ok:
            print("REPLAY: counterexample no longer fails on the current tree")
            return 0
        print(out[-3000:])
        print("REPLAY: could not build/run the playback")
        return 2
    finally:
        sc.cleanup()
