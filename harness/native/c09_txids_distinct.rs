// host: lib.rs
// Native scenario for C09.txid_monotone: transaction ids handed out before and after a clean close/reopen are distinct
// and increasing.
use crate::{DBConfig, Database};

#[test]
fn txids_increase_across_reopen() {
    let dir = tempfile::TempDir::new().unwrap();
    let path = dir.path().join("t.db");
    let mut seen = Vec::new();
    {
        let db = Database::create(&path, DBConfig::default()).unwrap();
        db.execute("CREATE TABLE t (id BIGINT, v INT)").unwrap();
        for _ in 0..3 {
            let h = db.coordinator().begin().unwrap();
            seen.push(h.id());
        }
        db.flush().unwrap();
    }
    {
        let db = Database::open(&path, DBConfig::default()).unwrap();
        for _ in 0..3 {
            let h = db.coordinator().begin().unwrap();
            seen.push(h.id());
        }
    }
    for w in seen.windows(2) {
        assert!(w[0] < w[1], "transaction ids not strictly increasing: {:?}", seen);
    }
}
