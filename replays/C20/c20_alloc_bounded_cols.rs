// replay for obligation C20.alloc_bounded[Rows/col_count] (harness c20_alloc_bounded_cols)
// harness-file: c20_tcp.rs
// failed: alloc_bounded; free argument has offset zero; free argument must be NULL or valid pointer; free argument must be dynamic object; memcpy source region readable; rust_dealloc must be called on an object whose allocated size matches its layout
// native outcome when recorded: panicked: thread 'tcp::__verif_c20_tcp::kani_concrete_playback_c20_alloc_bounded_cols_10831333905466901674' (3667) panicked at /var/tmp/axv-c20-mu7ul9y_/src/crates/axmos-db/src/__verif/c20_tcp.rs:433:5: | alloc_bounded | note: run with `RUST_BACKTRACE=1` environment variable to display a backtrace
// re-run: /verif/bin/check --replay /verif/replays/C20/c20_alloc_bounded_cols.rs
#[test]
fn kani_concrete_playback_c20_alloc_bounded_cols_10831333905466901674() {
    let concrete_vals: Vec<Vec<u8>> = vec![
        // 2147483648
        vec![0, 0, 0, 128],
    ];
    kani::concrete_playback_run(concrete_vals, c20_alloc_bounded_cols);
}

#[test]
fn kani_concrete_playback_c20_alloc_bounded_cols_14354889552593205449() {
    let concrete_vals: Vec<Vec<u8>> = vec![
        // 16
        vec![16, 0, 0, 0],
    ];
    kani::concrete_playback_run(concrete_vals, c20_alloc_bounded_cols);
}

#[test]
fn kani_concrete_playback_c20_alloc_bounded_cols_15870172124291433666() {
    let concrete_vals: Vec<Vec<u8>> = vec![
        // 15
        vec![15, 0, 0, 0],
    ];
    kani::concrete_playback_run(concrete_vals, c20_alloc_bounded_cols);
}

#[test]
fn kani_concrete_playback_c20_alloc_bounded_cols_2932274960031865625() {
    let concrete_vals: Vec<Vec<u8>> = vec![
        // 30038
        vec![86, 117, 0, 0],
    ];
    kani::concrete_playback_run(concrete_vals, c20_alloc_bounded_cols);
}

