// replay for obligation C05.like_ref[ends_in_escaped_%,no_wildcard_%] (harness c05_like_ref_trailing_escaped_pct)
// harness-file: c16_blob.rs
// failed: like_matches_reference
// native outcome when recorded: panicked: thread 'types::blob::__verif_c16_blob::kani_concrete_playback_c05_like_ref_trailing_escaped_pct_17216643592847932447' (29119) panicked at /var/tmp/axv-c05-c4oe8d76/src/crates/axmos-db/src/__verif/c16_blob.rs:124:5: | like_matches_reference
// re-run: /verif/bin/check --replay /verif/replays/C05/c05_like_ref_trailing_escaped_pct.rs
#[test]
fn kani_concrete_playback_c05_like_ref_trailing_escaped_pct_17216643592847932447() {
    let concrete_vals: Vec<Vec<u8>> = vec![
        // 37
        vec![37],
        // 255
        vec![255],
        // 37
        vec![37],
        // 37
        vec![37],
        // 4ul
        vec![4, 0, 0, 0, 0, 0, 0, 0],
        // 92
        vec![92],
        // 37
        vec![37],
        // 92
        vec![92],
        // 2ul
        vec![2, 0, 0, 0, 0, 0, 0, 0],
    ];
    kani::concrete_playback_run(concrete_vals, c05_like_ref_trailing_escaped_pct);
}

#[test]
fn kani_concrete_playback_c05_like_ref_trailing_escaped_pct_9686212516667519515() {
    let concrete_vals: Vec<Vec<u8>> = vec![
        // 37
        vec![37],
        // 36
        vec![36],
        // 36
        vec![36],
        // 95
        vec![95],
        // 4ul
        vec![4, 0, 0, 0, 0, 0, 0, 0],
        // 95
        vec![95],
        // 92
        vec![92],
        // 37
        vec![37],
        // 3ul
        vec![3, 0, 0, 0, 0, 0, 0, 0],
    ];
    kani::concrete_playback_run(concrete_vals, c05_like_ref_trailing_escaped_pct);
}

