// replay for obligation C16.arith[add][int_pairs/overflow] (harness c16_arith_add_overflow)
// harness-file: c16_arith.rs
// failed: attempt to add with overflow
// native outcome when recorded: panicked: thread 'types::__verif_c16_arith::kani_concrete_playback_c16_arith_add_overflow_9481596033904432291' (6940) panicked at crates/axmos-db/src/types/core.rs:155:9: | attempt to add with overflow
// re-run: /verif/bin/check --replay /verif/replays/C16/c16_arith_add_overflow.rs
#[test]
fn kani_concrete_playback_c16_arith_add_overflow_5155765154224831112() {
    let concrete_vals: Vec<Vec<u8>> = vec![
        // 0
        vec![0, 0, 0, 0],
        // 0
        vec![0, 0, 0, 0],
        // 0
        vec![0, 0, 0, 0],
        // 0
        vec![0, 0, 0, 0],
        // 0
        vec![0, 0, 0, 0],
        // 0
        vec![0, 0, 0, 0],
        // 0
        vec![0, 0, 0, 0],
        // 0
        vec![0, 0, 0, 0],
        // 0
        vec![0, 0, 0, 0],
        // 0
        vec![0, 0, 0, 0, 0, 0, 0, 0],
        // 0
        vec![0, 0, 0, 0, 0, 0, 0, 0],
        // 0
        vec![0, 0, 0, 0],
        // 0
        vec![0, 0, 0, 0, 0, 0, 0, 0],
        // 0
        vec![0, 0, 0, 0, 0, 0, 0, 0],
        // 0
        vec![0, 0, 0, 0],
        // 0ul
        vec![0, 0, 0, 0, 0, 0, 0, 0],
        // 0ul
        vec![0, 0, 0, 0, 0, 0, 0, 0],
        // 0
        vec![0, 0, 0, 0],
        // 0
        vec![0, 0, 0, 0, 0, 0, 0, 0],
        // 0
        vec![0, 0, 0, 0],
        // 0
        vec![0, 0, 0, 0],
        // 0
        vec![0, 0, 0, 0, 0, 0, 0, 0],
        // 0
        vec![0, 0, 0, 0, 0, 0, 0, 0],
        // 0ul
        vec![0, 0, 0, 0, 0, 0, 0, 0],
        // 0ul
        vec![0, 0, 0, 0, 0, 0, 0, 0],
        // 0
        vec![0, 0, 0, 0, 0, 0, 0, 0],
        // 0
        vec![0, 0, 0, 0],
        // 0ul
        vec![0, 0, 0, 0, 0, 0, 0, 0],
        // 0ul
        vec![0, 0, 0, 0, 0, 0, 0, 0],
        // 0
        vec![0, 0, 0, 0],
        // 9223372036854775808ul
        vec![0, 0, 0, 0, 0, 0, 0, 128],
        // 9223372036854775808ul
        vec![0, 0, 0, 0, 0, 0, 0, 128],
    ];
    kani::concrete_playback_run(concrete_vals, c16_arith_add_overflow);
}

#[test]
fn kani_concrete_playback_c16_arith_add_overflow_9481596033904432291() {
    let concrete_vals: Vec<Vec<u8>> = vec![
        // 1073741823
        vec![255, 255, 255, 63],
        // -2147483647
        vec![1, 0, 0, 128],
        // -2147483648
        vec![0, 0, 0, 128],
        // 2147483647
        vec![255, 255, 255, 127],
        // 0
        vec![0, 0, 0, 0],
        // -1
        vec![255, 255, 255, 255],
        // 4294967295
        vec![255, 255, 255, 255],
        // 4294967295
        vec![255, 255, 255, 255],
        // 1073741824
        vec![0, 0, 0, 64],
        // 9223372036854775807
        vec![255, 255, 255, 255, 255, 255, 255, 127],
    ];
    kani::concrete_playback_run(concrete_vals, c16_arith_add_overflow);
}

