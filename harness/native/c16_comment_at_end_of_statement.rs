// host: sql/parser/mod.rs
// Native scenario for C16.lexer_loops_stop_at_end_of_input: statement texts that END inside a token class scanned by a
// loop (a `--` comment without newline, an unterminated string, a trailing number / identifier / blank) come back with a
// result or an error within the time limit; the lexer is driven on a helper thread so that a hang fails the test.
use super::lexer::{Lexer, Token};
use std::sync::mpsc;
use std::time::Duration;

fn lex_all(text: &'static str) {
    let (tx, rx) = mpsc::channel();
    std::thread::spawn(move || {
        let mut lx = Lexer::new(text);
        let mut n = 0usize;
        loop {
            let t = lx.next_token();
            n += 1;
            if matches!(t, Token::Eof) || n > 10_000 {
                break;
            }
        }
        let _ = tx.send(n);
    });
    match rx.recv_timeout(Duration::from_secs(10)) {
        Ok(n) => assert!(n <= 10_000, "lexer produced more than 10000 tokens for {text:?}"),
        Err(_) => panic!("lexer did not finish on {text:?} (loop does not stop at the end of the input)"),
    }
}

#[test]
fn lexer_finishes_on_texts_that_end_inside_a_scanned_token() {
    for t in ["SELECT id FROM t -- all ids", "SELECT id FROM t --", "-- nothing but a comment", "--", "SELECT 'abc", "SELECT \"abc",
              "SELECT 12", "SELECT 1.", "SELECT abc", "SELECT   ", "SELECT id -- c\n FROM t", "-", "SELECT a -"] {
        lex_all(t);
    }
}
