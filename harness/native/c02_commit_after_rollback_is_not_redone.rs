// host: lib.rs
// Native scenario for C02.finished_transaction_logs_no_commit: ROLLBACK followed by COMMIT on the same session; the
// process dies later; the rolled-back rows are still absent after reopening.
use crate::{DBConfig, Database};

#[test]
fn rolled_back_rows_stay_gone_after_a_late_commit_and_a_crash() {
    let dir = tempfile::TempDir::new().unwrap();
    let path = dir.path().join("t.db");
    let db = Database::create(&path, DBConfig::default()).unwrap();
    db.execute("CREATE TABLE t (id BIGINT, v INT)").unwrap();
    db.execute("INSERT INTO t VALUES (1, 10)").unwrap();
    db.flush().unwrap();
    {
        let mut s = db.session().unwrap();
        s.execute("INSERT INTO t VALUES (2, 20)").unwrap();
        s.abort_transaction().unwrap();
        let _ = s.commit_transaction(); // COMMIT after ROLLBACK: nothing left to commit
    }
    db.execute("INSERT INTO t VALUES (3, 30)").unwrap();
    let ids = |d: &Database| {
        let mut v: Vec<i64> = d.execute("SELECT id FROM t").unwrap().into_rows().unwrap().iterrows().map(|r| r[0].as_big_int().unwrap().value()).collect();
        v.sort();
        v
    };
    assert_eq!(ids(&db), vec![1, 3], "live database");
    let img = tempfile::TempDir::new().unwrap();
    std::fs::copy(&path, img.path().join("t.db")).unwrap();
    std::fs::copy(dir.path().join("axmos.log"), img.path().join("axmos.log")).unwrap();
    let rec = Database::open(img.path().join("t.db"), DBConfig::default()).expect("open after the crash");
    assert_eq!(ids(&rec), vec![1, 3], "rows of a rolled-back transaction came back after the crash");
}
