// host: lib.rs
// Native scenario for C06.index_maintenance_on_update (also C07): after UPDATEs of an indexed column, of a neighbouring
// column and of both, the unique index agrees with the table (lookups through the index == lookups through a scan) and
// still enforces uniqueness on the current values only.
use crate::{DBConfig, Database};

fn ids(db: &Database, sql: &str) -> Vec<i64> {
    let mut v: Vec<i64> = db.execute(sql).unwrap().into_rows().unwrap().iterrows().map(|r| r[0].as_big_int().unwrap().value()).collect();
    v.sort();
    v
}

#[test]
fn index_agrees_with_table_after_updates() {
    let dir = tempfile::TempDir::new().unwrap();
    let db = Database::create(dir.path().join("t.db"), DBConfig::default()).unwrap();
    db.execute("CREATE TABLE t (id BIGINT, code BIGINT, v BIGINT)").unwrap();
    db.execute("CREATE UNIQUE INDEX idx_code ON t(code)").unwrap();
    for i in 1..=5 {
        db.execute(&format!("INSERT INTO t VALUES ({}, {}, 0)", i, i * 100)).unwrap();
    }
    // neighbour of the indexed column
    let r = db.execute("UPDATE t SET v = 7 WHERE id = 1");
    assert!(r.is_ok(), "UPDATE of a non-indexed column rejected: {:?}", r.err());
    // the indexed column itself
    let r = db.execute("UPDATE t SET code = 150 WHERE id = 1");
    assert!(r.is_ok(), "UPDATE of the indexed column rejected: {:?}", r.err());
    // both
    let r = db.execute("UPDATE t SET code = 250, v = 9 WHERE id = 2");
    assert!(r.is_ok(), "UPDATE of both columns rejected: {:?}", r.err());
    for (code, want) in [(100, vec![]), (150, vec![1]), (200, vec![]), (250, vec![2]), (300, vec![3])] {
        let via_index = ids(&db, &format!("SELECT id FROM t WHERE code = {}", code));
        let via_scan = ids(&db, &format!("SELECT id FROM t WHERE code + 0 = {}", code));
        assert_eq!(via_scan, want, "table content wrong for code {}", code);
        assert_eq!(via_index, via_scan, "index disagrees with table for code {}", code);
    }
    // uniqueness follows the current values
    assert!(db.execute("INSERT INTO t VALUES (6, 150, 0)").is_err(), "duplicate of an updated key accepted");
    let r = db.execute("INSERT INTO t VALUES (7, 100, 0)");
    assert!(r.is_ok(), "key that was changed away is not free: {:?}", r.err());
    assert!(db.execute("UPDATE t SET code = 300 WHERE id = 4").is_err(), "UPDATE onto a live key accepted");
}
