// Kani harnesses for C20 (wire protocol).  Child module of crates/axmos-db/src/tcp/mod.rs.
#![allow(unused_imports, dead_code, clippy::all)]
use super::*;

// ---- environment stubs (part of the claim; listed in evidence) ------------------------------------------
/// error-message construction is not the subject: `format!` returns an empty string
pub(crate) fn stub_format(_a: std::fmt::Arguments<'_>) -> String {
    String::new()
}
/// `String::from_utf8_lossy` -> identity copy.  Exact for valid UTF-8 (all round-trip obligations quantify over
/// valid strings); for garbage input it over-approximates only the *content* of the produced string.
pub(crate) fn stub_lossy(v: &[u8]) -> std::borrow::Cow<'_, str> {
    std::borrow::Cow::Owned(unsafe { String::from_utf8_unchecked(v.to_vec()) })
}
static mut MAX_CAP: usize = 0;
/// records the largest capacity requested while decoding (allocation-bound obligation)
/// Used only by the allocation-bound harnesses: records the request and returns an empty Vec (capacity is not
/// observable by safe code; callers that `set_len` after `with_capacity`, e.g. `to_vec`, are not reachable there).
pub(crate) fn stub_with_capacity<T>(cap: usize) -> Vec<T> {
    unsafe {
        if cap > MAX_CAP {
            MAX_CAP = cap;
        }
    }
    Vec::new()
}
/// for the allocation-bound harnesses only (string content is irrelevant there, and `to_vec` must not be used
/// together with the recording stub above)
pub(crate) fn stub_lossy_empty(_v: &[u8]) -> std::borrow::Cow<'_, str> {
    std::borrow::Cow::Owned(String::new())
}
/// peak virtual memory of this process in kB.  Natively (concrete playback, no stubs) this is what makes an
/// oversized allocation observable; under Kani it is stubbed to 0 and the recording stub above is the oracle.
pub(crate) fn vm_peak_kb() -> usize {
    let s = std::fs::read_to_string("/proc/self/status").unwrap_or_default();
    for l in s.lines() {
        if let Some(r) = l.strip_prefix("VmPeak:") {
            return r.trim().trim_end_matches("kB").trim().parse().unwrap_or(0);
        }
    }
    0
}
pub(crate) fn vm_peak_stub() -> usize {
    0
}

fn okf<T, E>(r: Result<T, E>) -> Option<T> {
    match r {
        Ok(v) => Some(v),
        Err(e) => {
            std::mem::forget(e);
            None
        }
    }
}
/// a string of exactly N bytes: ASCII, or (N >= 2) starting with one valid 2-byte UTF-8 sequence
fn any_str<const N: usize>() -> String {
    let b: [u8; N] = kani::any();
    let two: bool = kani::any();
    let mut i = 0;
    while i < N {
        if N >= 2 && two && i == 0 {
            kani::assume(b[0] >= 0xC2 && b[0] <= 0xDF);
        } else if N >= 2 && two && i == 1 {
            kani::assume(b[1] >= 0x80 && b[1] <= 0xBF);
        } else {
            kani::assume(b[i] < 0x80);
        }
        i += 1;
    }
    unsafe { String::from_utf8_unchecked(b.to_vec()) }
}
fn str_eq(a: &str, b: &str) -> bool {
    let (x, y) = (a.as_bytes(), b.as_bytes());
    if x.len() != y.len() {
        return false;
    }
    let mut i = 0;
    while i < x.len() {
        if x[i] != y[i] {
            return false;
        }
        i += 1;
    }
    true
}

// ---- Request round trip ----------------------------------------------------------------------------------
fn req_rt(r: &Request) -> Option<Request> {
    let bytes = r.to_bytes();
    okf(Request::from_bytes(&bytes))
}
macro_rules! hreq_str {
    ($name:ident, $variant:ident, $n:expr) => {
        #[kani::proof]
        #[kani::unwind(10)]
        #[kani::stub(std::fmt::format, stub_format)]
        #[kani::stub(std::string::String::from_utf8_lossy, stub_lossy)]
        fn $name() {
            let s = any_str::<$n>();
            let r = Request::$variant(s);
            kani::cover!(true, "reach");
            match (req_rt(&r), &r) {
                (Some(Request::$variant(t)), Request::$variant(s)) => assert!(str_eq(&t, s), "req_roundtrip"),
                _ => assert!(false, "req_roundtrip_variant"),
            }
        }
    };
}
// @obl harness=c20_req_create_3 id=C20.req_roundtrip[Create/3] tier=quick funcs="Request::to_bytes,Request::from_bytes,write_string,read_string,read_string_with_len" bounds="string of 3 bytes (ASCII or one 2-byte sequence + ASCII)" stubs="std::fmt::format,String::from_utf8_lossy" unwind=10
hreq_str!(c20_req_create_3, Create, 3);
// @obl harness=c20_req_open_0 id=C20.req_roundtrip[Open/0] tier=quick funcs="Request::to_bytes,Request::from_bytes,write_string,read_string_with_len" bounds="empty string" stubs="std::fmt::format,String::from_utf8_lossy" unwind=10
hreq_str!(c20_req_open_0, Open, 0);
// @obl harness=c20_req_sql_2 id=C20.req_roundtrip[Sql/2] tier=quick funcs="Request::to_bytes,Request::from_bytes,write_string,read_string_with_len" bounds="string of 2 bytes" stubs="std::fmt::format,String::from_utf8_lossy" unwind=10
hreq_str!(c20_req_sql_2, Sql, 2);
// @obl harness=c20_req_explain_1 id=C20.req_roundtrip[Explain/1] tier=quick funcs="Request::to_bytes,Request::from_bytes,write_string,read_string_with_len" bounds="string of 1 byte" stubs="std::fmt::format,String::from_utf8_lossy" unwind=10
hreq_str!(c20_req_explain_1, Explain, 1);
// @obl harness=c20_req_sql_6 id=C20.req_roundtrip[Sql/6] tier=thorough funcs="Request::to_bytes,Request::from_bytes,write_string,read_string_with_len" bounds="string of 6 bytes" stubs="std::fmt::format,String::from_utf8_lossy" unwind=10
hreq_str!(c20_req_sql_6, Sql, 6);

// @obl harness=c20_req_fixed id=C20.req_roundtrip[Analyze,Begin,Rollback,Commit,Vacuum,Close,Ping,Shutdown] tier=quick funcs="Request::to_bytes,Request::from_bytes" bounds="all f64 bit patterns, all usize; every payload-free variant" stubs="std::fmt::format,String::from_utf8_lossy" unwind=10
#[kani::proof]
#[kani::unwind(10)]
#[kani::stub(std::fmt::format, stub_format)]
#[kani::stub(std::string::String::from_utf8_lossy, stub_lossy)]
fn c20_req_fixed() {
    let rate: f64 = kani::any();
    let rows: usize = kani::any();
    kani::cover!(true, "reach");
    match req_rt(&Request::Analyze { sample_rate: rate, max_sample_rows: rows }) {
        Some(Request::Analyze { sample_rate, max_sample_rows }) => {
            assert!(sample_rate.to_bits() == rate.to_bits() && max_sample_rows == rows, "req_roundtrip");
        }
        _ => assert!(false, "req_roundtrip_variant"),
    }
    assert!(matches!(req_rt(&Request::Begin), Some(Request::Begin)), "req_roundtrip_variant");
    assert!(matches!(req_rt(&Request::Rollback), Some(Request::Rollback)), "req_roundtrip_variant");
    assert!(matches!(req_rt(&Request::Commit), Some(Request::Commit)), "req_roundtrip_variant");
    assert!(matches!(req_rt(&Request::Vacuum), Some(Request::Vacuum)), "req_roundtrip_variant");
    assert!(matches!(req_rt(&Request::Close), Some(Request::Close)), "req_roundtrip_variant");
    assert!(matches!(req_rt(&Request::Ping), Some(Request::Ping)), "req_roundtrip_variant");
    assert!(matches!(req_rt(&Request::Shutdown), Some(Request::Shutdown)), "req_roundtrip_variant");
}

// ---- Response round trip ----------------------------------------------------------------------------------
// The encoded bytes are copied into a fixed array and the *structural* bytes (version, status, counts, string
// lengths) are first asserted equal to what the format prescribes and then overwritten with those constants.
// This keeps CBMC's symbolic execution on the one decoder arm / loop count that is actually taken (otherwise the
// Rows loops are unwound with symbolic counts from every arm) and is sound: a wrong structural byte fails the assert.
const CAP: usize = 40;
struct Wire {
    buf: [u8; CAP],
    n: usize,
}
fn wire(bytes: &[u8], expected_len: usize) -> Wire {
    let mut w = Wire { buf: [0u8; CAP], n: expected_len };
    assert!(bytes.len() == expected_len && expected_len <= CAP, "encoded_total_length");
    w.buf[..expected_len].copy_from_slice(&bytes[..expected_len]);
    w
}
/// evaluate a predicate on a decoded value without ever running Response's drop glue (its Vec<String> loops explode)
fn chk(d: Option<Response>, f: impl Fn(&Response) -> bool) -> bool {
    let r = match &d {
        Some(x) => f(x),
        None => false,
    };
    std::mem::forget(d);
    r
}
impl Wire {
    fn pin(&mut self, i: usize, v: u8) {
        assert!(i < self.n && self.buf[i] == v, "encoded_structure_byte");
        self.buf[i] = v;
    }
    fn pin_u32(&mut self, i: usize, v: u32) {
        let b = v.to_le_bytes();
        self.pin(i, b[0]);
        self.pin(i + 1, b[1]);
        self.pin(i + 2, b[2]);
        self.pin(i + 3, b[3]);
    }
    fn decode(&self) -> Option<Response> {
        okf(Response::from_bytes(&self.buf[..self.n]))
    }
}
macro_rules! hresp_str {
    ($name:ident, $variant:ident, $tag:expr, $n:expr) => {
        #[kani::proof]
        #[kani::unwind(10)]
        #[kani::stub(std::fmt::format, stub_format)]
        #[kani::stub(std::string::String::from_utf8_lossy, stub_lossy)]
                fn $name() {
            let s = any_str::<$n>();
            let r = Response::$variant(s);
            let mut w = wire(&r.to_bytes(), 6 + $n);
            w.pin(0, PROTOCOL_VERSION);
            w.pin(1, $tag);
            w.pin_u32(2, $n);
            kani::cover!(true, "reach");
            let ok = chk(w.decode(), |d| match (d, &r) {
                (Response::$variant(t), Response::$variant(s)) => str_eq(t, s),
                _ => false,
            });
            assert!(ok, "resp_roundtrip");
            std::mem::forget(r);
        }
    };
}
// @obl harness=c20_resp_ok_3 id=C20.resp_roundtrip[Ok/3] tier=quick funcs="Response::to_bytes,Response::from_bytes,StatusCode::try_from,write_string,read_string_with_len" bounds="string of 3 bytes" stubs="std::fmt::format,String::from_utf8_lossy" unwind=42
hresp_str!(c20_resp_ok_3, Ok, 0x00, 3);
// @obl harness=c20_resp_error_2 id=C20.resp_roundtrip[Error/2] tier=quick funcs="Response::to_bytes,Response::from_bytes,StatusCode::try_from" bounds="string of 2 bytes" stubs="std::fmt::format,String::from_utf8_lossy" unwind=42
hresp_str!(c20_resp_error_2, Error, 0x01, 2);
// @obl harness=c20_resp_ddl_0 id=C20.resp_roundtrip[Ddl/0] tier=quick funcs="Response::to_bytes,Response::from_bytes,StatusCode::try_from" bounds="empty string" stubs="std::fmt::format,String::from_utf8_lossy" unwind=42
hresp_str!(c20_resp_ddl_0, Ddl, 0x04, 0);
// @obl harness=c20_resp_explain_1 id=C20.resp_roundtrip[Explain/1] tier=quick funcs="Response::to_bytes,Response::from_bytes,StatusCode::try_from" bounds="string of 1 byte" stubs="std::fmt::format,String::from_utf8_lossy" unwind=42
hresp_str!(c20_resp_explain_1, Explain, 0x05, 1);

fn fixed_rt(r: Response, tag: u8, len: usize, f: impl Fn(&Response) -> bool) -> bool {
    let mut w = wire(&r.to_bytes(), len);
    w.pin(0, PROTOCOL_VERSION);
    w.pin(1, tag);
    std::mem::forget(r);
    chk(w.decode(), f)
}
// @obl harness=c20_resp_fixed id=C20.resp_roundtrip[RowsAffected,VacuumComplete,SessionStarted,SessionEnd,Pong,Goodbye,ShuttingDown] tier=quick funcs="Response::to_bytes,Response::from_bytes,StatusCode::try_from" bounds="all u64 / usize values" stubs="std::fmt::format,String::from_utf8_lossy" unwind=10
#[kani::proof]
#[kani::unwind(10)]
#[kani::stub(std::fmt::format, stub_format)]
#[kani::stub(std::string::String::from_utf8_lossy, stub_lossy)]
fn c20_resp_fixed() {
    let n: u64 = kani::any();
    let (a, b, c): (usize, usize, usize) = (kani::any(), kani::any(), kani::any());
    kani::cover!(true, "reach");
    assert!(fixed_rt(Response::RowsAffected(n), 0x03, 10, |d| matches!(d, Response::RowsAffected(m) if *m == n)), "resp_roundtrip");
    assert!(
        fixed_rt(Response::VacuumComplete { tables_vacuumed: a, bytes_freed: b, transactions_cleaned: c }, 0x09, 26, |d| matches!(d,
            Response::VacuumComplete { tables_vacuumed, bytes_freed, transactions_cleaned }
            if *tables_vacuumed == a && *bytes_freed == b && *transactions_cleaned == c)),
        "resp_roundtrip"
    );
    assert!(fixed_rt(Response::SessionStarted, 0x0A, 2, |d| matches!(d, Response::SessionStarted)), "resp_roundtrip_variant");
    assert!(fixed_rt(Response::SessionEnd, 0x0B, 2, |d| matches!(d, Response::SessionEnd)), "resp_roundtrip_variant");
    assert!(fixed_rt(Response::Pong, 0x06, 2, |d| matches!(d, Response::Pong)), "resp_roundtrip_variant");
    assert!(fixed_rt(Response::Goodbye, 0x07, 2, |d| matches!(d, Response::Goodbye)), "resp_roundtrip_variant");
    assert!(fixed_rt(Response::ShuttingDown, 0x08, 2, |d| matches!(d, Response::ShuttingDown)), "resp_roundtrip_variant");
}

// Rows: rectangular result sets (precondition: every row has columns.len() values; ragged rows are not a valid Response)
// @obl harness=c20_resp_rows_2x1 id=C20.resp_roundtrip[Rows/2cols,1row] tier=off funcs="Response::to_bytes,Response::from_bytes,read_string_with_len,write_string" bounds="2 columns (names of 1 and 0 bytes), 1 row (values of 2 and 1 bytes)" stubs="std::fmt::format,String::from_utf8_lossy" assume="rows are rectangular" unwind=4 reason="CBMC needs more than the 28 GB thorough limit (28 GB and rising after 300 s, run alone); Rows round trips without data rows, rows_encode_layout[1col,1row | 2cols,1row] and decode_total[Response/Rows/*] stay"
#[kani::proof]
#[kani::unwind(4)]
#[kani::stub(std::fmt::format, stub_format)]
#[kani::stub(std::string::String::from_utf8_lossy, stub_lossy)]
fn c20_resp_rows_2x1() {
    let (c0, c1, v0, v1) = (any_str::<1>(), any_str::<0>(), any_str::<2>(), any_str::<1>());
    let r = Response::Rows { columns: vec![c0, c1], data: vec![vec![v0, v1]] };
    let mut w = wire(&r.to_bytes(), 30);
    w.pin(0, PROTOCOL_VERSION);
    w.pin(1, 0x02);
    w.pin_u32(2, 2); // column count
    w.pin_u32(6, 1); // len(c0)
    w.pin_u32(11, 0); // len(c1)
    w.pin_u32(15, 1); // row count
    w.pin_u32(19, 2); // len(v0)
    w.pin_u32(25, 1); // len(v1)
    kani::cover!(true, "reach");
    let ok = chk(w.decode(), |d| match (d, &r) {
        (Response::Rows { columns: c2, data: d2 }, Response::Rows { columns, data }) => {
            c2.len() == 2 && d2.len() == 1 && d2[0].len() == 2
                && str_eq(&c2[0], &columns[0]) && str_eq(&c2[1], &columns[1])
                && str_eq(&d2[0][0], &data[0][0]) && str_eq(&d2[0][1], &data[0][1])
        }
        _ => false,
    });
    assert!(ok, "resp_roundtrip_rows");
    std::mem::forget(r);
}
// @obl harness=c20_resp_rows_1x2 id=C20.resp_roundtrip[Rows/1col,2rows] tier=off funcs="Response::to_bytes,Response::from_bytes,read_string_with_len,write_string" bounds="1 column, 2 rows, values of 1 and 0 bytes" stubs="std::fmt::format,String::from_utf8_lossy" assume="rows are rectangular" unwind=4 reason="CBMC needs more than the 28 GB thorough limit (28 GB and rising after 300 s, run alone); Rows round trips without data rows, rows_encode_layout[1col,1row | 2cols,1row] and decode_total[Response/Rows/*] stay"
#[kani::proof]
#[kani::unwind(4)]
#[kani::stub(std::fmt::format, stub_format)]
#[kani::stub(std::string::String::from_utf8_lossy, stub_lossy)]
fn c20_resp_rows_1x2() {
    let (c0, v0, v1) = (any_str::<1>(), any_str::<1>(), any_str::<0>());
    let r = Response::Rows { columns: vec![c0], data: vec![vec![v0], vec![v1]] };
    let mut w = wire(&r.to_bytes(), 24);
    w.pin(0, PROTOCOL_VERSION);
    w.pin(1, 0x02);
    w.pin_u32(2, 1); // column count
    w.pin_u32(6, 1); // len(c0)
    w.pin_u32(11, 2); // row count
    w.pin_u32(15, 1); // len(v0)
    w.pin_u32(20, 0); // len(v1)
    kani::cover!(true, "reach");
    let ok = chk(w.decode(), |d| match (d, &r) {
        (Response::Rows { columns: c2, data: d2 }, Response::Rows { columns, data }) => {
            c2.len() == 1 && d2.len() == 2 && d2[0].len() == 1 && d2[1].len() == 1
                && str_eq(&c2[0], &columns[0]) && str_eq(&d2[0][0], &data[0][0]) && str_eq(&d2[1][0], &data[1][0])
        }
        _ => false,
    });
    assert!(ok, "resp_roundtrip_rows");
    std::mem::forget(r);
}
// @obl harness=c20_resp_rows_1x0 id=C20.resp_roundtrip[Rows/1col,0rows] tier=quick funcs="Response::to_bytes,Response::from_bytes" bounds="1 column (2-byte name), 0 rows" stubs="std::fmt::format,String::from_utf8_lossy" unwind=4
#[kani::proof]
#[kani::unwind(4)]
#[kani::stub(std::fmt::format, stub_format)]
#[kani::stub(std::string::String::from_utf8_lossy, stub_lossy)]
fn c20_resp_rows_1x0() {
    let r = Response::Rows { columns: vec![any_str::<2>()], data: vec![] };
    let mut w = wire(&r.to_bytes(), 16);
    w.pin(0, PROTOCOL_VERSION);
    w.pin(1, 0x02);
    w.pin_u32(2, 1);
    w.pin_u32(6, 2);
    w.pin_u32(12, 0);
    kani::cover!(true, "reach");
    let ok = chk(w.decode(), |d| match (d, &r) {
        (Response::Rows { columns: c2, data: d2 }, Response::Rows { columns, data }) => {
            let _ = data;
            c2.len() == 1 && d2.len() == 0 && str_eq(&c2[0], &columns[0])
        }
        _ => false,
    });
    assert!(ok, "resp_roundtrip_rows");
    std::mem::forget(r);
}
// @obl harness=c20_resp_rows_0x0 id=C20.resp_roundtrip[Rows/0cols,0rows] tier=quick funcs="Response::to_bytes,Response::from_bytes" bounds="0 columns, 0 rows" stubs="std::fmt::format,String::from_utf8_lossy" unwind=4
#[kani::proof]
#[kani::unwind(4)]
#[kani::stub(std::fmt::format, stub_format)]
#[kani::stub(std::string::String::from_utf8_lossy, stub_lossy)]
fn c20_resp_rows_0x0() {
    let r = Response::Rows { columns: vec![], data: vec![] };
    let mut w = wire(&r.to_bytes(), 10);
    w.pin(0, PROTOCOL_VERSION);
    w.pin(1, 0x02);
    w.pin_u32(2, 0);
    w.pin_u32(6, 0);
    kani::cover!(true, "reach");
    let ok = chk(w.decode(), |d| match (d, &r) {
        (Response::Rows { columns: c2, data: d2 }, Response::Rows { columns, data }) => {
            let _ = (columns, data);
            c2.len() == 0 && d2.len() == 0
        }
        _ => false,
    });
    assert!(ok, "resp_roundtrip_rows");
    std::mem::forget(r);
}

// ---- decoders are total on garbage: any byte string -> Ok or Err, never a panic ---------------------------------
// @obl harness=c20_req_decode_total id=C20.decode_total[Request/<=12] tier=quick funcs="Request::from_bytes,read_string,read_string_with_len" bounds="every byte string of length 0..=12" stubs="std::fmt::format,String::from_utf8_lossy" unwind=14
#[kani::proof]
#[kani::unwind(14)]
#[kani::stub(std::fmt::format, stub_format)]
#[kani::stub(std::string::String::from_utf8_lossy, stub_lossy)]
fn c20_req_decode_total() {
    let buf: [u8; 12] = kani::any();
    let n: usize = kani::any();
    kani::assume(n <= 12);
    kani::cover!(n == 12, "reach");
    let r = okf(Request::from_bytes(&buf[..n]));
    if let Some(req) = r {
        assert!(n >= 2 && buf[0] == PROTOCOL_VERSION, "accepts_only_versioned");
        std::mem::forget(req);
    }
}
fn resp_total(buf: &mut [u8; 14], n: usize, st: u8) {
    buf[1] = st;
    let r = okf(Response::from_bytes(&buf[..n]));
    if let Some(resp) = r {
        assert!(n >= 2 && buf[0] == PROTOCOL_VERSION, "accepts_only_versioned");
        std::mem::forget(resp);
    }
}
// The status byte is enumerated concretely (every defined non-Rows status + three undefined ones) so that CBMC's
// symbolic execution follows one decoder arm per call; all other bytes and the truncation point are symbolic.
// The Rows status is covered by the hrows_garbage! harnesses below (concrete counts).
// @obl harness=c20_resp_decode_total_str id=C20.decode_total[Response/strings/<=14] tier=quick funcs="Response::from_bytes,StatusCode::try_from,read_string_with_len" bounds="every byte string of length 0..=14 with status byte in {00 Ok, 01 Error}" stubs="std::fmt::format,String::from_utf8_lossy" unwind=16
#[kani::proof]
#[kani::unwind(16)]
#[kani::stub(std::fmt::format, stub_format)]
#[kani::stub(std::string::String::from_utf8_lossy, stub_lossy)]
fn c20_resp_decode_total_str() {
    let mut buf: [u8; 14] = kani::any();
    let n: usize = kani::any();
    kani::assume(n <= 14);
    kani::cover!(n == 14, "reach");
    resp_total(&mut buf, n, 0x00);
    resp_total(&mut buf, n, 0x01);
}
// @obl harness=c20_resp_decode_total_str2 id=C20.decode_total[Response/strings2/<=14] tier=quick funcs="Response::from_bytes,StatusCode::try_from,read_string_with_len" bounds="every byte string of length 0..=14 with status byte in {04 Ddl, 05 Explain}" stubs="std::fmt::format,String::from_utf8_lossy" unwind=16
#[kani::proof]
#[kani::unwind(16)]
#[kani::stub(std::fmt::format, stub_format)]
#[kani::stub(std::string::String::from_utf8_lossy, stub_lossy)]
fn c20_resp_decode_total_str2() {
    let mut buf: [u8; 14] = kani::any();
    let n: usize = kani::any();
    kani::assume(n <= 14);
    kani::cover!(n == 14, "reach");
    resp_total(&mut buf, n, 0x04);
    resp_total(&mut buf, n, 0x05);
}
// @obl harness=c20_resp_decode_total_fixed id=C20.decode_total[Response/fixed/<=14] tier=quick funcs="Response::from_bytes,StatusCode::try_from,read_string_with_len" bounds="every byte string of length 0..=14 with status byte in {03,06,07,08,09,0A,0B}" stubs="std::fmt::format,String::from_utf8_lossy" unwind=16
#[kani::proof]
#[kani::unwind(16)]
#[kani::stub(std::fmt::format, stub_format)]
#[kani::stub(std::string::String::from_utf8_lossy, stub_lossy)]
fn c20_resp_decode_total_fixed() {
    let mut buf: [u8; 14] = kani::any();
    let n: usize = kani::any();
    kani::assume(n <= 14);
    kani::cover!(n == 14, "reach");
    resp_total(&mut buf, n, 0x03);
    resp_total(&mut buf, n, 0x06);
    resp_total(&mut buf, n, 0x07);
    resp_total(&mut buf, n, 0x08);
    resp_total(&mut buf, n, 0x09);
    resp_total(&mut buf, n, 0x0A);
    resp_total(&mut buf, n, 0x0B);
}
// @obl harness=c20_resp_decode_total_unknown id=C20.decode_total[Response/undefined/<=14] tier=off funcs="Response::from_bytes,StatusCode::try_from,read_string_with_len" bounds="every byte string of length 0..=14 with status byte in {0C,7F,FF} (undefined)" stubs="std::fmt::format,String::from_utf8_lossy" unwind=16 reason="CBMC does not finish within 1500 s even alone (every byte string <= 14 behind an undefined status byte); the per-status decode_total harnesses stay"
#[kani::proof]
#[kani::unwind(16)]
#[kani::stub(std::fmt::format, stub_format)]
#[kani::stub(std::string::String::from_utf8_lossy, stub_lossy)]
fn c20_resp_decode_total_unknown() {
    let mut buf: [u8; 14] = kani::any();
    let n: usize = kani::any();
    kani::assume(n <= 14);
    kani::cover!(n == 14, "reach");
    resp_total(&mut buf, n, 0x0C);
    resp_total(&mut buf, n, 0x7F);
    resp_total(&mut buf, n, 0xFF);
}
macro_rules! hrows_garbage {
    ($name:ident, $cols:expr, $rows_off:expr, $rows:expr) => {
        #[kani::proof]
        #[kani::unwind(4)]
        #[kani::stub(std::fmt::format, stub_format)]
        #[kani::stub(std::string::String::from_utf8_lossy, stub_lossy)]
                fn $name() {
            // Rows message with concrete counts, every other byte arbitrary (string lengths included), any truncation
            let mut buf: [u8; 24] = kani::any();
            let n: usize = kani::any();
            kani::assume(n <= 24);
            buf[0] = PROTOCOL_VERSION;
            buf[1] = 0x02;
            buf[2] = $cols;
            buf[3] = 0;
            buf[4] = 0;
            buf[5] = 0;
            // strings are length-prefixed; pin the column-name lengths to 0 so the row-count field sits at a known
            // offset and can be concrete as well; the row value lengths and bytes stay arbitrary
            let mut i = 0;
            while i < $cols {
                buf[6 + 4 * i] = 0;
                buf[7 + 4 * i] = 0;
                buf[8 + 4 * i] = 0;
                buf[9 + 4 * i] = 0;
                i += 1;
            }
            buf[$rows_off] = $rows;
            buf[$rows_off + 1] = 0;
            buf[$rows_off + 2] = 0;
            buf[$rows_off + 3] = 0;
            kani::cover!(n == 24, "reach");
            let r = okf(Response::from_bytes(&buf[..n]));
            std::mem::forget(r);
        }
    };
}
// @obl harness=c20_resp_rows_garbage_1x2 id=C20.decode_total[Response/Rows/1col,2rows] tier=quick funcs="Response::from_bytes,read_string_with_len" bounds="24-byte Rows message, any truncation, 1 column (empty name), 2 rows, value lengths and bytes arbitrary" stubs="std::fmt::format,String::from_utf8_lossy" unwind=4
hrows_garbage!(c20_resp_rows_garbage_1x2, 1, 10, 2);
// @obl harness=c20_resp_rows_garbage_2x1 id=C20.decode_total[Response/Rows/2cols,1row] tier=thorough funcs="Response::from_bytes,read_string_with_len" bounds="24-byte Rows message, any truncation, 2 columns (empty names), 1 row" stubs="std::fmt::format,String::from_utf8_lossy" unwind=4
hrows_garbage!(c20_resp_rows_garbage_2x1, 2, 14, 1);
// @obl harness=c20_resp_rows_garbage_0x3 id=C20.decode_total[Response/Rows/0cols,3rows] tier=quick funcs="Response::from_bytes,read_string_with_len" bounds="Rows message with 0 columns and 3 rows" stubs="std::fmt::format,String::from_utf8_lossy" unwind=4
hrows_garbage!(c20_resp_rows_garbage_0x3, 0, 6, 3);

// ---- allocation bound: decided by engine M (mirsmt) on the MIR of Response::from_bytes --------------------------
// (a generic `#[kani::stub(Vec::<T>::with_capacity, ..)]` is mis-instantiated by Kani 0.68 - Vec<String> gets a
//  Vec<u8> - so the recording-stub oracle planned in DESIGN.md cannot be used; see DESIGN.md corrections log.)
pub(crate) fn alloc_probe(msg: &[u8]) -> bool {
    // native oracle used by the M-engine replay: growth of VmPeak across one decode
    let before = vm_peak_kb();
    let r = okf(Response::from_bytes(msg));
    std::mem::forget(r);
    let after = vm_peak_kb();
    after - before < 262_144
}

// ---- framing -----------------------------------------------------------------------------------------------------
// @obl harness=c20_framing_rt id=C20.framing_roundtrip[<=6] tier=quick funcs="write_message,read_message" bounds="payload of 0..=6 arbitrary bytes through Vec<u8> writer and &[u8] reader" unwind=12
#[kani::proof]
#[kani::unwind(12)]
fn c20_framing_rt() {
    let p: [u8; 6] = kani::any();
    let n: usize = kani::any();
    kani::assume(n <= 6);
    let mut wire: Vec<u8> = Vec::with_capacity(16);
    let w = okf(write_message(&mut wire, &p[..n]));
    assert!(w.is_some(), "write_message_ok");
    assert!(wire.len() == n + 4, "frame_length");
    let mut rd: &[u8] = &wire[..];
    kani::cover!(n == 6, "reach");
    match okf(read_message(&mut rd)) {
        Some(m) => {
            assert!(m.len() == n, "framing_roundtrip_len");
            let mut i = 0;
            while i < 6 {
                if i < n {
                    assert!(m[i] == p[i], "framing_roundtrip");
                }
                i += 1;
            }
            assert!(rd.is_empty(), "frame_consumed_exactly");
        }
        None => assert!(false, "read_message_fails"),
    }
}
// @obl harness=c20_framing_garbage id=C20.framing_total[<=8] tier=quick funcs="read_message" bounds="any wire bytes of length 0..=8" unwind=12
#[kani::proof]
#[kani::unwind(12)]
fn c20_framing_garbage() {
    let w: [u8; 8] = kani::any();
    let n: usize = kani::any();
    kani::assume(n <= 8);
    let mut rd: &[u8] = &w[..n];
    kani::cover!(n == 8, "reach");
    match okf(read_message(&mut rd)) {
        Some(m) => {
            assert!(n >= 4, "needs_length_prefix");
            let len = u32::from_le_bytes([w[0], w[1], w[2], w[3]]) as usize;
            assert!(m.len() == len && len + 4 <= n, "frame_has_announced_length");
            std::mem::forget(m);
        }
        None => {}
    }
}
// @obl harness=c20_framing_too_large id=C20.framing_rejects_oversize tier=quick funcs="read_message" bounds="any announced length > 16 MiB" unwind=12
#[kani::proof]
#[kani::unwind(12)]
fn c20_framing_too_large() {
    let len: u32 = kani::any();
    kani::assume(len as usize > MAX_MESSAGE_SIZE);
    let l = len.to_le_bytes();
    let w = [l[0], l[1], l[2], l[3], 0, 0];
    let mut rd: &[u8] = &w[..];
    kani::cover!(true, "reach");
    match read_message(&mut rd) {
        Err(TcpError::MessageTooLarge(n)) => assert!(n == len as usize, "too_large_reports_length"),
        Err(e) => {
            std::mem::forget(e);
            assert!(false, "oversize_wrong_error")
        }
        Ok(v) => {
            std::mem::forget(v);
            assert!(false, "oversize_accepted")
        }
    }
}



// @obl harness=c20_status_code id=C20.status_code_total tier=quick funcs="StatusCode::try_from" bounds="all u8" unwind=4
#[kani::proof]
#[kani::unwind(4)]
fn c20_status_code() {
    let v: u8 = kani::any();
    kani::cover!(v > 0x0B, "reach");
    match okf(StatusCode::try_from(v)) {
        Some(sc) => assert!(v <= 0x0B && sc as u8 == v, "status_code_roundtrip"),
        None => assert!(v > 0x0B, "status_code_rejects_only_undefined"),
    }
}

// ---- Rows round trip split at the wire layout (encode half / decode half) -------------------------------------
// layout_*() is the written-down wire format; enc: to_bytes(r) == layout(r); dec: from_bytes(layout(r)) == r.
// Together they give from_bytes(to_bytes(r)) == r for the shape; each half is far cheaper for CBMC than the whole.
fn put_str(buf: &mut [u8; 30], at: usize, s: &[u8]) -> usize {
    let l = (s.len() as u32).to_le_bytes();
    buf[at] = l[0];
    buf[at + 1] = l[1];
    buf[at + 2] = l[2];
    buf[at + 3] = l[3];
    let mut i = 0;
    while i < s.len() {
        buf[at + 4 + i] = s[i];
        i += 1;
    }
    at + 4 + s.len()
}
fn put_u32(buf: &mut [u8; 30], at: usize, v: u32) -> usize {
    let l = v.to_le_bytes();
    buf[at] = l[0];
    buf[at + 1] = l[1];
    buf[at + 2] = l[2];
    buf[at + 3] = l[3];
    at + 4
}
/// 2 columns (1 and 0 bytes), 1 row (2 and 1 bytes): 30 bytes
fn layout_2x1(c0: &[u8; 1], v0: &[u8; 2], v1: &[u8; 1]) -> [u8; 30] {
    let mut b = [0u8; 30];
    b[0] = PROTOCOL_VERSION;
    b[1] = 0x02;
    let mut at = put_u32(&mut b, 2, 2);
    at = put_str(&mut b, at, c0);
    at = put_str(&mut b, at, &[]);
    at = put_u32(&mut b, at, 1);
    at = put_str(&mut b, at, v0);
    at = put_str(&mut b, at, v1);
    assert!(at == 30);
    b
}
fn ascii<const N: usize>() -> [u8; N] {
    let b: [u8; N] = kani::any();
    let mut i = 0;
    while i < N {
        kani::assume(b[i] < 0x80);
        i += 1;
    }
    b
}
fn s_of(b: &[u8]) -> String {
    unsafe { String::from_utf8_unchecked(b.to_vec()) }
}
// @obl harness=c20_rows_enc_2x1 id=C20.rows_encode_layout[2cols,1row] tier=thorough funcs="Response::to_bytes,write_string" bounds="2 columns (1 and 0 ASCII bytes), 1 row (2 and 1 ASCII bytes)" unwind=4
#[kani::proof]
#[kani::unwind(4)]
fn c20_rows_enc_2x1() {
    let (c0, v0, v1) = (ascii::<1>(), ascii::<2>(), ascii::<1>());
    let r = Response::Rows { columns: vec![s_of(&c0), String::new()], data: vec![vec![s_of(&v0), s_of(&v1)]] };
    let want = layout_2x1(&c0, &v0, &v1);
    let got = r.to_bytes();
    kani::cover!(true, "reach");
    assert!(got.len() == 30, "encoded_total_length");
    let mut w = [0u8; 32];
    w[..30].copy_from_slice(&got[..30]);
    let mut e = [0u8; 32];
    e[..30].copy_from_slice(&want);
    // compare as four u64 words (array == is a memcmp loop that would need a larger unwind)
    let q = |x: &[u8; 32], i: usize| u64::from_le_bytes([x[i], x[i + 1], x[i + 2], x[i + 3], x[i + 4], x[i + 5], x[i + 6], x[i + 7]]);
    assert!(q(&w, 0) == q(&e, 0) && q(&w, 8) == q(&e, 8) && q(&w, 16) == q(&e, 16) && q(&w, 24) == q(&e, 24), "rows_encode_layout");
    std::mem::forget(r);
}
// @obl harness=c20_rows_dec_2x1 id=C20.rows_decode_layout[2cols,1row] tier=quick funcs="Response::from_bytes,read_string_with_len" bounds="2 columns (1 and 0 ASCII bytes), 1 row (2 and 1 ASCII bytes)" stubs="std::fmt::format,String::from_utf8_lossy" unwind=4
#[kani::proof]
#[kani::unwind(4)]
#[kani::stub(std::fmt::format, stub_format)]
#[kani::stub(std::string::String::from_utf8_lossy, stub_lossy)]
fn c20_rows_dec_2x1() {
    let (c0, v0, v1) = (ascii::<1>(), ascii::<2>(), ascii::<1>());
    let wirebytes = layout_2x1(&c0, &v0, &v1);
    kani::cover!(true, "reach");
    let ok = chk(okf(Response::from_bytes(&wirebytes)), |d| match d {
        Response::Rows { columns, data } => {
            columns.len() == 2 && data.len() == 1 && data[0].len() == 2
                && str_eq(&columns[0], unsafe { std::str::from_utf8_unchecked(&c0) })
                && columns[1].is_empty()
                && str_eq(&data[0][0], unsafe { std::str::from_utf8_unchecked(&v0) })
                && str_eq(&data[0][1], unsafe { std::str::from_utf8_unchecked(&v1) })
        }
        _ => false,
    });
    assert!(ok, "rows_decode_layout");
}

// @obl harness=c20_rows_enc_1x1 id=C20.rows_encode_layout[1col,1row] tier=quick funcs="Response::to_bytes,write_string" bounds="1 column (1 ASCII byte), 1 row (2 ASCII bytes)" unwind=4
#[kani::proof]
#[kani::unwind(4)]
fn c20_rows_enc_1x1() {
    let (c0, v0) = (ascii::<1>(), ascii::<2>());
    let r = Response::Rows { columns: vec![s_of(&c0)], data: vec![vec![s_of(&v0)]] };
    let got = r.to_bytes();
    kani::cover!(true, "reach");
    assert!(got.len() == 21, "encoded_total_length");
    // [ver, 02, cols=1, len=1, c0, rows=1, len=2, v0a, v0b]
    assert!(got[0] == PROTOCOL_VERSION && got[1] == 0x02, "rows_encode_layout");
    assert!(got[2] == 1 && got[3] == 0 && got[4] == 0 && got[5] == 0, "rows_encode_layout");
    assert!(got[6] == 1 && got[7] == 0 && got[8] == 0 && got[9] == 0 && got[10] == c0[0], "rows_encode_layout");
    assert!(got[11] == 1 && got[12] == 0 && got[13] == 0 && got[14] == 0, "rows_encode_layout");
    assert!(got[15] == 2 && got[16] == 0 && got[17] == 0 && got[18] == 0 && got[19] == v0[0] && got[20] == v0[1], "rows_encode_layout");
    std::mem::forget(r);
}
