// host: lib.rs
// Native scenario for C04.own_delete_hides_older_versions: a session that deletes a row which has an older version
// (it was updated before) must not see the row any more.
use crate::{DBConfig, Database};

#[test]
fn own_delete_of_updated_row_is_invisible_to_self() {
    let dir = tempfile::TempDir::new().unwrap();
    let db = Database::create(dir.path().join("t.db"), DBConfig::default()).unwrap();
    db.execute("CREATE TABLE t (id BIGINT, v INT)").unwrap();
    db.execute("INSERT INTO t VALUES (1, 10)").unwrap();
    db.execute("INSERT INTO t VALUES (2, 20)").unwrap();
    db.execute("UPDATE t SET v = 11 WHERE id = 1").unwrap();
    let mut s = db.session().unwrap();
    s.execute("DELETE FROM t WHERE id = 1").unwrap();
    let n = s.execute("SELECT COUNT(*) FROM t").unwrap().into_rows().unwrap().first().unwrap()[0].as_big_int().unwrap().value();
    let _ = s.abort_transaction();
    std::mem::forget(s);
    assert_eq!(n, 1, "the session still sees the row it deleted (an older version was returned)");
}
