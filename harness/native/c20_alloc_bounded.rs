// host: tcp/mod.rs
// Native replay for C20.alloc_bounded: decoding a 14-byte garbage frame must not reserve memory out of proportion to
// the frame.  Oracle: growth of the process' peak virtual memory (VmPeak) across one decode.
use super::*;

fn vm_peak_kb() -> usize {
    let s = std::fs::read_to_string("/proc/self/status").unwrap_or_default();
    for l in s.lines() {
        if let Some(r) = l.strip_prefix("VmPeak:") {
            return r.trim().trim_end_matches("kB").trim().parse().unwrap_or(0);
        }
    }
    0
}

#[test]
fn rows_counts_from_the_wire_do_not_drive_allocation() {
    for msg in [
        // col_count = 0x10000000, nothing else
        vec![PROTOCOL_VERSION, 0x02, 0, 0, 0, 0x10, 0, 0],
        // 1 column (empty name), row_count = 0x10000000, no row data
        vec![PROTOCOL_VERSION, 0x02, 1, 0, 0, 0, 0, 0, 0, 0, 0, 0, 0, 0x10],
    ] {
        let before = vm_peak_kb();
        let r = Response::from_bytes(&msg);
        let after = vm_peak_kb();
        assert!(r.is_err(), "truncated Rows frame accepted");
        assert!(after - before < 262_144, "decoding a {}-byte frame grew peak virtual memory by {} kB", msg.len(), after - before);
    }
}
