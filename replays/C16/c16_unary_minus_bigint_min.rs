// replay for obligation C16.unary_minus[BigInt/MIN] (harness c16_unary_minus_bigint_min)
// harness-file: c05_eval.rs
// failed: attempt to negate with overflow
// native outcome when recorded: panicked: thread 'runtime::eval::__verif_c05_eval::kani_concrete_playback_c16_unary_minus_bigint_min_15515032226366763498' (6935) panicked at crates/axmos-db/src/runtime/eval.rs:518:60: | attempt to negate with overflow
// re-run: /verif/bin/check --replay /verif/replays/C16/c16_unary_minus_bigint_min.rs
#[test]
fn kani_concrete_playback_c16_unary_minus_bigint_min_15515032226366763498() {
    let concrete_vals: Vec<Vec<u8>> = vec![
    ];
    kani::concrete_playback_run(concrete_vals, c16_unary_minus_bigint_min);
}

