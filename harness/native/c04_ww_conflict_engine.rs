// host: lib.rs
// Engine-level scenario for C04 ("two concurrent transactions that modify the same row cannot both commit").
use crate::{DBConfig, Database};

#[test]
fn concurrent_updates_of_one_row_cannot_both_commit() {
    let dir = tempfile::TempDir::new().unwrap();
    let db = Database::create(dir.path().join("t.db"), DBConfig::default()).unwrap();
    db.execute("CREATE TABLE t (id BIGINT, v INT)").unwrap();
    db.execute("INSERT INTO t VALUES (1, 10)").unwrap();
    let mut s1 = db.session().unwrap();
    let mut s2 = db.session().unwrap();
    let u1 = s1.execute("UPDATE t SET v = 11 WHERE id = 1");
    let u2 = s2.execute("UPDATE t SET v = 12 WHERE id = 1");
    let c1 = if u1.is_ok() { s1.commit_transaction().is_ok() } else { false };
    let c2 = if u2.is_ok() { s2.commit_transaction().is_ok() } else { false };
    std::mem::forget(s1);
    std::mem::forget(s2);
    assert!(!(c1 && c2), "both concurrent writers of row 1 committed (u1 ok={}, u2 ok={})", u1.is_ok(), u2.is_ok());
}
